#!/usr/bin/env python3
"""translate_numparse.py — regenerates coq/theories/Gen/NumParseTables.v from /repo/src/de.rs on every run.

A statement-level translator (same conventions as tools/translate_scan.py / translate_cursor.py) for the VALUE-PATH number parser of
`impl Deserializer<R>`, DEFAULT build (the `#[cfg(not(feature = "float_roundtrip"))]` version where two exist):

    parse_integer  parse_number  parse_decimal  parse_exponent  parse_long_integer
    parse_decimal_overflow  parse_exponent_overflow  f64_from_parts
    + the `overflow!` macro (parsed from its definition and expanded, hygienically, at every use)
    + negated_u64_as_float (a pure one-expression helper, inlined at its call)
    + the `static POW10: [f64; n]` table

They differ from the scanners by ARITHMETIC.  Rust subset (AST and semantics: Model/NumParseAst.v):

    item  ::= self.eat_char();
            | let [mut] x = E;  |  x = E;  |  x += E;  x -= E;  x *= E;  x /= E;
            | let [mut] x = match SCRUT { PAT => E, PAT => { item* E }, PAT => { item* return R; }, .. };
            | if E { item* } [else { item* }]
            | match SCRUT { PAT => ARM, .. }
            | match TAB.get(E) { Some(&x) => { item* } None => { item* } }          (TAB a `static [f64; n]`)
            | while let PAT = SCRUT { item* }  |  loop { item* }  |  break;
            | return R;  |  R                      (R without `return` only in tail position of the function)
    ARM   ::= { item* }  |  R  |  return R
    SCRUT ::= tri!(self.peek_or_null())  |  tri!(self.peek())  |  tri!(self.next_char())  |  x          (x : u8)
    R     ::= Ok(E)  |  Err(self.error(ErrorCode::X))  |  Err(self.peek_error(ErrorCode::X))  |  self.f(E, ..)
            | Ok(ParserNumber::F64(tri!(self.f(E, ..))))
            | Ok(V)    where V is a value-`match` / value-`if` / block with items: Ok is distributed over the arms and branches
                       (Ok(match s { P => e, .. }) = match s { P => Ok(e), .. }); an arm `ParserNumber::F64(tri!(self.f(..)))` becomes the call form
    PAT   ::= _  |  [x @] BP  |  Some(_ | x | [x @] BP)  |  None          BP ::= b'x' | b'x'..=b'y' | BP | BP | ( BP ) | _
    E     ::= x | 10 | b'0' | 0.0 | 1e308 | true | false | u64::MAX | i32::MAX | ..  | ( E )
            | E + E | E - E | E * E | E / E | E % E | E == E | != | < | <= | > | >= | E && E | E || E | !E | -E | E as T
            | E.wrapping_neg() | E.wrapping_abs() | E.saturating_add(E) | E.saturating_sub(E) | E.wrapping_add(E) | .._sub | .._mul
            | E.is_infinite()  |  if E { E } else { E }  |  overflow!(x * 10 + y, E)  |  match E { c => E }
            | ParserNumber::F64(E) | ParserNumber::U64(E) | ParserNumber::I64(E)  |  self.negated_u64_as_float(E)
The translator infers the width of every integer literal and `let x = 0` (unification with the other operand / the callee's
parameter), so that the generated AST carries explicit widths everywhere.

Proofs/NumParseSrc.v proves the hand-written models of Model/Num.v equal to the interpretation of the generated bodies.  Anything
outside the subset: `BROKEN numparse:<fn>: <why>` (exit status 3; the previous file is NOT rewritten).  Pinned by exact text: the helpers
the interpreter takes as primitives (peek, peek_or_null, eat_char, next_char, error, peek_error, tri! — via translate_scan.check_pinned),
the matcher of `overflow!`, the parameter TYPES and return types of the functions, the ParserNumber enum.

Usage: translate_numparse.py [--repo /repo] [--out <file>]
"""
import re, sys, os, argparse
sys.path.insert(0, os.path.dirname(os.path.abspath(__file__)))
import translate_fmt as tf
Broken, block_at, squeeze, strip_comments = tf.Broken, tf.block_at, tf.squeeze, tf.strip_comments

# name -> (parameter types after the receiver, return payload, has a float_roundtrip twin)
SIGS = {
    'parse_integer':           (['bool'], 'pn', False),
    'parse_number':            (['bool', 'u64'], 'pn', False),
    'parse_decimal':           (['bool', 'u64', 'i32'], 'f64', False),
    'parse_exponent':          (['bool', 'u64', 'i32'], 'f64', False),
    'parse_long_integer':      (['bool', 'u64'], 'f64', True),
    'parse_decimal_overflow':  (['bool', 'u64', 'i32'], 'f64', True),
    'parse_exponent_overflow': (['bool', 'bool', 'bool'], 'f64', False),
    'f64_from_parts':          (['bool', 'u64', 'i32'], 'f64', True),
}
FNS = list(SIGS)
RET_TEXT = {'pn': 'Result<ParserNumber>', 'f64': 'Result<f64>'}
PURE = {'negated_u64_as_float': (['u64'], 'f64', True)}      # `&self` helpers returning a plain value, inlined
CFG_DEFAULT = '#[cfg(not(feature = "float_roundtrip"))]'
CFG_FR = '#[cfg(feature = "float_roundtrip")]'
HARMLESS_ATTRS = {'#[cold]', '#[inline(never)]', '#[inline]'}

OVERFLOW_MATCHER = '($a:ident * 10 + $b:ident, $c:expr)'
PARSER_NUMBER = ('{ F64(f64), U64(u64), I64(i64), #[cfg(feature = "arbitrary_precision")] String(String), }')

ECODES = ['EofWhileParsingList', 'EofWhileParsingObject', 'EofWhileParsingString', 'EofWhileParsingValue', 'ExpectedColon',
          'ExpectedListCommaOrEnd', 'ExpectedObjectCommaOrEnd', 'ExpectedSomeIdent', 'ExpectedSomeValue', 'ExpectedDoubleQuote',
          'InvalidEscape', 'InvalidNumber', 'NumberOutOfRange', 'InvalidUnicodeCodePoint', 'ControlCharacterWhileParsingString',
          'KeyMustBeAString', 'ExpectedNumericKey', 'FloatKeyMustBeFinite', 'LoneLeadingSurrogateInHexEscape', 'TrailingComma',
          'TrailingCharacters', 'UnexpectedEndOfHexEscape', 'RecursionLimitExceeded']

INT_TYPES = {'u8': (0, 255), 'u64': (0, 2**64 - 1), 'i32': (-2**31, 2**31 - 1), 'i64': (-2**63, 2**63 - 1), 'usize': (0, 2**64 - 1)}
COQ_ITY = {'u8': 'U8', 'u64': 'U64', 'i32': 'I32', 'i64': 'I64', 'usize': 'Usize'}

TOKEN = re.compile(r"\s*(b'(?:\\x[0-9a-fA-F]{2}|\\.|[^\\'])'"
                   r"|\d+\.\d+(?:e[+-]?\d+)?(?![A-Za-z0-9_.])|\d+e[+-]?\d+(?![A-Za-z0-9_.])|\d+(?![A-Za-z0-9_])"
                   r"|\$?[A-Za-z_][A-Za-z0-9_]*"
                   r"|\.\.=|=>|::|==|!=|>=|<=|&&|\|\||\+=|-=|\*=|/=|[@|(){},;!=.*+\-/%<>&\[\]:#])")
ESC = {'n': 10, 't': 9, 'r': 13, '\\': 92, '"': 34, '0': 0, "'": 39}
IDENT = re.compile(r'[a-z_][a-z0-9_]*!?\Z')          # a trailing `!` marks the hygienic binder of a macro expansion
KEYWORDS = {'_', 'self', 'let', 'mut', 'if', 'else', 'match', 'while', 'loop', 'return', 'as', 'true', 'false', 'fn', 'for', 'in',
            'break', 'continue', 'ref', 'move', 'tri', 'overflow', 'u8', 'u64', 'i32', 'i64', 'usize', 'f64', 'bool'}

def tokenize(s):
    out, i = [], 0
    s = s.strip()
    while i < len(s):
        m = TOKEN.match(s, i)
        if not m:
            raise Broken('token outside the subset at `%s`' % s[i:i + 40].strip())
        out.append(m.group(1))
        i = m.end()
    return out

def byte_value(tok):
    body = tok[2:-1]
    if body.startswith('\\x'):
        v = int(body[2:], 16)
    elif body.startswith('\\'):
        if body[1] not in ESC:
            raise Broken('escape in literal %s' % tok)
        v = ESC[body[1]]
    else:
        v = ord(body)
    if v > 127:
        raise Broken('non-ASCII literal %s' % tok)
    return v

def float_value(tok):
    """decimal float literal -> (m, e) with value m * 10^e"""
    m = re.fullmatch(r'(\d+)(?:\.(\d+))?(?:e([+-]?\d+))?', tok)
    if not m:
        raise Broken('float literal %s' % tok)
    ip, fp, ex = m.group(1), m.group(2) or '', int(m.group(3) or '0')
    return int(ip + fp), ex - len(fp)

class Cell:
    """the not yet known width of an integer literal (union-find)"""
    def __init__(self):
        self.to = None
    def find(self):
        c = self
        while isinstance(c.to, Cell):
            c = c.to
        return c

def resolve(t):
    if isinstance(t, Cell):
        r = t.find()
        return r.to if r.to is not None else r
    return t

def unify(a, b, what):
    a, b = resolve(a), resolve(b)
    if isinstance(a, Cell) and isinstance(b, Cell):
        if a is not b:
            a.to = b
        return b
    if isinstance(a, Cell) or isinstance(b, Cell):
        c, t = (a, b) if isinstance(a, Cell) else (b, a)
        if t not in INT_TYPES:
            raise Broken('%s: an integer literal where a %s is expected' % (what, t))
        c.to = t
        return t
    if a != b:
        raise Broken('%s: types %s and %s differ' % (what, a, b))
    return a

def is_int(t):
    t = resolve(t)
    return isinstance(t, Cell) or t in INT_TYPES

class P:
    """recursive descent over the token list of one function body"""
    def __init__(self, toks, fn, ctx):
        self.t, self.i, self.fn, self.ctx = toks, 0, fn, ctx
        self.ret = SIGS[fn][1] if fn in SIGS else None
    # ---- token helpers ---------------------------------------------------------------------
    def at(self, *lits):
        return self.t[self.i:self.i + len(lits)] == list(lits)
    def eat(self, *lits):
        if self.at(*lits):
            self.i += len(lits)
            return True
        return False
    def eats(self, text):
        return self.eat(*tokenize(text))
    def here(self):
        return ' '.join(self.t[self.i:self.i + 12])
    def need(self, *lits):
        if not self.eat(*lits):
            raise Broken('expected `%s` at `%s`' % (' '.join(lits), self.here()))
    def needs(self, text):
        self.need(*tokenize(text))
    def peek(self, k=0):
        return self.t[self.i + k] if self.i + k < len(self.t) else ''
    def is_ident(self, k=0):
        tok = self.peek(k)
        return bool(IDENT.match(tok)) and tok not in KEYWORDS
    def ident(self):
        if self.is_ident():
            self.i += 1
            return self.t[self.i - 1]
        raise Broken('identifier expected at `%s`' % self.here())
    def attempt(self, f):
        """run f(); on Broken restore the position and return None"""
        save = self.i
        try:
            return f()
        except Broken:
            self.i = save
            return None

    # ---- expressions: -> (ast, type) ---------------------------------------------------------
    def expr(self, scope):
        return self.e_or(scope)
    def e_or(self, scope):
        a, ta = self.e_and(scope)
        while self.eat('||'):
            b, tb = self.e_and(scope)
            unify(ta, 'bool', '||'); unify(tb, 'bool', '||')
            a, ta = ('or', a, b), 'bool'
        return a, ta
    def e_and(self, scope):
        a, ta = self.e_cmp(scope)
        while self.eat('&&'):
            b, tb = self.e_cmp(scope)
            unify(ta, 'bool', '&&'); unify(tb, 'bool', '&&')
            a, ta = ('and', a, b), 'bool'
        return a, ta
    def e_cmp(self, scope):
        a, ta = self.e_add(scope)
        ops = {'==': 'CEq', '!=': 'CNe', '<': 'CLt', '<=': 'CLe', '>': 'CGt', '>=': 'CGe'}
        if self.peek() in ops:
            op = self.peek(); self.i += 1
            b, tb = self.e_add(scope)
            t = unify(ta, tb, 'comparison %s' % op)
            if not (is_int(t) or t == 'f64'):
                raise Broken('comparison %s of %s values' % (op, t))
            if self.peek() in ops:
                raise Broken('chained comparison')
            return ('cmp', ops[op], a, b), 'bool'
        return a, ta
    def arith(self, op, a, ta, b, tb):
        t = unify(ta, tb, 'operator %s' % op)
        if resolve(t) == 'f64':
            if op not in ('*', '/'):
                raise Broken('f64 operator %s is outside the subset' % op)
        elif not is_int(t):
            raise Broken('operator %s on %s' % (op, t))
        return ('bin', {'+': 'OAdd', '-': 'OSub', '*': 'OMul', '/': 'ODiv', '%': 'ORem'}[op], a, b), t
    def e_add(self, scope):
        a, ta = self.e_mul(scope)
        while self.peek() in ('+', '-'):
            op = self.peek(); self.i += 1
            b, tb = self.e_mul(scope)
            a, ta = self.arith(op, a, ta, b, tb)
        return a, ta
    def e_mul(self, scope):
        a, ta = self.e_cast(scope)
        while self.peek() in ('*', '/', '%'):
            op = self.peek(); self.i += 1
            b, tb = self.e_cast(scope)
            a, ta = self.arith(op, a, ta, b, tb)
        return a, ta
    def e_cast(self, scope):
        a, ta = self.e_unary(scope)
        while self.eat('as'):
            t = self.peek(); self.i += 1
            src = resolve(ta)
            if src not in INT_TYPES:
                raise Broken('`as %s` applied to a value of type %s (only integer sources are in the subset)' % (t, 'unknown width' if isinstance(src, Cell) else src))
            if t in INT_TYPES:
                a, ta = ('cast', a, ('int', t)), t
            elif t == 'f64':
                a, ta = ('cast', a, ('f64',)), 'f64'
            else:
                raise Broken('cast to %s' % t)
        return a, ta
    def e_unary(self, scope):
        if self.eat('-'):
            a, ta = self.e_unary(scope)
            t = resolve(ta)
            if t == 'f64' or t in ('i32', 'i64'):
                return ('neg', a), ta
            raise Broken('unary minus on %s' % ('an integer literal' if isinstance(t, Cell) else t))
        if self.eat('!'):
            a, ta = self.e_unary(scope)
            unify(ta, 'bool', '!')
            return ('not', a), 'bool'
        return self.e_postfix(scope)
    def e_postfix(self, scope):
        a, ta = self.e_primary(scope)
        while self.at('.') and self.is_ident(1) and self.peek(2) == '(':
            m = self.peek(1); self.i += 3
            t = resolve(ta)
            if m in ('wrapping_neg', 'wrapping_abs'):
                self.need(')')
                if t not in INT_TYPES or (m == 'wrapping_abs' and t not in ('i32', 'i64')):
                    raise Broken('.%s() on %s' % (m, t))
                a = ('m1', {'wrapping_neg': 'MWrappingNeg', 'wrapping_abs': 'MWrappingAbs'}[m], a)
            elif m == 'is_infinite':
                self.need(')')
                if t != 'f64': raise Broken('.is_infinite() on %s' % t)
                a, ta = ('m1', 'MIsInfinite', a), 'bool'
            elif m in ('saturating_add', 'saturating_sub', 'wrapping_add', 'wrapping_sub', 'wrapping_mul'):
                b, tb = self.expr(scope)
                self.need(')')
                if t not in INT_TYPES: raise Broken('.%s() on %s' % (m, t))
                unify(ta, tb, '.%s' % m)
                a = ('m2', {'saturating_add': 'MSaturatingAdd', 'saturating_sub': 'MSaturatingSub', 'wrapping_add': 'MWrappingAdd',
                            'wrapping_sub': 'MWrappingSub', 'wrapping_mul': 'MWrappingMul'}[m], a, b)
            else:
                raise Broken('method .%s() is outside the subset' % m)
        return a, ta
    def block_expr(self, scope):
        self.need('{')
        r = self.expr(scope)
        self.need('}')
        return r
    def e_primary(self, scope):
        tok = self.peek()
        if tok == '(':
            self.i += 1
            r = self.expr(scope)
            self.need(')')
            return r
        if tok.startswith("b'"):
            self.i += 1
            return ('int', 'u8', byte_value(tok)), 'u8'
        if re.fullmatch(r'\d+', tok):
            self.i += 1
            c = Cell()
            return ('int', c, int(tok)), c
        if re.fullmatch(r'\d+\.\d+(?:e[+-]?\d+)?|\d+e[+-]?\d+', tok):
            self.i += 1
            return ('float',) + float_value(tok), 'f64'
        if tok in ('true', 'false'):
            self.i += 1
            return ('bool', tok == 'true'), 'bool'
        if tok in INT_TYPES and self.peek(1) == '::' and self.peek(2) in ('MAX', 'MIN'):
            self.i += 3
            return ('int', tok, INT_TYPES[tok][1 if self.t[self.i - 1] == 'MAX' else 0]), tok
        if self.eat('if'):
            c, tc = self.expr(scope)
            unify(tc, 'bool', 'if condition')
            a, ta = self.block_expr(scope)
            self.need('else')
            b, tb = self.block_expr(scope)
            return ('if', c, a, b), unify(ta, tb, 'if branches')
        if self.eat('match'):
            # only the shape `match E { c => E }` (what overflow! expands to): a let
            a, ta = self.expr(scope)
            self.need('{')
            x = self.ident()
            self.need('=>')
            sc = dict(scope); sc[x] = ta
            b, tb = self.expr(sc)
            self.eat(',')
            self.need('}')
            return ('let', x, a, b), tb
        if self.eat('overflow', '!', '('):
            return self.expand_overflow(scope)
        if self.eat('ParserNumber', '::'):
            k = self.peek(); self.i += 1
            want = {'F64': 'f64', 'U64': 'u64', 'I64': 'i64'}.get(k)
            if want is None: raise Broken('ParserNumber::%s' % k)
            self.need('(')
            a, ta = self.expr(scope)
            self.need(')')
            unify(ta, want, 'ParserNumber::%s' % k)
            return ('pn', 'K' + k, a), 'pn'
        if self.at('self', '.') and self.peek(2) in PURE and self.peek(3) == '(':
            f = self.peek(2); self.i += 4
            a, ta = self.expr(scope)
            self.need(')')
            param, body, tbody = self.ctx['pure'][f]
            unify(ta, PURE[f][0][0], 'argument of self.%s' % f)
            return ('let', param, a, body), tbody
        if self.is_ident():
            x = self.ident()
            if x not in scope:
                raise Broken('unknown variable %s' % x)
            return ('var', x), scope[x]
        raise Broken('expression outside the subset at `%s`' % self.here())
    def expand_overflow(self, scope):
        """overflow!(x * 10 + y, E) with the macro definition read from the source; the macro's own binder is renamed `c!` (hygiene)"""
        x = self.ident(); self.need('*', '10', '+'); y = self.ident(); self.need(',')
        depth, j = 0, self.i
        while True:
            if j >= len(self.t): raise Broken('unbalanced overflow!(')
            if self.t[j] == '(': depth += 1
            elif self.t[j] == ')':
                if depth == 0: break
                depth -= 1
            j += 1
        cexpr = self.t[self.i:j]
        self.i = j + 1
        exp = []
        for tok in self.ctx['overflow']:
            if tok == '$a': exp.append(x)
            elif tok == '$b': exp.append(y)
            elif tok == '$c': exp += ['('] + cexpr + [')']
            else: exp.append(tok)
        sub = P(exp, self.fn, self.ctx)
        r = sub.expr(scope)
        if sub.i != len(sub.t):
            raise Broken('overflow! expansion: trailing `%s`' % sub.here())
        return r

    # ---- patterns ------------------------------------------------------------------------------
    def bp_atom(self):
        if self.eat('('):
            p = self.bp()
            self.need(')')
            return p
        if self.eat('_'):
            return ('wild',)
        if self.peek().startswith("b'"):
            lo = byte_value(self.peek()); self.i += 1
            if self.eat('..='):
                if not self.peek().startswith("b'"):
                    raise Broken('byte literal expected after ..= at `%s`' % self.here())
                hi = byte_value(self.peek()); self.i += 1
                return ('range', lo, hi)
            return ('lit', lo)
        raise Broken('byte pattern outside the subset at `%s`' % self.here())
    def bp(self):
        p = self.bp_atom()
        while self.eat('|'):
            p = ('or', p, self.bp_atom())
        return p
    def bound_bp(self, scope):
        if self.is_ident():
            x = self.ident()
            scope[x] = 'u8'
            if self.eat('@'):
                return x, self.bp_atom()
            return x, ('wild',)
        return None, self.bp()
    def pat(self, kind, scope):
        if kind == 'u8':
            if self.at('_') and self.peek(1) in ('=>', '='):
                self.i += 1
                return ('any',)
            x, p = self.bound_bp(scope)
            return ('byte', x, p)
        if self.eat('_'): return ('any',)
        if self.eat('None'): return ('none',)
        if self.eat('Some', '('):
            x, p = self.bound_bp(scope)
            self.need(')')
            return ('some', x, p)
        raise Broken('Option pattern outside the subset at `%s`' % self.here())

    # ---- scrutinees / result expressions ---------------------------------------------------------
    def at_scrut(self, scope):
        return self.at('tri', '!', '(') or (self.is_ident() and resolve(scope.get(self.peek())) == 'u8' and self.peek(1) in ('{',))
    def scrut(self, scope):
        if self.eat('tri', '!', '('):
            if self.eats('self.peek_or_null()'): r = (('peek_or_null',), 'u8')
            elif self.eats('self.peek()'): r = (('peek',), 'opt')
            elif self.eats('self.next_char()'): r = (('next',), 'opt')
            else: raise Broken('scrutinee outside the subset at `%s`' % self.here())
            self.need(')')
            return r
        x = self.ident()
        if resolve(scope.get(x)) != 'u8':
            raise Broken('match %s: not a u8 variable' % x)
        return (('var', x), 'u8')
    def is_call(self):
        return self.at('self', '.') and self.peek(2) in SIGS and self.peek(3) == '('
    def call(self, scope):
        """self.f(E, ..) -> (f, [args])"""
        f = self.peek(2); self.i += 4
        args = []
        while not self.at(')'):
            a, ta = self.expr(scope)
            args.append((a, ta))
            if not self.at(')'): self.need(',')
        self.need(')')
        want = SIGS[f][0]
        if len(args) != len(want):
            raise Broken('self.%s called with %d arguments, its signature has %d' % (f, len(args), len(want)))
        for k, ((a, ta), w) in enumerate(zip(args, want)):
            unify(ta, w, 'argument %d of self.%s' % (k + 1, f))
        return f, [a for a, _ in args]
    def starts_rexpr(self):
        return self.at('Ok', '(') or self.at('Err', '(') or self.is_call()
    def rexpr(self, scope, tail):
        """-> list of statements standing for `return R` (one ('ret', ..) unless Ok(..) had to be distributed)"""
        if self.at('Ok', '('):
            self.i += 2
            out = self.ok_value(scope, ')')
            self.need(')')
            return out
        if self.eat('Err', '('):
            self.need('self', '.')
            if self.eat('error'): peeked = False
            elif self.eat('peek_error'): peeked = True
            else: raise Broken('Err(..) of something other than self.error / self.peek_error at `%s`' % self.here())
            self.need('(', 'ErrorCode', '::')
            c = self.peek(); self.i += 1
            if c not in ECODES:
                raise Broken('unknown ErrorCode::%s' % c)
            self.need(')', ')')
            return [('ret', ('err', peeked, c))]
        if self.is_call():
            f, args = self.call(scope)
            if SIGS[f][1] != self.ret:
                raise Broken('self.%s(..) returns %s, the enclosing function %s' % (f, RET_TEXT[SIGS[f][1]], RET_TEXT[self.ret]))
            return [('ret', ('call', f, args, None))]
        raise Broken('Result expression outside the subset at `%s`' % self.here())
    def pn_call(self, scope):
        """ParserNumber::F64(tri!(self.f(..)[,]))"""
        save = self.i
        if self.eats('ParserNumber::F64(tri!(') and self.is_call():
            f, args = self.call(scope)
            self.eat(',')
            self.need(')', ')')
            if SIGS[f][1] != 'f64': raise Broken('ParserNumber::F64(tri!(self.%s(..))): %s does not return Result<f64>' % (f, f))
            if self.ret != 'pn': raise Broken('ParserNumber value in a function returning %s' % RET_TEXT[self.ret])
            return [('ret', ('call', f, args, 'KF64'))]
        self.i = save
        return None
    def ok_value(self, scope, closer):
        """the V of Ok(V), up to (not including) the token `closer`: statements that return Ok(V)"""
        r = self.pn_call(scope)
        if r is not None and self.at(closer):
            return r
        def pure():
            a, ta = self.expr(scope)
            if not self.at(closer): raise Broken('not a pure value')
            unify(ta, self.ret, 'Ok(..) value')
            return [('ret', ('ok', a))]
        r = self.attempt(pure)
        if r is not None:
            return r
        if self.at('if'):
            self.i += 1
            c, tc = self.expr(scope)
            unify(tc, 'bool', 'if condition')
            a = self.ok_block(scope)
            self.need('else')
            b = self.ok_block(scope)
            return [('if', c, a, b)]
        if self.eat('match'):
            sc, kind = self.scrut(scope)
            self.need('{')
            arms = []
            while not self.at('}'):
                sc2 = dict(scope)
                p = self.pat(kind, sc2)
                self.need('=>')
                if self.at('{'):
                    body = self.ok_block(sc2)
                    self.eat(',')
                else:
                    body = self.ok_value(sc2, ',') if self.find_arm_end() == ',' else self.ok_value(sc2, '}')
                    if not self.at('}'): self.need(',')
                arms.append((p, body))
            self.need('}')
            if not arms: raise Broken('match without arms')
            return [('match', sc, arms)]
        raise Broken('Ok(..) value outside the subset at `%s`' % self.here())
    def find_arm_end(self):
        """the token that ends the expression arm starting here: ',' or '}' at nesting depth 0"""
        depth, j = 0, self.i
        while j < len(self.t):
            tok = self.t[j]
            if tok in '([{': depth += 1
            elif tok in ')]}':
                if depth == 0: return tok
                depth -= 1
            elif tok == ',' and depth == 0:
                return ','
            j += 1
        raise Broken('unbalanced match arm')
    def ok_block(self, scope):
        """`{ item* V }` whose value is returned as Ok(V)"""
        self.need('{')
        sc = dict(scope)
        out = self.items(False, sc, stop=lambda: self.attempt_peek(lambda: self.ok_value(dict(sc), '}')) is not None)
        if self.at('}'): raise Broken('value block ends without a value')
        out += self.ok_value(sc, '}')
        self.need('}')
        return out
    def attempt_peek(self, f):
        save = self.i
        try:
            r = f()
            return r if self.at('}') else None
        except Broken:
            return None
        finally:
            self.i = save

    # ---- items -------------------------------------------------------------------------------------
    def block(self, tail, scope):
        self.need('{')
        out = self.items(tail, dict(scope))
        self.need('}')
        return out
    def skip_block(self, j):
        if self.t[j:j + 1] != ['{']: raise Broken('`{` expected at `%s`' % ' '.join(self.t[j:j + 8]))
        depth = 0
        while True:
            if j >= len(self.t): raise Broken('unbalanced braces')
            depth += {'{': 1, '}': -1}.get(self.t[j], 0)
            j += 1
            if depth == 0: return j
    def arms(self, kind, tail, scope):
        out = []
        while not self.at('}'):
            sc = dict(scope)
            p = self.pat(kind, sc)
            self.need('=>')
            if self.at('{'):
                body = self.block(tail, sc)
                self.eat(',')
            else:
                if self.eat('return'):
                    body = self.rexpr(sc, True)
                elif self.starts_rexpr():
                    if not tail:
                        raise Broken('Result-valued arm `%s` outside tail position' % self.here())
                    body = self.rexpr(sc, True)
                else:
                    raise Broken('match arm outside the subset at `%s`' % self.here())
                if not self.at('}'):
                    self.need(',')
            out.append((p, body))
        if not out:
            raise Broken('match without arms')
        return out
    def let_pattern(self, scope):
        sc2 = dict(scope)
        j = self.i
        while j < len(self.t) and self.t[j] != '=': j += 1
        save = self.i
        self.i = j
        self.need('=')
        sc, kind = self.scrut(scope)
        after = self.i
        self.i = save
        p = self.pat(kind, sc2)
        if self.i != j: raise Broken('let pattern outside the subset at `%s`' % self.here())
        self.i = after
        return p, sc, sc2
    def let_match(self, x, scope):
        """let x = match SCRUT { PAT => E, PAT => { item* E }, PAT => { item* return R; } };   (after `match`)"""
        sc, kind = self.scrut(scope)
        self.need('{')
        arms, ty = [], None
        while not self.at('}'):
            sc2 = dict(scope)
            p = self.pat(kind, sc2)
            self.need('=>')
            if self.at('{'):
                self.need('{')
                sc3 = dict(sc2)
                def value():
                    a, ta = self.expr(dict(sc3))
                    if not self.at('}'): raise Broken('not the value')
                    return a, ta
                pre = self.items(False, sc3, stop=lambda: self.attempt_peek(value) is not None)
                if self.at('}'):
                    if not pre or pre[-1][0] != 'ret':
                        raise Broken('block arm of `let %s = match` neither ends in a value nor in a return' % x)
                    val = None
                else:
                    val, tv = self.expr(sc3)
                    ty = tv if ty is None else unify(ty, tv, 'arms of let %s = match' % x)
                self.need('}')
                self.eat(',')
            else:
                pre = []
                val, tv = self.expr(sc2)
                ty = tv if ty is None else unify(ty, tv, 'arms of let %s = match' % x)
                if not self.at('}'): self.need(',')
            arms.append((p, pre, val))
        self.need('}', ';')
        if ty is None: raise Broken('let %s = match: no arm has a value' % x)
        return ('letmatch', x, sc, arms), ty
    def items(self, tail, scope, stop=None):
        out, done = [], False
        while not self.at('}') and not (stop and not done and stop()):
            if self.i >= len(self.t):
                raise Broken('unexpected end of body')
            if done:
                raise Broken('item after a return / tail expression: `%s`' % self.here())
            if self.eats('self.eat_char();'):
                out.append(('eat',)); continue
            if self.eats('break;'):
                out.append(('break',)); done = True; continue
            if self.at('let'):
                self.i += 1
                self.eat('mut')
                x = self.ident()
                if x.endswith('!'): raise Broken('identifier %s' % x)
                self.need('=')
                if self.at('match') and (self.peek(1) == 'tri' or (IDENT.match(self.peek(1)) and self.peek(2) == '{')):
                    self.i += 1
                    st, ty = self.let_match(x, scope)
                    scope[x] = ty
                    out.append(st); continue
                e, te = self.expr(scope)
                self.need(';')
                scope[x] = te
                out.append(('let', x, e)); continue
            if self.is_ident() and self.peek(1) in ('=', '+=', '-=', '*=', '/='):
                x = self.ident(); op = self.peek(); self.i += 1
                if x not in scope: raise Broken('assignment to unknown variable %s' % x)
                e, te = self.expr(scope)
                self.need(';')
                if op == '=':
                    unify(scope[x], te, 'assignment to %s' % x)
                else:
                    e, te = self.arith(op[0], ('var', x), scope[x], e, te)
                out.append(('assign', x, e)); continue
            if self.at('if'):
                # statement `if`; it stands in tail position iff it has a final else, the block is in tail position and nothing follows
                j, final_else = self.i, False
                while True:
                    while self.t[j:j + 1] != ['{']:
                        if j >= len(self.t): raise Broken('unbalanced if')
                        j += 1
                    j = self.skip_block(j)
                    if self.t[j:j + 1] != ['else']: break
                    j += 1
                    if self.t[j:j + 1] == ['if']: continue
                    j = self.skip_block(j)
                    final_else = True
                    break
                is_tail = tail and final_else and self.t[j:j + 1] == ['}']
                out.append(self.if_parse(is_tail, scope)); done = is_tail
                continue
            if self.at('match') and re.fullmatch(r'[A-Z][A-Z0-9_]*', self.peek(1)) and self.peek(2) == '.' and self.peek(3) == 'get':
                out.append(self.match_get(scope)); continue
            if self.eat('match'):
                sc, kind = self.scrut(scope)
                self.need('{')
                j, depth = self.i, 1
                while depth:
                    if j >= len(self.t): raise Broken('unbalanced match')
                    depth += {'{': 1, '}': -1}.get(self.t[j], 0)
                    j += 1
                is_tail = tail and self.t[j:j + 1] == ['}']
                arms = self.arms(kind, is_tail, scope)
                self.need('}')
                out.append(('match', sc, arms))
                done = is_tail
                continue
            if self.eat('while', 'let'):
                p, sc, sc2 = self.let_pattern(scope)
                body = self.block(False, sc2)
                out.append(('while', p, sc, body)); continue
            if self.eat('loop'):
                body = self.block(False, scope)
                out.append(('loop', body)); done = not has_break(body); continue
            if self.eat('return'):
                out += self.rexpr(scope, True)
                self.eat(';')
                done = True; continue
            if self.starts_rexpr():
                r = self.rexpr(scope, tail)
                if not (tail and self.at('}')):
                    raise Broken('Result-valued expression outside tail position before `%s`' % self.here())
                out += r; done = True; continue
            raise Broken('item outside the subset: `%s`' % self.here())
        return out
    def if_parse(self, is_tail, scope):
        self.need('if')
        c, tc = self.expr(scope)
        unify(tc, 'bool', 'if condition')
        a = self.block(is_tail, scope)
        if self.eat('else'):
            b = [self.if_parse(is_tail, scope)] if self.at('if') else self.block(is_tail, scope)
            return ('if', c, a, b)
        return ('if', c, a, [])
    def match_get(self, scope):
        self.need('match')
        tab = self.peek(); self.i += 1
        if tab not in self.ctx['tabs']: raise Broken('unknown table %s' % tab)
        self.need('.', 'get', '(')
        idx, ti = self.expr(scope)
        unify(ti, 'usize', 'index of %s.get' % tab)
        self.need(')', '{', 'Some', '(', '&')
        x = self.ident()
        self.need(')', '=>')
        sc = dict(scope); sc[x] = 'f64'
        some = self.block(False, sc)
        self.eat(',')
        self.need('None', '=>')
        none = self.block(False, scope)
        self.eat(',')
        self.need('}')
        return ('matchget', tab, idx, x, some, none)

def has_break(ss):
    for st in ss:
        k = st[0]
        if k == 'break': return True
        if k == 'if': subs = [st[2], st[3]]
        elif k == 'match': subs = [b for _, b in st[2]]
        elif k == 'letmatch': subs = [pre for _, pre, _ in st[3]]
        elif k == 'matchget': subs = [st[4], st[5]]
        else: subs = []
        if any(has_break(b) for b in subs): return True
    return False

# ---- Coq output --------------------------------------------------------------------------------
def q(s):
    return '"%s"' % s
def zlit(v):
    return '(%d)' % v if v < 0 else '%d' % v
def coq_ity(t, what):
    t = resolve(t)
    if isinstance(t, Cell):
        raise Broken('cannot infer the width of %s' % what)
    return COQ_ITY[t]
def coq_expr(e):
    k = e[0]
    if k == 'var': return '(EVar %s)' % q(e[1])
    if k == 'int':
        t = resolve(e[1])
        if isinstance(t, Cell): raise Broken('cannot infer the width of the literal %d' % e[2])
        lo, hi = INT_TYPES[t]
        if not lo <= e[2] <= hi: raise Broken('literal %d out of range for %s' % (e[2], t))
        return '(EInt %s %s)' % (COQ_ITY[t], zlit(e[2]))
    if k == 'bool': return '(EBool %s)' % ('true' if e[1] else 'false')
    if k == 'float': return '(EFloat %s %s)' % (zlit(e[1]), zlit(e[2]))
    if k == 'bin': return '(EBin %s %s %s)' % (e[1], coq_expr(e[2]), coq_expr(e[3]))
    if k == 'cmp': return '(ECmp %s %s %s)' % (e[1], coq_expr(e[2]), coq_expr(e[3]))
    if k == 'and': return '(EAnd %s %s)' % (coq_expr(e[1]), coq_expr(e[2]))
    if k == 'or': return '(EOr %s %s)' % (coq_expr(e[1]), coq_expr(e[2]))
    if k == 'not': return '(ENot %s)' % coq_expr(e[1])
    if k == 'neg': return '(ENeg %s)' % coq_expr(e[1])
    if k == 'cast': return '(ECast %s %s)' % (coq_expr(e[1]), 'TF64' if e[2][0] == 'f64' else '(TInt %s)' % COQ_ITY[e[2][1]])
    if k == 'm1': return '(EM1 %s %s)' % (e[1], coq_expr(e[2]))
    if k == 'm2': return '(EM2 %s %s %s)' % (e[1], coq_expr(e[2]), coq_expr(e[3]))
    if k == 'if': return '(EIf %s %s %s)' % (coq_expr(e[1]), coq_expr(e[2]), coq_expr(e[3]))
    if k == 'let': return '(ELet %s %s %s)' % (q(e[1]), coq_expr(e[2]), coq_expr(e[3]))
    if k == 'pn': return '(EPn %s %s)' % (e[1], coq_expr(e[2]))
    raise Broken('internal: expr ' + k)
def coq_opt(x):
    return 'None' if x is None else '(Some %s)' % q(x)
def coq_bp(p):
    k = p[0]
    if k == 'wild': return 'PWild'
    if k == 'lit': return '(PLit %d)' % p[1]
    if k == 'range': return '(PRange %d %d)' % (p[1], p[2])
    return '(POr %s %s)' % (coq_bp(p[1]), coq_bp(p[2]))
def coq_pat(p):
    k = p[0]
    if k == 'any': return 'PAny'
    if k == 'none': return 'PNone'
    return '(%s %s %s)' % ('PByte' if k == 'byte' else 'PSome', coq_opt(p[1]), coq_bp(p[2]))
def coq_scrut(s):
    return {'peek_or_null': 'ScPeekOrNull', 'peek': 'ScPeek', 'next': 'ScNext'}.get(s[0]) or '(ScVar %s)' % q(s[1])
def coq_rexpr(r):
    k = r[0]
    if k == 'ok': return '(ROk %s)' % coq_expr(r[1])
    if k == 'err': return '(RErr %s %s)' % ('true' if r[1] else 'false', r[2])
    return '(RCall %s [%s] %s)' % (q(r[1]), '; '.join(coq_expr(a) for a in r[2]), 'None' if r[3] is None else '(Some %s)' % r[3])
SIMPLE = ('eat', 'let', 'assign', 'ret', 'break')
def coq_stmt(s, ind):
    k = s[0]
    if k == 'eat': return 'SEat'
    if k == 'break': return 'SBreak'
    if k == 'let': return 'SLet %s %s' % (q(s[1]), coq_expr(s[2]))
    if k == 'assign': return 'SAssign %s %s' % (q(s[1]), coq_expr(s[2]))
    if k == 'ret': return 'SRet %s' % coq_rexpr(s[1])
    if k == 'if': return 'SIf %s %s %s' % (coq_expr(s[1]), coq_block(s[2], ind + 2), coq_block(s[3], ind + 2))
    if k == 'loop': return 'SLoop %s' % coq_block(s[1], ind + 2)
    if k == 'while': return 'SWhileLet %s %s %s' % (coq_pat(s[1]), coq_scrut(s[2]), coq_block(s[3], ind + 2))
    if k == 'match':
        pad = ' ' * (ind + 2)
        arms = (';\n' + pad).join('(%s, %s)' % (coq_pat(p), coq_block(b, ind + 4)) for p, b in s[2])
        return 'SMatch %s [\n%s%s]' % (coq_scrut(s[1]), pad, arms)
    if k == 'letmatch':
        pad = ' ' * (ind + 2)
        arms = (';\n' + pad).join('(%s, (%s, %s))' % (coq_pat(p), coq_block(pre, ind + 4), 'None' if v is None else 'Some %s' % coq_expr(v))
                                   for p, pre, v in s[3])
        return 'SLetMatch %s %s [\n%s%s]' % (q(s[1]), coq_scrut(s[2]), pad, arms)
    if k == 'matchget':
        return 'SMatchGet %s %s %s %s %s' % (q(s[1]), coq_expr(s[2]), q(s[3]), coq_block(s[4], ind + 2), coq_block(s[5], ind + 2))
    raise Broken('internal: ' + k)
def coq_block(ss, ind):
    if all(s[0] in SIMPLE for s in ss) and len(ss) <= 1:
        return '[' + '; '.join(coq_stmt(s, ind) for s in ss) + ']'
    pad = ' ' * ind
    return '[\n' + pad + (';\n' + pad).join(coq_stmt(s, ind) for s in ss) + ']'

# ---- reading the source ----------------------------------------------------------------------------
def fn_variants(src, fn):
    """every `fn <fn>(` of the file: (attribute lines, squeezed parameter list, squeezed return type, squeezed comment-free body)"""
    out = []
    for m in re.finditer(r'^((?:[ \t]*#\[[^\n]*\]\n)*)[ \t]*(?:pub(?:\(crate\))? )?fn %s\s*\(' % fn, src, re.M):
        j = src.index('{', m.end())
        head = squeeze(src[m.end():j])
        hm = re.fullmatch(r'(.*)\) -> (.*)', head)
        if not hm:
            raise Broken('signature `(%s` is not `(..) -> ..`' % head)
        attrs = [squeeze(a) for a in m.group(1).split('\n') if a.strip()]
        out.append((attrs, hm.group(1).strip(), hm.group(2).strip(), squeeze(strip_comments(block_at(src, j)[0]))))
    return out

def default_variant(src, fn, twin):
    vs = fn_variants(src, fn)
    for attrs, _, _, _ in vs:
        for a in attrs:
            if a not in HARMLESS_ATTRS and a not in (CFG_DEFAULT, CFG_FR):
                raise Broken('attribute `%s` is not one the translation knows' % a)
    if twin:
        d = [v for v in vs if CFG_DEFAULT in v[0]]
        o = [v for v in vs if CFG_FR in v[0]]
        if len(vs) != 2 or len(d) != 1 or len(o) != 1:
            raise Broken('expected one `%s` and one `%s` definition, found %d definitions' % (CFG_DEFAULT, CFG_FR, len(vs)))
        return d[0]
    if len(vs) != 1:
        raise Broken('expected exactly one definition, found %d' % len(vs))
    if any(a in (CFG_DEFAULT, CFG_FR) for a in vs[0][0]):
        raise Broken('unexpected cfg attribute %s' % vs[0][0])
    return vs[0]

def params_of(text, recv, want_types):
    """`&mut self, [mut] x: T, ..` -> [x, ..] (the types are pinned)"""
    parts = [p.strip() for p in text.split(',') if p.strip()]
    if not parts or parts[0] != recv:
        raise Broken('receiver is `%s`, expected `%s`' % (parts[0] if parts else '', recv))
    names, types = [], []
    for p in parts[1:]:
        m = re.fullmatch(r'(?:mut )?([a-z_][a-z0-9_]*): ([a-z0-9]+)', p)
        if not m:
            raise Broken('parameter `%s` outside the subset' % p)
        names.append(m.group(1)); types.append(m.group(2))
    if types != want_types:
        raise Broken('parameter types are %s, the interpreter assumes %s' % (types, want_types))
    if len(set(names)) != len(names):
        raise Broken('duplicate parameter names')
    return names

def translate(repo):
    src = open(os.path.join(repo, 'src', 'de.rs'), encoding='utf-8').read()
    src = '\n'.join('' if l.lstrip().startswith('//') else l for l in src.split('\n'))
    broken, bodies, params = [], {}, {}
    ctx = {'overflow': None, 'pure': {}, 'tabs': {}}
    # the overflow! macro
    try:
        m = re.search(r'^macro_rules! overflow\s*\{', src, re.M)
        if not m: raise Broken('macro not found')
        body = squeeze(block_at(src, m.end() - 1)[0])
        mm = re.fullmatch(r'\{ (\(.*?\)) => (\{.*\}); \}', body)
        if not mm: raise Broken('macro is not one rule `{ (..) => { .. }; }`: `%s`' % body)
        if mm.group(1) != OVERFLOW_MATCHER:
            raise Broken('matcher is `%s`, the translation assumes `%s`' % (mm.group(1), OVERFLOW_MATCHER))
        toks = tokenize(mm.group(2)[1:-1])
        # match $c { c => BODY, }   : rename the binder (macro hygiene)
        if len(toks) < 6 or toks[0] != 'match' or toks[1] != '$c' or toks[2] != '{' or toks[4] != '=>' or toks[-1] != '}':
            raise Broken('expansion is not `match $c { c => .. }`: `%s`' % mm.group(2))
        binder = toks[3]
        if not IDENT.match(binder) or binder in KEYWORDS: raise Broken('binder `%s`' % binder)
        ctx['overflow'] = [binder + '!' if t == binder else t for t in toks]
        for t in ctx['overflow']:
            if t.startswith('$') and t not in ('$a', '$b', '$c'): raise Broken('metavariable %s' % t)
    except (Broken, ValueError, IndexError) as e:
        broken.append(('numparse:overflow!', str(e)))
    # static f64 tables
    try:
        m = re.search(r'^static POW10: \[f64; (\d+)\] = \[(.*?)\];', src, re.M | re.S)
        if not m: raise Broken('not found')
        toks = [t.strip() for t in strip_comments(m.group(2)).split(',') if t.strip()]
        if len(toks) != int(m.group(1)): raise Broken('length')
        ctx['tabs']['POW10'] = [float_value(t) for t in toks]
    except (Broken, ValueError, IndexError) as e:
        broken.append(('numparse:POW10', str(e)))
    # pure helpers
    for fn, (ptypes, ret, twin) in PURE.items():
        try:
            attrs, ptext, rtext, body = default_variant(src, fn, twin)
            if rtext != ret: raise Broken('return type is `%s`, expected `%s`' % (rtext, ret))
            names = params_of(ptext, '&self', ptypes)
            p = P(tokenize(body), fn, ctx)
            p.need('{')
            e, te = p.expr({names[0]: ptypes[0]})
            p.need('}')
            if p.i != len(p.t): raise Broken('trailing text after body')
            unify(te, ret, 'value of %s' % fn)
            ctx['pure'][fn] = (names[0], e, ret)
        except (Broken, ValueError, IndexError) as e:
            broken.append(('numparse:' + fn, str(e)))
    if broken:
        return None, None, None, broken
    for fn in FNS:
        ptypes, ret, twin = SIGS[fn]
        try:
            attrs, ptext, rtext, body = default_variant(src, fn, twin)
            if rtext != RET_TEXT[ret]:
                raise Broken('return type is `%s`, the interpreter assumes `%s`' % (rtext, RET_TEXT[ret]))
            names = params_of(ptext, '&mut self', ptypes)
            p = P(tokenize(body), fn, ctx)
            ss = p.block(True, dict(zip(names, ptypes)))
            if p.i != len(p.t): raise Broken('trailing text after body')
            coq_block(ss, 2)                    # forces the width inference errors to surface here
            bodies[fn], params[fn] = ss, names
        except (Broken, ValueError, IndexError) as e:
            broken.append(('numparse:' + fn, str(e)))
    try:
        ms = list(re.finditer(r'^pub\(crate\) enum ParserNumber\s*\{', src, re.M))
        if len(ms) != 1: raise Broken('expected exactly one `pub(crate) enum ParserNumber`, found %d' % len(ms))
        got = squeeze(block_at(src, ms[0].end() - 1)[0])
        if got != PARSER_NUMBER: raise Broken('variants are `%s`, the translation assumes `%s`' % (got, PARSER_NUMBER))
    except (Broken, ValueError, IndexError) as e:
        broken.append(('numparse:enum:ParserNumber', str(e)))
    try:
        import translate_scan as ts
        broken += ts.check_pinned(repo, src, 'numparse')
    except Exception as e:                      # the shared pin list lives in translate_scan.py
        broken.append(('numparse:pinned', 'translate_scan.check_pinned unavailable: %s' % e))
    return bodies, params, ctx['tabs'], broken

def emit(bodies, params, tabs):
    L = ['(* Gen/NumParseTables.v — GENERATED by tools/translate_numparse.py from /repo/src/de.rs on every run. Do not edit.',
         '   The bodies of the value-path number parser of Deserializer<R> (default build), statement by statement, the `overflow!` macro expanded',
         '   at its uses, and the POW10 table (AST and semantics: Model/NumParseAst.v). *)',
         'From Coq Require Import List ZArith String.', 'From SJ Require Import Base.Bytes Model.NumParseAst.', 'Import ListNotations.',
         'Local Open Scope string_scope.', 'Local Open Scope Z_scope.', '']
    for fn in FNS:
        L.append('Definition NP_%s : fdef := mkFn [%s] %s.' % (fn, '; '.join(q(x) for x in params[fn]), coq_block(bodies[fn], 2)))
        L.append('')
    for tab, ents in tabs.items():
        L.append('Definition NP_%s : list (Z * Z) := [' % tab)
        rows = ['; '.join('(%s, %s)' % (zlit(m), zlit(e)) for m, e in ents[i:i + 12]) for i in range(0, len(ents), 12)]
        L.append(';\n'.join('  ' + r for r in rows) + '].')
        L.append('')
    L.append('Definition NUMPARSE : prog := mkProg [')
    L.append(';\n'.join('  (%s, NP_%s)' % (q(fn), fn) for fn in FNS))
    L.append('] [%s].' % '; '.join('(%s, NP_%s)' % (q(t), t) for t in tabs))
    L.append('')
    return '\n'.join(L)

def main():
    ap = argparse.ArgumentParser()
    ap.add_argument('--repo', default='/repo')
    ap.add_argument('--out', default=os.path.join(os.path.dirname(os.path.abspath(__file__)), '..', 'coq', 'theories', 'Gen', 'NumParseTables.v'))
    a = ap.parse_args()
    bodies, params, tabs, broken = translate(a.repo)
    for name, why in broken:
        print('BROKEN %s: %s' % (name, why))
    if broken:
        return 3
    text = emit(bodies, params, tabs)
    old = open(a.out).read() if os.path.exists(a.out) else None
    if old != text:
        with open(a.out, 'w') as f:
            f.write(text)
        print('UPDATED ' + os.path.relpath(a.out))
    return 0

if __name__ == '__main__':
    sys.exit(main())
