"""gen.py — case generators shared by the checks. Every random choice derives from one random.Random(seed)."""
import itertools, random

TOKENS = [b'[', b']', b'{', b'}', b',', b':', b' ', b'\n', b'"', b'"a"', b'a', b'\\', b'\\"', b'\\n',
          b'\\ud800', b'\\udc00', b'\\u12', b'\\u00e9', b'/', b'0', b'1', b'9', b'-', b'+', b'.', b'e', b'E',
          b'true', b'tru', b'null', b'nul', b'false', b'fals', b'\x00', b'\x1f', b'\x7f',
          b'\xc3\xa9', b'\xc3', b'\xa9', b'\xf0\x9f\x98\x80', b'\xed\xa0\x80']
STRUCT_TOKENS = [b'[', b']', b'{', b'}', b',', b':', b' ', b'"a"', b'1', b'true', b'"', b'-']
MID_TOKENS = [b'[', b']', b'{', b'}', b',', b':', b' ', b'\n', b'"', b'"a"', b'a', b'\\', b'\\n', b'\\ud800',
              b'\\udc00', b'0', b'1', b'-', b'.', b'e', b'true', b'nul', b'\x1f', b'\xc3\xa9']

def hx(b):
    return b.hex() if b else '-'

def enum_tokens(maxlen, toks=TOKENS, minlen=0):
    for k in range(minlen, maxlen + 1):
        for c in itertools.product(toks, repeat=k):
            yield b''.join(c)

def is_utf8(b):
    try:
        b.decode('utf-8')
        return True
    except UnicodeDecodeError:
        return False

# ---------------------------------------------------------------- random documents (D)
WS = [b'', b'', b'', b' ', b'\n', b'\t', b'\r\n', b'  ', b' \n ']

def rand_ws(rng):
    return rng.choice(WS)

SPECIAL_CHARS = ['"', '\\', '/', '\b', '\f', '\n', '\r', '\t', '\x00', '\x1f', '\x7f', 'é', '€', '😀', 'a', 'Z', ' ', ' ', '퟿', '', '￿']

def rand_string_content(rng, maxlen=12):
    n = rng.choice([0, 0, 1, 1, 2, 3, 5, 8, maxlen, 17, 33])
    return ''.join(rng.choice(SPECIAL_CHARS) if rng.random() < 0.5 else chr(rng.choice([rng.randrange(0x20, 0x7f), rng.randrange(0x80, 0x800), rng.randrange(0x800, 0xd800), rng.randrange(0xe000, 0x10000), rng.randrange(0x10000, 0x110000)])) for _ in range(n))

SHORT_ESC = {'"': '\\"', '\\': '\\\\', '/': '\\/', '\b': '\\b', '\f': '\\f', '\n': '\\n', '\r': '\\r', '\t': '\\t'}

def render_string(rng, s):
    """a JSON literal for s with randomly chosen escape spellings"""
    out = ['"']
    for ch in s:
        o = ord(ch)
        r = rng.random()
        if ch in SHORT_ESC and (ch != '/' or r < 0.5):
            if r < 0.8 or ch in '"\\':
                if r < 0.8:
                    out.append(SHORT_ESC[ch])
                else:
                    out.append('\\u%04x' % o)
            else:
                out.append('\\u%04X' % o)
        elif o < 0x20:
            out.append(('\\u%04x' if r < 0.5 else '\\u%04X') % o)
        elif r < 0.15:
            if o < 0x10000:
                out.append(('\\u%04x' if r < 0.07 else '\\u%04X') % o)
            else:
                o2 = o - 0x10000
                out.append('\\u%04x\\u%04X' % (0xd800 + (o2 >> 10), 0xdc00 + (o2 & 0x3ff)))
        else:
            out.append(ch)
    out.append('"')
    return ''.join(out).encode('utf-8')

def rand_number(rng, floats=True):
    r = rng.random()
    if r < 0.25:
        return str(rng.choice([0, 1, 9, 10, 255, 65535, 2**31 - 1, 2**31, 2**53, 2**63 - 1, 2**63, 2**64 - 1, rng.randrange(0, 10**rng.randrange(1, 20))])).encode()
    if r < 0.45:
        return ('-' + str(rng.choice([0, 1, 2**31, 2**63 - 1, 2**63, rng.randrange(0, 10**rng.randrange(1, 20))]))).encode()
    if r < 0.5:
        return str(rng.choice([2**64, 2**64 + 1, 10**20, 10**25, -(2**63) - 1, -(10**22), rng.randrange(10**20, 10**40)])).encode()
    if not floats:
        return str(rng.randrange(0, 1000)).encode()
    # floats: short exact literals mostly
    mant = rng.randrange(0, 10**rng.randrange(1, 16))
    frac_digits = rng.randrange(0, 8)
    s = str(mant)
    if frac_digits:
        s = s.rjust(frac_digits + 1, '0')
        s = s[:-frac_digits] + '.' + s[-frac_digits:]
    if rng.random() < 0.5:
        e = rng.randrange(-8, 9)
        s += rng.choice(['e', 'E']) + ('-' if e < 0 else rng.choice(['', '+'])) + str(abs(e))
    elif '.' not in s:
        s += '.0'
    if rng.random() < 0.3:
        s = '-' + s
    return s.encode()

def rand_doc(rng, depth=3, floats=True, keys=None):
    """random JSON text (bytes) with random whitespace / escape spellings / duplicate keys"""
    r = rng.random()
    if depth <= 0 or r < 0.35:
        k = rng.randrange(6)
        if k == 0:
            return rng.choice([b'null', b'true', b'false'])
        if k in (1, 2):
            return rand_number(rng, floats)
        return render_string(rng, rand_string_content(rng))
    if r < 0.68:
        n = rng.choice([0, 0, 1, 2, 3, 5])
        parts = [rand_ws(rng) + rand_doc(rng, depth - 1, floats, keys) + rand_ws(rng) for _ in range(n)]
        return b'[' + (rand_ws(rng) if n == 0 else b'') + b','.join(parts) + b']'
    n = rng.choice([0, 0, 1, 2, 3, 5])
    ks = keys or ['a', 'b', 'c', 'a', 'ab', '', 'é', 'k\n', 'A', 'b']
    parts = []
    for _ in range(n):
        k = rng.choice(ks) if rng.random() < 0.8 else rand_string_content(rng, 4)
        parts.append(rand_ws(rng) + render_string(rng, k) + rand_ws(rng) + b':' + rand_ws(rng) + rand_doc(rng, depth - 1, floats, keys) + rand_ws(rng))
    return b'{' + (rand_ws(rng) if n == 0 else b'') + b','.join(parts) + b'}'

def rand_top(rng, depth=3, floats=True):
    return rand_ws(rng) + rand_doc(rng, depth, floats) + rand_ws(rng)

# ---------------------------------------------------------------- mutations (M)
INTERESTING = [b'[', b']', b'{', b'}', b',', b':', b'"', b'\\', b' ', b'\n', b'0', b'1', b'-', b'+', b'.', b'e', b'\x00', b'\x1f', b'\x7f', b'\x80', b'\xc3', b'\xff', b'a', b'u', b't', b'n', b'/']

def mutations(rng, doc, maxn=None):
    """single-byte substitutions / insertions / deletions at (a sample of) positions + structural edits"""
    res = []
    n = len(doc)
    poss = list(range(n + 1))
    if maxn is not None and len(poss) > maxn:
        poss = sorted(rng.sample(poss, maxn))
    for i in poss:
        if i < n:
            res.append(doc[:i] + doc[i + 1:])                        # deletion
            res.append(doc[:i] + rng.choice(INTERESTING) + doc[i + 1:])  # substitution
            res.append(doc[:i] + doc[i:i + 1] + doc[i:])             # duplication
        res.append(doc[:i] + rng.choice(INTERESTING) + doc[i:])      # insertion
    if n >= 2:
        i = rng.randrange(n - 1)
        res.append(doc[:i] + doc[i + 1:i + 2] + doc[i:i + 1] + doc[i + 2:])   # swap
    return res

def prefixes(doc):
    return [doc[:k] for k in range(len(doc))]

def rand_token_seq(rng, n, toks=TOKENS):
    return b''.join(rng.choice(toks) for _ in range(n))

def nested(open_seq, inner=b'', close=True):
    """open_seq: string over '[' and '{' -> nested document"""
    out = b''
    closers = []
    for c in open_seq:
        if c == '[':
            out += b'['
            closers.append(b']')
        else:
            out += b'{"k":'
            closers.append(b'}')
    out += inner
    if close:
        out += b''.join(reversed(closers))
    return out


# ---------------------------------------------------------------- number literal families (L)
I32_EDGES = [2147483647, 2147483648, 2147483646, 2147483640, 2147483600, 2147483000, 214748364, 214748365, 21474836470, 99999999999, 4294967296, 4294967295]

def number_literals(rng, n_random=2000):
    """number spellings that steer the parser into every path: short/long integer and fraction parts, exponent signs,
    exponents at the i32 boundaries combined with mantissa exponents of either sign, overflow/underflow frontiers"""
    out = []
    ints = ['0', '1', '9', '10', '12345678901234567', '18446744073709551615', '18446744073709551616', '100000000000000000000',
            '123456789012345678901234567890', '1' * 25, '9' * 40, '1' + '0' * 30]
    fracs = ['', '.0', '.5', '.33', '.' + '0' * 20 + '1', '.' + '9' * 25, '.123456789012345678901234567890', '.' + '0' * 40]
    for i in ints:
        for f in fracs:
            out.append(i + f)
            for e in I32_EDGES:
                for sg in ('', '+', '-'):
                    out.append('%s%se%s%d' % (i, f, sg, e))
            for e in (0, 1, 22, 23, 300, 308, 309, 310, 324, 325, 400, 1000, 5000):
                for sg in ('', '-'):
                    out.append('%s%sE%s%d' % (i, f, sg, e))
    for z in ('0', '0.0', '0.000', '0e0'):
        for e in I32_EDGES[:4]:
            out.append('%se%d' % (z, e))
            out.append('%se-%d' % (z, e))
            out.append('-%se%d' % (z, e))
    for e in range(-330, 331):
        for m in ('1', '2.5', '123.456', '9007199254740993', '0.3'):
            out.append('%se%d' % (m, e))
    for _ in range(n_random):
        m = str(rng.randrange(1, 10 ** rng.randrange(1, 41)))
        if rng.random() < 0.5:
            k = rng.randrange(0, len(m) + 1)
            m = (m[:k] or '0') + '.' + (m[k:] or '0')
        e = rng.choice([rng.randrange(-400, 401), rng.randrange(-30, 31), rng.choice(I32_EDGES) * rng.choice([1, -1])])
        out.append('%s%s%s%d' % (m, rng.choice('eE'), rng.choice(['', '+']) if e >= 0 else '', e))
    res = []
    for s_ in out:
        b = s_.encode()
        res.append(b)
        res.append(b'-' + b)
    return res


def depth_docs(rng):
    """documents nested 126..129 deep over every bracket mix, closed / unclosed / with trailing bytes"""
    docs = []
    for total in (126, 127, 128, 129):
        for pattern in ('[', '{', '[{', '{[', 'r', 'r'):
            seq = ''.join(rng.choice('[{') for _ in range(total)) if pattern == 'r' else (pattern * total)[:total]
            for inner in (b'1', b'', b'"x"', b' \n1'):
                docs.append(nested(seq, inner))
                docs.append(nested(seq, inner, close=False))
            # the last bracket of each kind, followed by more input
            docs.append(nested(seq[:-1] + '{', b'"a":1', close=False))
            docs.append(nested(seq[:-1] + '[', b'1,2', close=False))
    return docs


def escape_docs():
    """\\uXXXX escapes at every UTF-8 length boundary and surrogate boundary (both hex cases), as string value, inside text, as object key
    and inside an array: the encoder of escaped code points (push_wtf8_codepoint) and the surrogate arithmetic have one-code-point
    off-by-one failure modes that no random document meets"""
    cps = [0x0000, 0x001f, 0x0020, 0x007e, 0x007f, 0x0080, 0x0081, 0x07fe, 0x07ff, 0x0800, 0x0801, 0x0fff, 0x1000, 0xd7ff, 0xe000, 0xfffd, 0xfffe, 0xffff]
    pairs = [(0xd800, 0xdc00), (0xd800, 0xdfff), (0xdbff, 0xdc00), (0xdbff, 0xdfff), (0xd83d, 0xde00), (0xd7ff, 0xdc00), (0xd800, 0xe000), (0xdc00, 0xd800)]
    lits = []
    for cp in cps:
        for fmt in ('\\u%04x', '\\u%04X'):
            lits.append((fmt % cp).encode())
    for cp in (0xd800, 0xd801, 0xdbfe, 0xdbff, 0xdc00, 0xdc01, 0xdffe, 0xdfff):      # lone surrogates (every one must be rejected in text mode)
        lits.append(('\\u%04x' % cp).encode())
        lits.append(('\\u%04X' % cp).encode())
    for a, b in pairs:
        lits.append(('\\u%04x\\u%04x' % (a, b)).encode())
        lits.append(('\\u%04X\\u%04X' % (a, b)).encode())
    docs = []
    for e in lits:
        for pre, post in ((b'', b''), (b'a', b''), (b'', b'z'), (b'\xc3\xa9', b'\xe2\x82\xac'), (b'\\n', b'\\\\')):
            s = b'"' + pre + e + post + b'"'
            docs += [s, b'[' + s + b',1]', b'{' + s + b':' + s + b'}', b' ' + s + b' ']
    return docs


def big_dup_objects(rng, n=40):
    """objects with MANY members (33..300) in which keys repeat: 'last duplicate wins' and the iteration order must not depend on the size of the
    object (a sort / bulk-load shortcut behaves differently beyond small sizes)"""
    docs = []
    for i in range(n):
        nkeys = rng.choice([17, 20, 33, 40, 64, 100, 150])
        keys = ['k%02d' % j for j in range(nkeys)]
        members = []
        for rep in range(rng.choice([2, 2, 3])):
            ks = keys[:]
            if rng.random() < 0.6:
                rng.shuffle(ks)
            if rep > 0 and rng.random() < 0.5:
                ks = ks[:rng.randrange(1, len(ks))]
            members += [(k, rep * 1000 + j) for j, k in enumerate(ks)]
        if rng.random() < 0.3:
            rng.shuffle(members)
        docs.append(('{' + ','.join('"%s":%d' % m for m in members) + '}').encode())
    return docs


def hex_position_docs():
    """a \\uXXXX escape with EVERY byte value in each of the four hex-digit positions (the table-driven hex decoder has per-byte failure modes:
    a case fold that also maps control bytes onto digits, an off-by-one range bound, ...), in a string and in a key"""
    docs = []
    base = [b'0', b'0', b'4', b'1']
    for pos in range(4):
        for b in range(256):
            g = base[:]
            g[pos] = bytes([b])
            e = b'\\u' + b''.join(g)
            docs.append(b'"' + e + b'"')
            if b % 4 == 0:
                docs.append(b'{"a' + e + b'":[]}')
    return docs
