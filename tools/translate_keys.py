#!/usr/bin/env python3
"""translate_keys.py — regenerates coq/theories/Gen/KeyTables.v from /repo/src/ser.rs and /repo/src/value/ser.rs on every run.

Both map-key serializers (the text one, `impl ser::Serializer for MapKeySerializer<'a, W, F>` in ser.rs, and the to_value one,
`impl serde::Serializer for MapKeySerializer` in value/ser.rs) implement the 31 `Serializer` methods with bodies of seven shapes.  Each body is
classified (after whitespace squeezing, by exact text) into the `kclass` of Model/KeyAst.v:
   KAsStr        the key IS the string / variant name / char          (text: self.ser.serialize_str(..)       value: Ok(..to_owned()) / the char block)
   KDelegate     value.serialize(self)                                (newtype struct, Some)
   KQuotedBool   the bool's text between quotes                       (text: begin_string; write_bool; end_string   value: "true"/"false")
   KQuotedInt    the decimal digits between quotes                    (text: begin_string; write_<ty>; end_string   value: itoa)
   KQuotedFloat  finite: ryu text between quotes, else FloatKeyMustBeFinite
   KReject       Err(key_must_be_a_string())
   KCollect      collect_str
Proofs/SerKeys.v proves (i) the two tables are identical (the theorem form of finding F5), (ii) the models `Ser.key_ser` and `ValueSer.key_string`
are what the tables say for every node.  A body of another shape: `BROKEN keys:<which>:<method>: <why>`, exit 3.
Usage: translate_keys.py [--repo /repo] [--out <file>]"""
import re, sys, os, argparse
sys.path.insert(0, os.path.dirname(os.path.abspath(__file__)))
import translate_fmt as tf
Broken = tf.Broken

METHODS = ['str', 'unit_variant', 'newtype_struct', 'bool', 'i8', 'i16', 'i32', 'i64', 'i128', 'u8', 'u16', 'u32', 'u64', 'u128', 'f32', 'f64', 'char',
           'bytes', 'unit', 'unit_struct', 'newtype_variant', 'none', 'some', 'seq', 'tuple', 'tuple_struct', 'tuple_variant', 'map', 'struct',
           'struct_variant', 'collect_str']
INTS = ['i8', 'i16', 'i32', 'i64', 'i128', 'u8', 'u16', 'u32', 'u64', 'u128']

def quoted_text(w):
    return ('tri!(self .ser .formatter .begin_string(&mut self.ser.writer) .map_err(Error::io)); '
            'tri!(self .ser .formatter .write_%s(&mut self.ser.writer, value) .map_err(Error::io)); '
            'self.ser .formatter .end_string(&mut self.ser.writer) .map_err(Error::io)' % w)

def classify_text(m, body):
    b = body
    if b in ('{ self.ser.serialize_str(value) }', '{ self.ser.serialize_str(variant) }', '{ self.ser.serialize_str(value.encode_utf8(&mut [0u8; 4])) }'):
        want = {'str': 'value', 'unit_variant': 'variant', 'char': 'value.encode_utf8'}.get(m)
        if want is None or want not in b:
            raise Broken('forwards a string but is not serialize_str / unit_variant / char')
        return 'KAsStr'
    if b == '{ value.serialize(self) }': return 'KDelegate'
    if b == '{ Err(key_must_be_a_string()) }': return 'KReject'
    if b == '{ self.ser.collect_str(value) }': return 'KCollect'
    if b == '{ ' + quoted_text('bool') + ' }' and m == 'bool': return 'KQuotedBool'
    if m in INTS and b == '{ ' + quoted_text(m) + ' }': return 'KQuotedInt'
    if m in ('f32', 'f64') and b == '{ if !value.is_finite() { return Err(float_key_must_be_finite()); } ' + quoted_text(m) + ' }': return 'KQuotedFloat'
    raise Broken('body of an unknown shape: `%s`' % b[:160])

def classify_value(m, body):
    b = body
    if (m, b) in (('str', '{ Ok(value.to_owned()) }'), ('unit_variant', '{ Ok(variant.to_owned()) }'),
                  ('char', '{ Ok({ let mut s = String::new(); s.push(value); s }) }')):
        return 'KAsStr'
    if b == '{ value.serialize(self) }': return 'KDelegate'
    if b == '{ Err(key_must_be_a_string()) }': return 'KReject'
    if m == 'collect_str' and b == '{ Ok(value.to_string()) }': return 'KCollect'
    if m == 'bool' and b == '{ Ok(if value { "true" } else { "false" }.to_owned()) }': return 'KQuotedBool'
    if m in INTS and b == '{ Ok(itoa::Buffer::new().format(value).to_owned()) }': return 'KQuotedInt'
    if m in ('f32', 'f64') and b == '{ if value.is_finite() { Ok(ryu::Buffer::new().format_finite(value).to_owned()) } else { Err(float_key_must_be_finite()) } }':
        return 'KQuotedFloat'
    raise Broken('body of an unknown shape: `%s`' % b[:160])

def table(repo, rel, header, classify, which):
    src = open(os.path.join(repo, rel), encoding='utf-8').read()
    src = '\n'.join('' if l.lstrip().startswith('//') else l for l in src.split('\n'))
    ms = tf.methods_of(tf.find_block(src, header))
    out, broken = {}, []
    for m in METHODS:
        name = m if m == 'collect_str' else 'serialize_' + m
        try:
            if name not in ms:
                raise Broken('method missing (a default implementation of serde would apply)')
            out[m] = classify(m, ms[name])
        except (Broken, ValueError) as e:
            broken.append(('keys:%s:%s' % (which, m), str(e)))
    extra = sorted(set(ms) - set(('serialize_' + m) if m != 'collect_str' else m for m in METHODS))
    if extra:
        broken.append(('keys:%s:extra' % which, 'methods outside the table: ' + ', '.join(extra)))
    return out, broken

def main():
    ap = argparse.ArgumentParser()
    ap.add_argument('--repo', default='/repo')
    ap.add_argument('--out', default=os.path.join(os.path.dirname(os.path.abspath(__file__)), '..', 'coq', 'theories', 'Gen', 'KeyTables.v'))
    a = ap.parse_args()
    broken = []
    try:
        t1, b1 = table(a.repo, 'src/ser.rs', r"\bimpl<'a, W, F> ser::Serializer for MapKeySerializer<'a, W, F>\s*where\s*W: io::Write,\s*F: Formatter,\s*\{", classify_text, 'text')
        t2, b2 = table(a.repo, 'src/value/ser.rs', r"\bimpl serde::Serializer for MapKeySerializer\s*\{", classify_value, 'value')
        broken = b1 + b2
    except (Broken, ValueError) as e:
        broken = [('keys:blocks', str(e))]
    for n, w in broken:
        print('BROKEN %s: %s' % (n, w))
    if broken:
        return 3
    L = ['(* Gen/KeyTables.v — GENERATED by tools/translate_keys.py from /repo/src/ser.rs and /repo/src/value/ser.rs on every run. Do not edit.',
         '   What each of the 31 Serializer methods of the two map-key serializers does, by class. *)',
         'From SJ Require Import Model.KeyAst.', 'From Coq Require Import List.', 'Import ListNotations.', '']
    for nm, t in (('KEY_TEXT', t1), ('KEY_VALUE', t2)):
        L.append('Definition %s : list (kmethod * kclass) :=\n  [%s].' % (nm, ';\n   '.join('(m_%s, %s)' % (m, t[m]) for m in METHODS)))
        L.append('')
    text = '\n'.join(L)
    old = open(a.out).read() if os.path.exists(a.out) else None
    if old != text:
        open(a.out, 'w').write(text)
        print('UPDATED ' + os.path.relpath(a.out))
    return 0

if __name__ == '__main__':
    sys.exit(main())
