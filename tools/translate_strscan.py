#!/usr/bin/env python3
"""translate_strscan.py — regenerates coq/theories/Gen/StrScanTables.v from /repo/src/read.rs on every run.

A statement-level translator for the STRING-LITERAL SCANNING of src/read.rs (the loops around the escape decoding that
tools/translate_str.py translates):

    is_escape(ch, including_control_characters) -> bool
    as_str(read, slice) -> Result<&str>                                   the str::from_utf8 glue
    SliceRead::skip_to_escape(&mut self, forbid_control_characters)       first-byte bail-out, memchr2 branch, the 8-bytes-at-a-time SWAR loop
    SliceRead::skip_to_escape_slow(&mut self)
    SliceRead::parse_str_bytes(&mut self, scratch, validate, result)      borrowed-vs-scratch decision, `start`, `self.index`
    SliceRead::{ignore_str, parse_str, parse_str_raw}                     (impl Read for SliceRead)
    IoRead::parse_str_bytes(&mut self, scratch, validate, result)
    IoRead::{ignore_str, parse_str, parse_str_raw}                        (impl Read for IoRead)
    StrRead::{parse_str, parse_str_raw, ignore_str}                       (impl Read for StrRead: the delegate calls, from_utf8_unchecked)

The bodies are parsed into the AST of Model/StrScanAst.v (the subset is listed there, form by form); Proofs/StrScanSrc.v / StrScanSrc2.v then
prove that the hand-written models of Model/Str.v (is_escape, esc_span, slice_str_loop, slice_ignore_loop, io_str_loop, io_ignore_loop,
parse_str, parse_str_raw, ignore_str) and Proofs/Swar.v (swar_skip, memchr_skip) equal the interpretation of the generated bodies.

Expressions are typed: every literal gets the type of the operand it meets (two different types, or none, is outside the subset); variable
types are tracked through let / const / for / parameters.  Rust's precedences: method call > unary ! > as > * / > + > << > & > ^ > | >
comparisons > && > ||.

Pinned by exact (whitespace-squeezed) text, because the interpreter takes them as primitives or as the shape of the reader:
  the free functions next_or_eof and error; the signatures of parse_escape and ignore_escape (translated by translate_str.py); the tri! macro;
  the declarations of Read::{parse_str, parse_str_raw, ignore_str, position}; `struct SliceRead` (fields slice, index), `struct StrRead`
  (field delegate), `enum Reference`; SliceRead::position / StrRead::position (error positions are positions of `self.index`);
  the two `#[cfg(fast_arithmetic = ..)] type Chunk = ..;` lines of skip_to_escape (Chunk is read as u64: the 64-bit alternative);
  the signatures (and impl headers) of the translated functions.
Anything else: `BROKEN strscan:<what>: <why>`, exit status 3, the previous file is NOT rewritten.

Usage: translate_strscan.py [--repo /repo] [--out <file>]
"""
import re, sys, os, argparse
sys.path.insert(0, os.path.dirname(os.path.abspath(__file__)))
import translate_fmt as tf
import translate_str as ts
Broken, block_at, squeeze, strip_comments = tf.Broken, tf.block_at, tf.squeeze, tf.strip_comments
byte_value, num_value, ECODES = ts.byte_value, ts.num_value, ts.ECODES

# ---- the functions ------------------------------------------------------------------------------------------------
IMPL_SLICE = "impl<'a> SliceRead<'a>"
IMPL_READ_SLICE = "impl<'a> Read<'a> for SliceRead<'a>"
IMPL_IO = 'impl<R> IoRead<R> where R: io::Read,'
IMPL_READ_IO = "impl<'de, R> Read<'de> for IoRead<R> where R: io::Read,"
IMPL_READ_STR = "impl<'a> Read<'a> for StrRead<'a>"

PSB_SLICE = ("<'s, T, F>( &'s mut self, scratch: &'s mut Vec<u8>, validate: bool, result: F, ) -> Result<Reference<'a, 's, T>> "
             "where T: ?Sized + 's, F: for<'f> FnOnce(&'s Self, &'f [u8]) -> Result<&'f T>,")
PSB_IO = ("<'s, T, F>( &'s mut self, scratch: &'s mut Vec<u8>, validate: bool, result: F, ) -> Result<T> "
          "where T: 's, F: FnOnce(&'s Self, &'s [u8]) -> Result<T>,")
def ps_sig(lt, ty):
    return "<'s>(&'s mut self, scratch: &'s mut Vec<u8>) -> Result<Reference<%s, 's, %s>>" % (lt, ty)
def psr_sig(lt):
    return "<'s>( &'s mut self, scratch: &'s mut Vec<u8>, ) -> Result<Reference<%s, 's, [u8]>>" % lt

# key -> (impl header or None, fn name, squeezed text between `fn name` and the body, value parameters [(name, type)], kind, reader, has scratch)
#   reader: 'slice' (self.index / self.slice / generic calls), 'io' (generic calls only), 'str' (self.delegate calls only), None (free function)
SIGS = {
    'is_escape': (None, 'is_escape', '(ch: u8, including_control_characters: bool) -> bool',
                  [('ch', 'u8'), ('including_control_characters', 'bool')], 'FBool', None, False),
    'as_str': (None, 'as_str', "<'de, 's, R: Read<'de>>(read: &R, slice: &'s [u8]) -> Result<&'s str>", [('slice', 'bytes')], 'FStr', None, False),
    'SliceRead::skip_to_escape': (IMPL_SLICE, 'skip_to_escape', '(&mut self, forbid_control_characters: bool)',
                                  [('forbid_control_characters', 'bool')], 'FUnit', 'slice', False),
    'SliceRead::skip_to_escape_slow': (IMPL_SLICE, 'skip_to_escape_slow', '(&mut self)', [], 'FUnit', 'slice', False),
    'SliceRead::parse_str_bytes': (IMPL_SLICE, 'parse_str_bytes', PSB_SLICE, [('validate', 'bool'), ('result', 'clo')], 'FRef', 'slice', True),
    'SliceRead::ignore_str': (IMPL_READ_SLICE, 'ignore_str', '(&mut self) -> Result<()>', [], 'FResult', 'slice', False),
    'SliceRead::parse_str': (IMPL_READ_SLICE, 'parse_str', ps_sig("'a", 'str'), [], 'FRef', 'slice', True),
    'SliceRead::parse_str_raw': (IMPL_READ_SLICE, 'parse_str_raw', psr_sig("'a"), [], 'FRef', 'slice', True),
    'IoRead::parse_str_bytes': (IMPL_IO, 'parse_str_bytes', PSB_IO, [('validate', 'bool'), ('result', 'clo')], 'FStr', 'io', True),
    'IoRead::ignore_str': (IMPL_READ_IO, 'ignore_str', '(&mut self) -> Result<()>', [], 'FResult', 'io', False),
    'IoRead::parse_str': (IMPL_READ_IO, 'parse_str', ps_sig("'de", 'str'), [], 'FRef', 'io', True),
    'IoRead::parse_str_raw': (IMPL_READ_IO, 'parse_str_raw', psr_sig("'de"), [], 'FRef', 'io', True),
    'StrRead::parse_str': (IMPL_READ_STR, 'parse_str', ps_sig("'a", 'str'), [], 'FRef', 'str', True),
    'StrRead::parse_str_raw': (IMPL_READ_STR, 'parse_str_raw', psr_sig("'a"), [], 'FRef', 'str', True),
    'StrRead::ignore_str': (IMPL_READ_STR, 'ignore_str', '(&mut self) -> Result<()>', [], 'FResult', 'str', False),
}
FNS = list(SIGS)
READER_NAME = {'slice': 'SliceRead', 'io': 'IoRead', 'str': 'StrRead'}

PINNED_FNS = {k: ts.PINNED_FNS[k] for k in ('next_or_eof', 'error')}
CALLEE_SIGS = {k: ts.SIGS[k][0] for k in ('parse_escape', 'ignore_escape')}
TRAIT_DECLS = ["fn parse_str<'s>(&'s mut self, scratch: &'s mut Vec<u8>) -> Result<Reference<'de, 's, str>>;",
               "fn parse_str_raw<'s>( &'s mut self, scratch: &'s mut Vec<u8>, ) -> Result<Reference<'de, 's, [u8]>>;",
               'fn ignore_str(&mut self) -> Result<()>;', 'fn position(&self) -> Position;']
STRUCTS = {
    r"^pub struct SliceRead<'a>\s*\{": "{ slice: &'a [u8], index: usize, #[cfg(feature = \"raw_value\")] raw_buffering_start_index: usize, }",
    r"^pub struct StrRead<'a>\s*\{": "{ delegate: SliceRead<'a>, #[cfg(feature = \"raw_value\")] data: &'a str, }",
    r"^pub enum Reference<'b, 'c, T>\s*where\s*T: \?Sized \+ 'static,\s*\{": "{ Borrowed(&'b T), Copied(&'c T), }",
}
PINNED_METHODS = {   # (impl header, fn) -> (signature, body)
    (IMPL_READ_SLICE, 'position'): ('(&self) -> Position', '{ self.position_of_index(self.index) }'),
    (IMPL_READ_STR, 'position'): ('(&self) -> Position', '{ self.delegate.position() }'),
}
CHUNK_CFG = '#[cfg(fast_arithmetic = "64")] type Chunk = u64; #[cfg(fast_arithmetic = "32")] type Chunk = u32;'

INTS = {'u8': ('TU8', 8), 'u32': ('TU32', 32), 'usize': ('TUsize', 64), 'isize': ('TIsize', 63), 'Chunk': ('TChunk', 64)}
KINDS = {'u8': 'KInt TU8', 'u32': 'KInt TU32', 'usize': 'KInt TUsize', 'Chunk': 'KInt TChunk', 'bool': 'KBool', 'bytes': 'KBytes', 'clo': 'KClo'}

TOKEN = re.compile(r"\s*(b'(?:\\x[0-9a-fA-F]{2}|\\.|[^\\'])'|0x[0-9A-Fa-f_]+|0b[01_]+|[0-9][0-9_]*|[A-Za-z_][A-Za-z0-9_]*"
                   r"|\.\.=|\.\.|=>|::|==|!=|<=|>=|<<|>>|&&|\|\||\+=|[|&^+\-*/<>(){}\[\],;!=.:])")
IDENT = re.compile(r'[A-Za-z_][A-Za-z0-9_]*\Z')
NUMBER = ts.NUMBER
KEYWORDS = {'_', 'self', 'let', 'mut', 'const', 'if', 'else', 'match', 'while', 'loop', 'for', 'in', 'return', 'as', 'true', 'false', 'fn',
            'break', 'continue', 'ref', 'move', 'unsafe', 'scratch', 'tri', 'result', 'read', 'mem', 'memchr', 'str', 'Ok', 'Err', 'Some', 'None',
            'error', 'is_escape', 'next_or_eof', 'parse_escape', 'ignore_escape', 'Reference', 'ErrorCode'} | set(INTS)
CMPS = {'<': 'CLt', '<=': 'CLe', '>': 'CGt', '>=': 'CGe', '==': 'CEq', '!=': 'CNe'}

def tokenize(s):
    out, i = [], 0
    s = s.strip()
    while i < len(s):
        m = TOKEN.match(s, i)
        if not m:
            raise Broken('token outside the subset at `%s`' % s[i:i + 40].strip())
        out.append(m.group(1))
        i = m.end()
    return out

def fix(e, ty):
    """give the untyped literal e the type ty"""
    assert e[0] == 'lit' and e[1] is None
    if ty not in INTS:
        raise Broken('integer literal %d where a %s is expected' % (e[2], ty))
    if not 0 <= e[2] < 2 ** INTS[ty][1]:
        raise Broken('literal %d does not fit %s' % (e[2], ty))
    return ('lit', ty, e[2])

class P:
    """recursive descent over the token list of one function body"""
    def __init__(self, toks, key):
        self.t, self.i, self.key = toks, 0, key
        _, _, _, _, self.kind, self.reader, self.has_scratch = SIGS[key]
    def at(self, *lits):
        return self.t[self.i:self.i + len(lits)] == list(lits)
    def eat(self, *lits):
        if self.at(*lits):
            self.i += len(lits)
            return True
        return False
    def ats(self, text):
        return self.at(*tokenize(text))
    def eats(self, text):
        return self.eat(*tokenize(text))
    def here(self):
        return ' '.join(self.t[self.i:self.i + 12])
    def need(self, *lits):
        if not self.eat(*lits):
            raise Broken('expected `%s` at `%s`' % (' '.join(lits), self.here()))
    def needs(self, text):
        self.need(*tokenize(text))
    def peek(self, k=0):
        return self.t[self.i + k] if self.i + k < len(self.t) else ''
    def is_ident(self, k=0):
        return bool(IDENT.match(self.peek(k))) and self.peek(k) not in KEYWORDS
    def ident(self):
        if self.is_ident():
            self.i += 1
            return self.t[self.i - 1]
        raise Broken('identifier expected at `%s`' % self.here())
    def number(self):
        if NUMBER.match(self.peek()):
            self.i += 1
            return num_value(self.t[self.i - 1])
        raise Broken('integer literal expected at `%s`' % self.here())
    def var(self, scope, types):
        x = self.ident()
        if scope.get(x) not in types:
            raise Broken('`%s` is not a variable of type %s' % (x, ' / '.join(types)))
        return x
    def slice_only(self, what):
        if self.reader != 'slice':
            raise Broken('%s outside a SliceRead method' % what)
    def scratch_only(self):
        if not self.has_scratch:
            raise Broken('`scratch` in a function without that parameter')

    # ---- expressions: (ast, type or None for a literal still untyped) ---------------------------------
    def unify(self, a, ta, b, tb):
        if ta is None and tb is None:
            raise Broken('operator between two untyped literals at `%s`' % self.here())
        if ta is None: a, ta = fix(a, tb), tb
        if tb is None: b, tb = fix(b, ta), ta
        if ta != tb:
            raise Broken('operands of different types %s / %s before `%s`' % (ta, tb, self.here()))
        if ta not in INTS:
            raise Broken('arithmetic on a %s before `%s`' % (ta, self.here()))
        return a, b, ta
    def binlevel(self, sub, ops):
        a, ta = sub()
        while self.peek() in ops:
            op = ops[self.peek()]; self.i += 1
            b, tb = sub()
            a, b, ta = self.unify(a, ta, b, tb)
            a = ('bin', op, a, b)
        return a, ta
    def e_or(self, scope):
        return self.binlevel(lambda: self.e_xor(scope), {'|': 'OOr'})
    def e_xor(self, scope):
        return self.binlevel(lambda: self.e_and(scope), {'^': 'OXor'})
    def e_and(self, scope):
        return self.binlevel(lambda: self.e_shift(scope), {'&': 'OAnd'})
    def e_shift(self, scope):
        a, ta = self.e_add(scope)
        while self.peek() == '<<':
            self.i += 1
            k = self.number()
            if ta not in INTS:
                raise Broken('shift of %s' % ('an untyped literal' if ta is None else 'a ' + ta))
            if k >= INTS[ta][1]:
                raise Broken('shift by %d in %s' % (k, ta))
            a = ('shl', a, k)
        return a, ta
    def e_add(self, scope):
        return self.binlevel(lambda: self.e_mul(scope), {'+': 'OAdd'})
    def e_mul(self, scope):
        return self.binlevel(lambda: self.e_cast(scope), {'*': 'OMul', '/': 'ODiv'})
    def e_cast(self, scope):
        a, ta = self.e_unary(scope)
        while self.eat('as'):
            ty = self.peek()
            if ty not in INTS:
                raise Broken('cast to `%s`' % ty)
            self.i += 1
            if ta not in INTS:
                raise Broken('cast of %s' % ('an untyped literal' if ta is None else 'a ' + ta))
            a, ta = ('cast', a, ty), ty
        return a, ta
    def e_unary(self, scope):
        if self.eat('!'):
            a, ta = self.e_unary(scope)
            if ta not in INTS:
                raise Broken('`!` of %s' % ('an untyped literal' if ta is None else 'a ' + ta))
            return ('not', a), ta
        return self.e_postfix(scope)
    def e_postfix(self, scope):
        a, ta = self.e_primary(scope)
        while self.at('.'):
            if self.eats('.wrapping_sub('):
                b, tb = self.e_or(scope)
                self.need(')')
                a, b, ta = self.unify(a, ta, b, tb)
                a = ('bin', 'OWSub', a, b)
            elif self.eats('.trailing_zeros()'):
                if ta not in INTS:
                    raise Broken('trailing_zeros of %s' % ('an untyped literal' if ta is None else 'a ' + ta))
                a, ta = ('tz', a), 'u32'
            else:
                raise Broken('method call outside the subset at `%s`' % self.here())
        return a, ta
    def usize_expr(self, scope):
        e, te = self.e_or(scope)
        if te is None: e, te = fix(e, 'usize'), 'usize'
        if te != 'usize':
            raise Broken('index of type %s, not usize, before `%s`' % (te, self.here()))
        return e
    def e_primary(self, scope):
        if self.eat('('):
            r = self.e_or(scope)
            self.need(')')
            return r
        if self.peek().startswith("b'"):
            self.i += 1
            return ('lit', 'u8', byte_value(self.t[self.i - 1])), 'u8'
        if NUMBER.match(self.peek()):
            return ('lit', None, self.number()), None
        if self.eats('self.index'):
            self.slice_only('self.index')
            return ('selfindex',), 'usize'
        if self.eats('self.slice.len()'):
            self.slice_only('self.slice')
            return ('slicelen',), 'usize'
        if self.eats('self.slice['):
            self.slice_only('self.slice')
            e = self.usize_expr(scope)
            self.need(']')
            return ('sliceat', e), 'u8'
        if self.eats('&self.slice['):
            self.slice_only('self.slice')
            a = self.usize_expr(scope)
            self.need('..')
            if self.eat(']'):
                return ('subfrom', a), 'sub'
            b = self.usize_expr(scope)
            self.need(']')
            return ('subrange', a, b), 'sub'
        if self.peek() in INTS and self.peek(1) == '::':
            ty = self.peek(); self.i += 2
            if self.eat('MAX'):
                return ('max', ty), ty
            if self.eat('from', '('):
                e, te = self.e_or(scope)
                self.need(')')
                if te not in INTS or INTS[te][1] > INTS[ty][1] or te == 'isize':
                    raise Broken('%s::from of %s' % (ty, te))
                return ('cast', e, ty), ty
            if self.eat('from_le_bytes', '('):
                x = self.var(scope, ('sub',))
                self.needs('.try_into().unwrap())')
                return ('fromle', ty, x), ty
            raise Broken('associated item outside the subset at `%s`' % self.here())
        if self.eats('mem::size_of::<'):
            ty = self.peek(); self.i += 1
            if ty not in INTS: raise Broken('size_of::<%s>' % ty)
            self.needs('>()')
            return ('sizeof', ty), 'usize'
        if self.eats('memchr::memchr2('):
            a, ta = self.e_or(scope)
            if ta is None: a, ta = fix(a, 'u8'), 'u8'
            self.need(',')
            b, tb = self.e_or(scope)
            if tb is None: b, tb = fix(b, 'u8'), 'u8'
            if ta != 'u8' or tb != 'u8':
                raise Broken('memchr2 needles of type %s / %s' % (ta, tb))
            self.need(',')
            x = self.var(scope, ('sub', 'bytes'))
            self.needs(').unwrap_or(')
            y = self.ident()
            self.needs('.len())')
            if x != y:
                raise Broken('memchr2(.., %s).unwrap_or(%s.len()): two different slices' % (x, y))
            return ('memchr2', a, b, x), 'usize'
        if self.eat('unsafe', '{'):
            x = self.var(scope, ('sub',))
            self.needs('.as_ptr().offset_from(self.slice.as_ptr()) }')
            self.slice_only('self.slice')
            return ('offset', x), 'isize'
        if self.is_ident():
            x = self.ident()
            if x not in scope:
                raise Broken('unknown variable `%s`' % x)
            if self.eats('.len()'):
                if scope[x] not in ('sub', 'bytes'):
                    raise Broken('%s.len() of a %s' % (x, scope[x]))
                return ('len', x), 'usize'
            return ('var', x), scope[x]
        raise Broken('expression outside the subset at `%s`' % self.here())
    def typed_expr(self, scope, want=None):
        e, te = self.e_or(scope)
        if te is None:
            if want is None:
                raise Broken('untyped literal before `%s`' % self.here())
            e, te = fix(e, want), want
        if want is not None and te != want:
            raise Broken('expression of type %s where %s is expected, before `%s`' % (te, want, self.here()))
        return e, te

    # ---- conditions -------------------------------------------------------------------------------------
    def c_or(self, scope):
        a = self.c_and(scope)
        while self.eat('||'):
            a = ('or', a, self.c_and(scope))
        return a
    def c_and(self, scope):
        a = self.c_atom(scope)
        while self.eat('&&'):
            a = ('and', a, self.c_atom(scope))
        return a
    def c_atom(self, scope):
        if self.eat('true'): return ('true',)
        if self.eat('false'): return ('false',)
        if self.eat('!'):
            return ('cnot', self.c_atom(scope))
        if self.eat('is_escape', '('):
            e, _ = self.typed_expr(scope, 'u8')
            self.need(',')
            c = self.c_or(scope)
            self.need(')')
            return ('isesc', e, c)
        if self.ats('scratch.is_empty()'):
            self.scratch_only()
            self.needs('scratch.is_empty()')
            return ('empty',)
        if self.is_ident() and scope.get(self.peek()) == 'bool':
            return ('cvar', self.ident())
        if self.at('('):
            save = self.i
            try:
                self.i += 1
                c = self.c_or(scope)
                self.need(')')
                if self.peek() in CMPS or self.peek() in ('|', '&', '^', '+', '*', '/', '<<', 'as', '.'):
                    raise Broken('not a parenthesised condition')
                return c
            except Broken:
                self.i = save
        a, ta = self.e_or(scope)
        if self.peek() not in CMPS:
            raise Broken('comparison expected at `%s`' % self.here())
        op = CMPS[self.peek()]; self.i += 1
        b, tb = self.e_or(scope)
        a, b, _ = self.unify(a, ta, b, tb)
        return ('cmp', op, a, b)

    # ---- result expressions ----------------------------------------------------------------------------------
    def ecode(self):
        c = self.peek(); self.i += 1
        if c not in ECODES:
            raise Broken('unknown ErrorCode::%s' % c)
        return c
    def closure(self):
        if self.eat('as_str'):
            return 'CloAsStr'
        if self.eats('|_, bytes| Ok(bytes)'):
            return 'CloBytes'
        if self.eats('|_, bytes| { Ok(unsafe { str::from_utf8_unchecked(bytes) }) }'):
            return 'CloUnchecked'
        raise Broken('closure outside the subset at `%s`' % self.here())
    def call_args(self, callee, scope):
        """the arguments after `scratch` of a call of the table function `callee`, checked against its parameters"""
        params, has_scratch = SIGS[callee][3], SIGS[callee][6]
        self.need('(')
        first = True
        out = []
        if has_scratch:
            self.scratch_only()
            self.need('scratch'); first = False
        for _, ty in params:
            if not first: self.need(',')
            first = False
            if ty == 'bool': out.append(('ac', self.c_or(scope)))
            elif ty == 'clo': out.append(('aclo', self.closure()))
            else: out.append(('ae', self.typed_expr(scope, ty)[0]))
        self.eat(',')
        self.need(')')
        return out
    def map_ref(self):
        if self.eats('.map(Reference::Borrowed)'): return True
        if self.eats('.map(Reference::Copied)'): return False
        return None
    def starts_rexpr(self):
        return self.at('Ok', '(') or self.at('error', '(') or self.at('result', '(') or self.at('str', '::') or self.at('self', '.')
    def rexpr(self, scope):
        if self.eats('Ok(())'):
            if self.kind != 'FResult': raise Broken('Ok(()) in a function that does not return Result<()>')
            return ('ok',)
        if self.eats('error(self, ErrorCode::'):
            if self.reader not in ('slice', 'io') or self.kind == 'FUnit' or self.kind == 'FBool':
                raise Broken('error(self, ..) in a function that does not return a Result')
            c = self.ecode()
            self.need(')')
            return ('err', c)
        if self.eats('result(self,'):
            if scope.get('result') != 'clo': raise Broken('`result` is not a parameter of this function')
            if self.eat('scratch'):
                self.scratch_only()
                src = ('scratch',)
            else:
                src = ('var', self.var(scope, ('sub', 'bytes')))
            self.need(')')
            m = self.map_ref()
            if (self.kind, m is None) not in (('FRef', False), ('FStr', True)):
                raise Broken('result(..)%s in a function of kind %s' % ('' if m is None else '.map(..)', self.kind))
            return ('result', m, src)
        if self.eats('str::from_utf8('):
            if self.key != 'as_str': raise Broken('str::from_utf8 outside as_str')
            x = self.var(scope, ('bytes',))
            self.needs(').or_else(|_| error(read, ErrorCode::')
            c = self.ecode()
            self.needs('))')
            return ('fromutf8', x, c)
        if self.at('self', '.'):
            if self.eats('self.delegate.'):
                if self.reader != 'str': raise Broken('self.delegate outside StrRead')
                target = 'SliceRead'
            else:
                self.need('self', '.')
                if self.reader not in ('slice', 'io'): raise Broken('method call on self outside SliceRead / IoRead')
                target = READER_NAME[self.reader]
            f = self.peek(); self.i += 1
            callee = target + '::' + f
            if callee not in SIGS or callee == self.key:
                raise Broken('call of `%s`, which is not a translated function' % callee)
            args = self.call_args(callee, scope)
            m = self.map_ref()
            if m is True: raise Broken('.map(Reference::Borrowed) of a call')
            ck = SIGS[callee][4]
            got = ck if m is None else ('FRef' if ck == 'FStr' else None)
            if got != self.kind or got in ('FUnit', 'FBool'):
                raise Broken('call of %s (kind %s)%s as the value of a function of kind %s' % (callee, ck, '' if m is None else '.map(..)', self.kind))
            return ('call', callee, args, m)
        raise Broken('result expression outside the subset at `%s`' % self.here())

    # ---- byte patterns -------------------------------------------------------------------------------------
    def bp_atom(self):
        if self.eat('('):
            p = self.bp()
            self.need(')')
            return p
        if self.eat('_'):
            return ('wild',)
        if self.peek().startswith("b'"):
            lo = byte_value(self.peek()); self.i += 1
            if self.eat('..='):
                if not self.peek().startswith("b'"):
                    raise Broken('byte literal expected after ..= at `%s`' % self.here())
                hi = byte_value(self.peek()); self.i += 1
                return ('range', lo, hi)
            return ('lit', lo)
        raise Broken('byte pattern outside the subset at `%s`' % self.here())
    def bp(self):
        p = self.bp_atom()
        while self.eat('|'):
            p = ('or', p, self.bp_atom())
        return p

    # ---- items ---------------------------------------------------------------------------------------------------
    def block(self, scope):
        self.need('{')
        out = self.items(False, dict(scope))
        self.need('}')
        return out
    def if_parse(self, scope):
        self.need('if')
        c = self.c_or(scope)
        a = self.block(scope)
        b = []
        if self.eat('else'):
            b = [self.if_parse(scope)] if self.at('if') else self.block(scope)
        return ('if', c, a, b)
    def items(self, tail, scope):
        out, done = [], False
        while not self.at('}'):
            if self.i >= len(self.t):
                raise Broken('unexpected end of body')
            if done:
                raise Broken('item after a return / continue / loop / tail expression: `%s`' % self.here())
            if self.at('let'):
                self.need('let'); self.eat('mut')
                x = self.ident(); self.need('=')
                if self.eats('tri!(next_or_eof(self))'):
                    if self.reader not in ('slice', 'io'): raise Broken('next_or_eof(self) outside a reader method')
                    self.need(';')
                    scope[x] = 'u8'
                    out.append(('letnext', x)); continue
                e, te = self.typed_expr(scope)
                self.need(';')
                scope[x] = te
                out.append(('let', x, e)); continue
            if self.eat('const'):
                x = self.ident(); self.need(':')
                ty = self.peek(); self.i += 1
                if ty not in INTS: raise Broken('const %s of type `%s`' % (x, ty))
                self.need('=')
                e, _ = self.typed_expr(scope, ty)
                self.need(';')
                if x in scope: raise Broken('const %s shadows a variable' % x)
                if x in self.t[:self.t.index('const')]: raise Broken('const %s is used before its definition' % x)
                scope[x] = ty
                out.append(('let', x, e)); continue
            if self.ats('self.index +=') or self.ats('self.index ='):
                self.slice_only('self.index')
                add = self.ats('self.index +=')
                self.i += 4
                e, _ = self.typed_expr(scope, 'usize')
                self.need(';')
                out.append(('indexadd' if add else 'indexset', e)); continue
            if self.is_ident() and self.peek(1) == '=':
                x = self.ident(); self.need('=')
                if x not in scope: raise Broken('assignment to unknown variable %s' % x)
                e, _ = self.typed_expr(scope, scope[x])
                self.need(';')
                out.append(('assign', x, e)); continue
            if self.ats('scratch.extend_from_slice('):
                self.scratch_only()
                self.needs('scratch.extend_from_slice(')
                e, _ = self.typed_expr(scope, 'sub')
                self.need(')', ';')
                out.append(('extend', e)); continue
            if self.ats('scratch.push('):
                self.scratch_only()
                self.needs('scratch.push(')
                e, _ = self.typed_expr(scope, 'u8')
                self.need(')', ';')
                out.append(('push', e)); continue
            if self.eats('tri!(parse_escape(self,'):
                if self.reader not in ('slice', 'io'): raise Broken('parse_escape(self, ..) outside a reader method')
                self.scratch_only()
                c = self.c_or(scope)
                self.needs(', scratch));')
                out.append(('triparse', c)); continue
            if self.eats('tri!(ignore_escape(self));'):
                if self.reader not in ('slice', 'io'): raise Broken('ignore_escape(self) outside a reader method')
                out.append(('triignore',)); continue
            if self.at('self', '.') and self.peek(3) == '(' and self.reader == 'slice' and 'SliceRead::' + self.peek(2) in SIGS \
                    and SIGS['SliceRead::' + self.peek(2)][4] == 'FUnit':
                callee = 'SliceRead::' + self.peek(2)
                if callee == self.key: raise Broken('recursive call')
                self.i += 3
                args = self.call_args(callee, scope)
                self.need(';')
                out.append(('callself', callee, args)); continue
            if self.at('if'):
                out.append(self.if_parse(scope)); continue
            if self.eat('while'):
                c = self.c_or(scope)
                out.append(('while', c, self.block(scope))); continue
            if self.eat('loop'):
                out.append(('loop', self.block(scope))); done = True; continue
            if self.eats('continue;'):
                out.append(('continue',)); done = True; continue
            if self.eat('for'):
                x = self.ident(); self.need('in')
                xs = self.var(scope, ('sub',))
                self.needs('.chunks_exact(')
                e, _ = self.typed_expr(scope, 'usize')
                self.need(')')
                inner = dict(scope); inner[x] = 'sub'
                out.append(('for', x, xs, e, self.block(inner))); continue
            if self.eat('match'):
                e, _ = self.typed_expr(scope, 'u8')
                self.need('{')
                arms = []
                while not self.at('}'):
                    p = self.bp()
                    self.need('=>')
                    body = self.block(scope)
                    self.eat(',')
                    arms.append((p, body))
                self.need('}')
                if not arms: raise Broken('match without arms')
                out.append(('match', e, arms)); continue
            if self.eat('return'):
                if self.eat(';'):
                    if self.kind != 'FUnit': raise Broken('`return;` in a function that returns a value')
                    out.append(('ret', ('plain',))); done = True; continue
                r = self.rexpr(scope)
                self.need(';')
                out.append(('ret', r)); done = True; continue
            if tail and self.kind == 'FBool':
                c = self.c_or(scope)
                if not self.at('}'): raise Broken('value expression outside tail position before `%s`' % self.here())
                out.append(('ret', ('cond', c))); done = True; continue
            if self.starts_rexpr():
                r = self.rexpr(scope)
                if not (tail and self.at('}')):
                    raise Broken('value expression outside tail position before `%s`' % self.here())
                out.append(('ret', r)); done = True; continue
            raise Broken('item outside the subset: `%s`' % self.here())
        if tail and not done and self.kind != 'FUnit':
            raise Broken('the body ends without a value')
        return out

def parse_body(key, body):
    if key == 'SliceRead::skip_to_escape':
        if body.count(CHUNK_CFG) != 1:
            raise Broken('the `#[cfg(fast_arithmetic = ..)] type Chunk = ..;` lines are not `%s`' % CHUNK_CFG)
        body = body.replace(CHUNK_CFG, ' ')
    p = P(tokenize(body), key)
    scope = dict(SIGS[key][3])
    p.need('{')
    ss = p.items(True, scope)
    p.need('}')
    if p.i != len(p.t):
        raise Broken('trailing text after body')
    return ss

# ---- source access -------------------------------------------------------------------------------------
def impl_blocks(src):
    """[(squeezed header, block text)] of every top-level `impl ..` of the file"""
    out = []
    for m in re.finditer(r'^impl\b[^{;]*\{', src, re.M):
        out.append((squeeze(src[m.start():m.end() - 1]), block_at(src, m.end() - 1)[0]))
    return out

def methods_in(block):
    """[(name, attribute text, squeezed text between `fn name` and the body, squeezed comment-free body)] of the methods of an impl block"""
    out, i = [], 1
    while True:
        m = re.compile(r'\bfn\s+(\w+)').search(block, i)
        if not m: return out
        j = block.index('{', m.end())
        if ';' in block[m.end():j]:          # a declaration without body
            i = m.end(); continue
        body, end = block_at(block, j)
        k = block.rfind('\n', 0, m.start()) + 1
        attrs = []
        while True:                           # the `#[..]` lines directly above
            k2 = block.rfind('\n', 0, k - 1) + 1 if k > 0 else 0
            line = block[k2:k].strip()
            if k > 0 and line.startswith('#['):
                attrs.append(line); k = k2
            else:
                break
        out.append((m.group(1), ' '.join(attrs), squeeze(block[m.end():j]), squeeze(strip_comments(body))))
        i = end

def method_source(blocks, header, fn):
    found = [(a, h, b) for hd, blk in blocks if hd == header for (n, a, h, b) in methods_in(blk) if n == fn]
    if len(found) != 1:
        raise Broken('expected exactly one `fn %s` in `%s`, found %d' % (fn, header, len(found)))
    attrs, head, body = found[0]
    if 'cfg' in attrs:
        raise Broken('conditional compilation attribute `%s`' % attrs)
    return head, body

def translate(repo):
    src = open(os.path.join(repo, 'src', 'read.rs'), encoding='utf-8').read()
    src = '\n'.join('' if l.lstrip().startswith('//') else l for l in src.split('\n'))
    src = re.sub(r'/\*.*?\*/', ' ', src, flags=re.S)            # block comments (trailing `//` comments go in fn_source / methods_in)
    broken, bodies = [], {}
    try:
        blocks = impl_blocks(src)
    except (Broken, ValueError, IndexError) as e:
        return {}, [('strscan:impl blocks', str(e))]
    for key in FNS:
        header, fn, sig = SIGS[key][:3]
        try:
            head, body = ts.fn_source(src, fn) if header is None else method_source(blocks, header, fn)
            if head != sig:
                raise Broken('signature is `%s`, the interpreter assumes `%s`' % (head, sig))
            bodies[key] = parse_body(key, body)
        except (Broken, ValueError, IndexError) as e:
            broken.append(('strscan:' + key, str(e)))
    for fn, (head_want, body_want) in PINNED_FNS.items():
        try:
            head, body = ts.fn_source(src, fn)
            if head != head_want:
                raise Broken('signature is `%s`, the interpreter assumes `%s`' % (head, head_want))
            if body != body_want:
                raise Broken('body is `%s`, the interpreter assumes `%s`' % (body, body_want))
        except (Broken, ValueError, IndexError) as e:
            broken.append(('strscan:pinned:' + fn, str(e)))
    for fn, head_want in CALLEE_SIGS.items():
        try:
            head, _ = ts.fn_source(src, fn)
            if head != head_want:
                raise Broken('signature is `%s`, the interpreter assumes `%s`' % (head, head_want))
        except (Broken, ValueError, IndexError) as e:
            broken.append(('strscan:pinned:' + fn, str(e)))
    for (header, fn), (head_want, body_want) in PINNED_METHODS.items():
        try:
            head, body = method_source(blocks, header, fn)
            if head != head_want:
                raise Broken('signature is `%s`, the interpreter assumes `%s`' % (head, head_want))
            if body != body_want:
                raise Broken('body is `%s`, the interpreter assumes `%s`' % (body, body_want))
        except (Broken, ValueError, IndexError) as e:
            broken.append(('strscan:pinned:%s::%s' % (header, fn), str(e)))
    for pat, want in STRUCTS.items():
        try:
            m = list(re.finditer(pat, src, re.M))
            if len(m) != 1: raise Broken('expected exactly one match of `%s`, found %d' % (pat, len(m)))
            got = squeeze(block_at(src, m[0].end() - 1)[0])
            if got != want:
                raise Broken('definition is `%s`, the interpreter assumes `%s`' % (got, want))
        except (Broken, ValueError, IndexError) as e:
            broken.append(('strscan:pinned:' + pat.split('\\s')[0].lstrip('^'), str(e)))
    try:
        m = list(re.finditer(r"^pub trait Read<'de>: private::Sealed\s*\{", src, re.M))
        if len(m) != 1: raise Broken("expected exactly one `pub trait Read<'de>: private::Sealed`")
        trait = squeeze(block_at(src, m[0].end() - 1)[0])
        for d in TRAIT_DECLS:
            if trait.count(d) != 1:
                raise Broken('trait Read no longer declares `%s`' % d)
    except (Broken, ValueError, IndexError) as e:
        broken.append(('strscan:pinned:trait Read', str(e)))
    try:
        lib = open(os.path.join(repo, 'src', 'lib.rs'), encoding='utf-8').read()
        lib = '\n'.join('' if l.lstrip().startswith('//') else l for l in lib.split('\n'))
        m = re.search(r'^macro_rules! tri\s*\{', lib, re.M)
        if not m:
            raise Broken('macro not found')
        got = squeeze('macro_rules! tri ' + block_at(lib, m.end() - 1)[0])
        if got != ts.TRI:
            raise Broken('macro is `%s`, the interpreter assumes `%s`' % (got, ts.TRI))
    except (Broken, ValueError, IndexError, OSError) as e:
        broken.append(('strscan:pinned:tri!', str(e)))
    return bodies, broken

# ---- Coq output --------------------------------------------------------------------------------------------
def q(s):
    return '"%s"' % s
def ty(t):
    return INTS[t][0]
def coq_bp(p):
    k = p[0]
    if k == 'wild': return 'ScanAst.PWild'
    if k == 'lit': return '(ScanAst.PLit %d)' % p[1]
    if k == 'range': return '(ScanAst.PRange %d %d)' % (p[1], p[2])
    return '(ScanAst.POr %s %s)' % (coq_bp(p[1]), coq_bp(p[2]))
def coq_expr(e):
    k = e[0]
    if k == 'lit': return '(ELit %s %d)' % (ty(e[1]), e[2])
    if k == 'var': return '(EVar %s)' % q(e[1])
    if k == 'max': return '(EMaxOf %s)' % ty(e[1])
    if k == 'sizeof': return '(ESizeOf %s)' % ty(e[1])
    if k == 'selfindex': return 'ESelfIndex'
    if k == 'slicelen': return 'ESliceLen'
    if k == 'sliceat': return '(ESliceAt %s)' % coq_expr(e[1])
    if k == 'subfrom': return '(ESubFrom %s)' % coq_expr(e[1])
    if k == 'subrange': return '(ESubRange %s %s)' % (coq_expr(e[1]), coq_expr(e[2]))
    if k == 'len': return '(ELen %s)' % q(e[1])
    if k == 'fromle': return '(EFromLe %s %s)' % (ty(e[1]), q(e[2]))
    if k == 'offset': return '(EOffsetFrom %s)' % q(e[1])
    if k == 'memchr2': return '(EMemchr2OrLen %s %s %s)' % (coq_expr(e[1]), coq_expr(e[2]), q(e[3]))
    if k == 'tz': return '(ETz %s)' % coq_expr(e[1])
    if k == 'cast': return '(ECast %s %s)' % (coq_expr(e[1]), ty(e[2]))
    if k == 'bin': return '(EBin %s %s %s)' % (e[1], coq_expr(e[2]), coq_expr(e[3]))
    if k == 'not': return '(ENot %s)' % coq_expr(e[1])
    if k == 'shl': return '(EShl %s %d)' % (coq_expr(e[1]), e[2])
    raise Broken('internal: expr ' + k)
def coq_cond(c):
    k = c[0]
    if k == 'true': return 'CTrue'
    if k == 'false': return 'CFalse'
    if k == 'cvar': return '(CVar %s)' % q(c[1])
    if k == 'cnot': return '(CNot %s)' % coq_cond(c[1])
    if k == 'cmp': return '(CCmp %s %s %s)' % (c[1], coq_expr(c[2]), coq_expr(c[3]))
    if k == 'isesc': return '(CIsEscape %s %s)' % (coq_expr(c[1]), coq_cond(c[2]))
    if k == 'empty': return 'CScratchEmpty'
    return '(%s %s %s)' % ('CAnd' if k == 'and' else 'COr', coq_cond(c[1]), coq_cond(c[2]))
def coq_arg(a):
    if a[0] == 'ae': return 'AE %s' % coq_expr(a[1])
    if a[0] == 'ac': return 'AC %s' % coq_cond(a[1])
    return 'AClo %s' % a[1]
def coq_args(args):
    return '[%s]' % '; '.join(coq_arg(a) for a in args)
def coq_map(m):
    return 'None' if m is None else '(Some %s)' % ('true' if m else 'false')
def coq_rexpr(r):
    k = r[0]
    if k == 'ok': return 'ROk'
    if k == 'plain': return 'RPlain'
    if k == 'err': return '(RErrAt %s)' % r[1]
    if k == 'cond': return '(RCond %s)' % coq_cond(r[1])
    if k == 'result': return '(RResult %s %s)' % (coq_map(r[1]), 'RsScratch' if r[2][0] == 'scratch' else '(RsVar %s)' % q(r[2][1]))
    if k == 'fromutf8': return '(RFromUtf8 %s %s)' % (q(r[1]), r[2])
    if k == 'call': return '(RCall %s %s %s)' % (q(r[1]), coq_args(r[2]), coq_map(r[3]))
    raise Broken('internal: rexpr ' + k)
def coq_stmt(s, ind):
    k = s[0]
    if k == 'let': return 'SLet %s %s' % (q(s[1]), coq_expr(s[2]))
    if k == 'assign': return 'SAssign %s %s' % (q(s[1]), coq_expr(s[2]))
    if k == 'indexadd': return 'SIndexAdd %s' % coq_expr(s[1])
    if k == 'indexset': return 'SIndexSet %s' % coq_expr(s[1])
    if k == 'extend': return 'SExtend %s' % coq_expr(s[1])
    if k == 'push': return 'SPush %s' % coq_expr(s[1])
    if k == 'letnext': return 'SLetNext %s' % q(s[1])
    if k == 'triparse': return 'STriParseEscape %s' % coq_cond(s[1])
    if k == 'triignore': return 'STriIgnoreEscape'
    if k == 'callself': return 'SCallSelf %s %s' % (q(s[1]), coq_args(s[2]))
    if k == 'if': return 'SIf %s %s %s' % (coq_cond(s[1]), coq_block(s[2], ind + 2), coq_block(s[3], ind + 2))
    if k == 'while': return 'SWhile %s %s' % (coq_cond(s[1]), coq_block(s[2], ind + 2))
    if k == 'loop': return 'SLoop %s' % coq_block(s[1], ind + 2)
    if k == 'continue': return 'SContinue'
    if k == 'for': return 'SForChunks %s %s %s %s' % (q(s[1]), q(s[2]), coq_expr(s[3]), coq_block(s[4], ind + 2))
    if k == 'ret': return 'SRet %s' % coq_rexpr(s[1])
    if k == 'match':
        pad = ' ' * (ind + 2)
        arms = (';\n' + pad).join('(%s, %s)' % (coq_bp(p), coq_block(b, ind + 4)) for p, b in s[2])
        return 'SMatchByte %s [\n%s%s]' % (coq_expr(s[1]), pad, arms)
    raise Broken('internal: ' + k)
def coq_block(ss, ind):
    if not ss: return '[]'
    if all(s[0] in ('push', 'continue', 'ret', 'indexadd', 'triignore') for s in ss) and len(ss) <= 2:
        return '[' + '; '.join(coq_stmt(s, ind) for s in ss) + ']'
    pad = ' ' * ind
    return '[\n' + pad + (';\n' + pad).join(coq_stmt(s, ind) for s in ss) + ']'
def coq_name(key):
    return 'SCAN_' + key.replace('::', '_')

def emit(bodies):
    L = ['(* Gen/StrScanTables.v — GENERATED by tools/translate_strscan.py from /repo/src/read.rs on every run. Do not edit.',
         '   The string-literal scanning of read.rs (is_escape, as_str, SliceRead::{skip_to_escape, skip_to_escape_slow, parse_str_bytes, ignore_str,',
         '   parse_str, parse_str_raw}, IoRead::{parse_str_bytes, ignore_str, parse_str, parse_str_raw}, StrRead::{parse_str, parse_str_raw, ignore_str}),',
         '   statement by statement (AST: Model/StrScanAst.v). *)',
         'From Coq Require Import List NArith String.', 'From SJ Require Import Base.Bytes Model.StrScanAst.', 'From SJ Require Model.ScanAst.',
         'Import ListNotations.', 'Local Open Scope string_scope.', 'Local Open Scope N_scope.', '']
    for key in FNS:
        params = '[%s]' % '; '.join('(%s, %s)' % (q(x), KINDS[t]) for x, t in SIGS[key][3])
        L.append('Definition %s : fdef := mkFn %s %s %s.' % (coq_name(key), params, SIGS[key][4], coq_block(bodies[key], 2)))
        L.append('')
    L.append('Definition SCAN_PROG : prog := mkProg [')
    L.append(';\n'.join('  (%s, %s)' % (q(key), coq_name(key)) for key in FNS))
    L.append('].')
    L.append('')
    return '\n'.join(L)

def main():
    ap = argparse.ArgumentParser()
    ap.add_argument('--repo', default=os.environ.get('VERIF_REPO', '/repo'))
    ap.add_argument('--out', default=os.path.join(os.path.dirname(os.path.abspath(__file__)), '..', 'coq', 'theories', 'Gen', 'StrScanTables.v'))
    a = ap.parse_args()
    bodies, broken = translate(a.repo)
    for name, why in broken:
        print('BROKEN %s: %s' % (name, why))
    if broken:
        return 3
    text = emit(bodies)
    old = open(a.out).read() if os.path.exists(a.out) else None
    if old != text:
        with open(a.out, 'w') as f:
            f.write(text)
        print('UPDATED ' + os.path.relpath(a.out))
    return 0

if __name__ == '__main__':
    sys.exit(main())
