#!/usr/bin/env python3
"""translate_fmt.py — regenerates coq/theories/Gen/FmtTables.v from /repo/src/ser.rs on every run.

A statement-level translator for the `Formatter` trait's default methods (= CompactFormatter) and the
`impl Formatter for PrettyFormatter` overrides.  The bodies are straight-line code over a tiny Rust subset:

    stmt  ::= self.current_indent += 1;  |  self.current_indent -= 1;  |  self.has_value = true|false;
            | tri!(CALL);  |  CALL                      (trailing expression)
            | if self.has_value { stmt* }
            | if first { stmt* } else { stmt* }
            | Ok(())
    CALL  ::= writer.write_all(BEXPR)  |  indent(writer, self.current_indent, self.indent)
    BEXPR ::= b"..."  |  if first { b"..." } else { b"..." }

Each body is parsed into the AST of Model/FmtAst.v (`fstmt`); Proofs/SerFmt.v then proves that the hand-written
formatter functions of Model/Ser.v equal the interpretation of the generated statement lists.  A body outside the
subset is reported as `BROKEN fmt:<method>: <why>` (exit status 3; the previous file is NOT rewritten).
`fn indent` and the scalar writers are pinned by exact (whitespace-squeezed) body text.

Usage: translate_fmt.py [--repo /repo] [--out <file>]
"""
import re, sys, os, argparse

class Broken(Exception):
    pass

METHODS = ['begin_array', 'end_array', 'begin_array_value', 'end_array_value', 'begin_object', 'end_object',
           'begin_object_key', 'end_object_key', 'begin_object_value', 'end_object_value',
           'write_null', 'begin_string', 'end_string']

PINNED = {   # exact squeezed bodies of helpers the model writes by hand
    'indent': '{ for _ in 0..n { tri!(wr.write_all(s)); } Ok(()) }',
    'write_bool': '{ let s = if value { b"true" as &[u8] } else { b"false" as &[u8] }; writer.write_all(s) }',
    'write_raw_fragment': '{ writer.write_all(fragment.as_bytes()) }',
}

def squeeze(s):
    return re.sub(r'\s+', ' ', s).strip()

def strip_comments(s):
    return re.sub(r'//[^\n]*', '', s)

CHARLIT = re.compile(r"'(?:\\x[0-9a-fA-F]{2}|\\u\{[0-9a-fA-F]+\}|\\.|[^\\'])'")

def block_at(src, i):
    """src[i] == '{': return the brace-matched block text (string/byte-string aware) and the index after it"""
    assert src[i] == '{'
    depth, j, n = 0, i, len(src)
    while j < n:
        c = src[j]
        if c == '"':
            j += 1
            while j < n and src[j] != '"':
                j += 2 if src[j] == '\\' else 1
        elif c == "'":
            m = CHARLIT.match(src, j)
            if m:                       # a char / byte literal such as b'{' or '\\''  (a lifetime 'a has no closing quote)
                j = m.end()
                continue
        elif c == '{':
            depth += 1
        elif c == '}':
            depth -= 1
            if depth == 0:
                return src[i:j + 1], j + 1
        j += 1
    raise Broken('unbalanced braces')

def find_block(src, header_re):
    ms = list(re.finditer(header_re, src))
    if len(ms) != 1:
        raise Broken('expected exactly one `%s`, found %d' % (header_re, len(ms)))
    i = src.index('{', ms[0].end() - 1)
    return block_at(src, i)[0]

def methods_of(block):
    """name -> squeezed body of every `fn name<...>(...) ... { body }` directly inside the block"""
    out = {}
    inner = block[1:-1]
    i = 0
    for m in re.finditer(r'\bfn (\w+)\s*(?:<[^>]*>)?\s*\(', inner):
        if m.start() < i:
            continue            # inside a previous body
        j = inner.index('{', m.end())
        # a `where` clause may contain no braces; a declaration without body ends with ';' first
        semi = inner.find(';', m.end())
        if semi != -1 and semi < j:
            i = semi + 1
            continue
        body, i = block_at(inner, j)
        if m.group(1) in out:
            raise Broken('method %s defined twice' % m.group(1))
        out[m.group(1)] = squeeze(strip_comments(body))
    return out

def bytestr(lit):
    m = re.fullmatch(r'b"((?:[^"\\]|\\.)*)"', lit)
    if not m:
        raise Broken('not a byte string literal: %r' % lit)
    s, out, i = m.group(1), [], 0
    while i < len(s):
        c = s[i]
        if c == '\\':
            e = s[i + 1]
            if e == 'x':
                out.append(int(s[i + 2:i + 4], 16)); i += 4; continue
            if e not in 'ntr\\"0\'':
                raise Broken('escape \\%s in %r' % (e, lit))
            out.append({'n': 10, 't': 9, 'r': 13, '\\': 92, '"': 34, '0': 0, "'": 39}[e]); i += 2; continue
        if ord(c) > 127:
            raise Broken('non-ASCII byte string %r' % lit)
        out.append(ord(c)); i += 1
    return out

BS = r'b"(?:[^"\\]|\\.)*"'

class P:
    """recursive descent over a squeezed body"""
    def __init__(self, s):
        self.s, self.i = s, 0
    def ws(self):
        while self.i < len(self.s) and self.s[self.i] == ' ':
            self.i += 1
    def eat(self, lit):
        self.ws()
        if self.s.startswith(lit, self.i):
            self.i += len(lit)
            return True
        return False
    def need(self, lit):
        if not self.eat(lit):
            raise Broken('expected `%s` at `%s`' % (lit, self.s[self.i:self.i + 40]))
    def rx(self, pat):
        self.ws()
        m = re.compile(pat).match(self.s, self.i)
        if not m:
            return None
        self.i = m.end()
        return m
    def bexpr(self):
        m = self.rx(BS)
        if m:
            return ('lit', bytestr(m.group(0)))
        if self.eat('if first {'):
            a = self.rx(BS)
            if not a: raise Broken('byte string expected in if-first expression')
            self.need('}'); self.need('else'); self.need('{')
            b = self.rx(BS)
            if not b: raise Broken('byte string expected in if-first expression')
            self.need('}')
            return ('iffirst', bytestr(a.group(0)), bytestr(b.group(0)))
        raise Broken('unsupported buffer expression at `%s`' % self.s[self.i:self.i + 40])
    def call(self):
        if self.eat('writer.write_all('):
            e = self.bexpr()
            self.need(')')
            return ('write', e)
        if self.eat('indent(writer, self.current_indent, self.indent)'):
            return ('indent',)
        return None
    def stmts(self):
        out = []
        while True:
            self.ws()
            if self.i >= len(self.s) or self.s[self.i] == '}':
                return out
            if self.eat('self.current_indent += 1;'):
                out.append(('inc',)); continue
            if self.eat('self.current_indent -= 1;'):
                out.append(('dec',)); continue
            m = self.rx(r'self\.has_value = (true|false);')
            if m:
                out.append(('sethas', m.group(1) == 'true')); continue
            if self.eat('tri!('):
                c = self.call()
                if c is None: raise Broken('unsupported call in tri! at `%s`' % self.s[self.i:self.i + 40])
                self.need(')'); self.need(';')
                out.append(c); continue
            if self.eat('if self.has_value {'):
                b = self.stmts(); self.need('}')
                out.append(('ifhas', b)); continue
            if self.eat('if first {'):
                a = self.stmts(); self.need('}'); self.need('else'); self.need('{')
                b = self.stmts(); self.need('}')
                out.append(('iffirst', a, b)); continue
            if self.eat('Ok(())'):
                self.ws()
                if self.i < len(self.s) and self.s[self.i] not in '}':
                    raise Broken('Ok(()) is not in tail position')
                out.append(('ok',)); continue
            c = self.call()
            if c is not None:
                self.ws()
                if self.i < len(self.s) and self.s[self.i] not in '}':
                    raise Broken('call without tri! is not in tail position at `%s`' % self.s[self.i:self.i + 40])
                out.append(c); continue
            raise Broken('statement outside the subset: `%s`' % self.s[self.i:self.i + 60])

def parse_body(body):
    p = P(body)
    p.need('{')
    ss = p.stmts()
    p.need('}')
    p.ws()
    if p.i != len(p.s):
        raise Broken('trailing text after body')
    return ss

def nl(xs):
    return '[' + '; '.join(str(x) for x in xs) + ']'

def coq_stmt(s):
    k = s[0]
    if k == 'inc': return 'FIncIndent'
    if k == 'dec': return 'FDecIndent'
    if k == 'sethas': return 'FSetHas %s' % ('true' if s[1] else 'false')
    if k == 'indent': return 'FIndent'
    if k == 'ok': return 'FOk'
    if k == 'write':
        e = s[1]
        if e[0] == 'lit': return 'FWrite (FLit %s)' % nl(e[1])
        return 'FWrite (FIfFirstLit %s %s)' % (nl(e[1]), nl(e[2]))
    if k == 'ifhas': return 'FIfHas %s' % coq_list(s[1])
    if k == 'iffirst': return 'FIfFirst %s %s' % (coq_list(s[1]), coq_list(s[2]))
    raise Broken('internal: ' + k)

def coq_list(ss):
    return '[' + '; '.join(coq_stmt(s) for s in ss) + ']'

def translate(repo):
    src = open(os.path.join(repo, 'src', 'ser.rs'), encoding='utf-8').read()
    # whole-line comments (doc comments mention braces and quotes) are dropped before brace matching
    src = '\n'.join('' if l.lstrip().startswith('//') else l for l in src.split('\n'))
    broken, tables = [], {}
    try:
        trait = methods_of(find_block(src, r'\bpub trait Formatter\s*\{'))
        pretty = methods_of(find_block(src, r"\bimpl<'a> Formatter for PrettyFormatter<'a>\s*\{"))
        compact_impl = find_block(src, r'\bimpl Formatter for CompactFormatter\s*\{')
        if squeeze(compact_impl) != '{}':
            raise Broken('impl Formatter for CompactFormatter is no longer empty (the model takes the trait defaults for it)')
    except (Broken, ValueError) as e:
        return None, [('fmt:blocks', str(e))]
    for who, tab in (('COMPACT', trait), ('PRETTY', dict(trait, **pretty))):
        for m in METHODS:
            try:
                if m not in tab:
                    raise Broken('method missing')
                tables[(who, m)] = parse_body(tab[m])
            except (Broken, ValueError, IndexError) as e:
                broken.append(('fmt:%s:%s' % (who.lower(), m), str(e)))
    extra = sorted(set(pretty) - set(METHODS))
    if extra:
        broken.append(('fmt:pretty-overrides', 'PrettyFormatter overrides methods the model takes from the defaults: %s' % ', '.join(extra)))
    # pinned helpers
    try:
        top = {}
        for m in re.finditer(r'^fn (indent)<W>\(wr: &mut W, n: usize, s: &\[u8\]\) -> io::Result<\(\)>\s*where\s*W: \?Sized \+ io::Write,\s*', src, re.M):
            top['indent'] = squeeze(strip_comments(block_at(src, src.index('{', m.end() - 1))[0]))
        pins = dict(top, write_bool=trait.get('write_bool'), write_raw_fragment=trait.get('write_raw_fragment'))
        for k, want in PINNED.items():
            if pins.get(k) != want:
                broken.append(('fmt:pinned:' + k, 'body is `%s`, the model assumes `%s`' % (pins.get(k), want)))
    except (Broken, ValueError) as e:
        broken.append(('fmt:pinned', str(e)))
    return tables, broken

def emit(tables):
    L = ['(* Gen/FmtTables.v — GENERATED by tools/translate_fmt.py from /repo/src/ser.rs on every run. Do not edit.',
         '   The bodies of the Formatter trait defaults (CompactFormatter) and of PrettyFormatter, statement by statement. *)',
         'From Coq Require Import List NArith.', 'From SJ Require Import Model.FmtAst.', 'Import ListNotations.', 'Open Scope N_scope.', '']
    for who in ('COMPACT', 'PRETTY'):
        L.append('Definition FMT_%s : fmt_table := {|' % who)
        L.append(';\n'.join('  m_%s := %s' % (m, coq_list(tables[(who, m)])) for m in METHODS))
        L.append('|}.')
        L.append('')
    return '\n'.join(L)

def main():
    ap = argparse.ArgumentParser()
    ap.add_argument('--repo', default='/repo')
    ap.add_argument('--out', default=os.path.join(os.path.dirname(os.path.abspath(__file__)), '..', 'coq', 'theories', 'Gen', 'FmtTables.v'))
    a = ap.parse_args()
    tables, broken = translate(a.repo)
    for name, why in broken:
        print('BROKEN %s: %s' % (name, why))
    if broken:
        return 3
    text = emit(tables)
    old = open(a.out).read() if os.path.exists(a.out) else None
    if old != text:
        with open(a.out, 'w') as f:
            f.write(text)
        print('UPDATED ' + os.path.relpath(a.out))
    return 0

if __name__ == '__main__':
    sys.exit(main())
