#!/usr/bin/env python3
"""translate_numfr.py — regenerates coq/theories/Gen/NumFrTables.v from /repo/src/de.rs on every run.

The companion of tools/translate_numparse.py (whose parser class, tokenizer and width inference it imports and extends) for the
`#[cfg(feature = "float_roundtrip")]` twins and the long-literal paths of the number parser of `impl Deserializer<R>`:

    parse_long_integer (fr twin)   parse_long_decimal   parse_long_exponent   parse_decimal_overflow (fr twin)
    f64_long_from_parts            f64_from_parts (fr twin)                   parse_exponent_overflow (no twin; called by parse_long_exponent)
    + the `overflow!` macro (parsed from its definition and expanded, hygienically, at every use)

Rust subset = the one of translate_numparse.py (see there) plus (AST and semantics: Model/NumFrAst.v):

    item ::= self.scratch.clear();  |  self.scratch.push(E);  |  self.scratch.extend_from_slice(E);
           | self.scratch.extend(iter::repeat(E).take(E));    |  self.scratch.resize(E, E);
           | if let Some(x) = E { item* } [else { item* }]                        (E : Option<integer>)
    E    ::= self.single_precision  |  self.scratch.len()  |  &self.scratch[..E]  |  &self.scratch[E..]
           | self.scratch.iter().all(|&x| E)
           | itoa::Buffer::new()  |  E.format(E)  |  E.as_bytes()  |  E.len()  |  E.checked_sub(E)
           | lexical::parse_concise_float::<F>(E, E)  |  lexical::parse_truncated_float::<F>(E, E, E)      F ::= f32 | f64
           | E as f64   (E : f32)
    R    ::= Ok(E) | Err(self.error(ErrorCode::X)) | Err(self.peek_error(ErrorCode::X)) | self.f(E, ..)     (all functions: Result<f64>)

Every expression is typed by the translator (u8 u64 i32 i64 usize f32 f64 bool, `str`, `bytes` = &[u8], `buf` = itoa::Buffer,
Option<int>); an ill-typed use is BROKEN.  Proofs/NumFrSrc.v proves the hand-written models (Model/Num.v float_roundtrip branches,
Model/NumF32.v) equal to the interpretation of the generated bodies.  Anything outside the subset: `BROKEN numfr:<fn>: <why>` (exit
status 3; the previous file is NOT rewritten).  Pinned by exact text: the cursor helpers and tri! (translate_scan.check_pinned), the
matcher of `overflow!`, parameter and return types, the fields `scratch: Vec<u8>` / `single_precision: bool` of Deserializer, the
signatures of lexical::parse_concise_float / parse_truncated_float (src/lexical/parse.rs) and their re-export, `use core::iter;`.

Usage: translate_numfr.py [--repo /repo] [--out <file>]
"""
import re, sys, os, argparse
sys.path.insert(0, os.path.dirname(os.path.abspath(__file__)))
import translate_numparse as np
from translate_numparse import (Broken, block_at, squeeze, strip_comments, tokenize, Cell, resolve, unify, is_int, INT_TYPES, COQ_ITY,
                                ECODES, IDENT, KEYWORDS, CFG_DEFAULT, CFG_FR, HARMLESS_ATTRS, OVERFLOW_MATCHER, fn_variants, params_of,
                                q, zlit, coq_ity, coq_opt, coq_bp, coq_pat, coq_scrut)

# name -> (parameter types after the receiver, which definition: 'fr' = the float_roundtrip twin of two, 'fronly' = the single
#          definition, carrying the float_roundtrip attribute, 'plain' = the single definition without cfg)
SIGS = {
    'parse_long_integer':      (['bool', 'u64'], 'fr'),
    'parse_long_decimal':      (['bool', 'usize'], 'fronly'),
    'parse_long_exponent':     (['bool', 'usize'], 'fronly'),
    'parse_decimal_overflow':  (['bool', 'u64', 'i32'], 'fr'),
    'parse_exponent_overflow': (['bool', 'bool', 'bool'], 'plain'),
    'f64_long_from_parts':     (['bool', 'usize', 'i32'], 'fronly'),
    'f64_from_parts':          (['bool', 'u64', 'i32'], 'fr'),
}
FNS = list(SIGS)
RET = 'Result<f64>'
FLOATS = {'f32': 'KF32', 'f64': 'KF64'}
LEXICAL = {   # src/lexical/parse.rs: header up to the body, squeezed
    'parse_concise_float': 'pub fn parse_concise_float<F>(mantissa: u64, mant_exp: i32) -> F where F: Float,',
    'parse_truncated_float': 'pub fn parse_truncated_float<F>(integer: &[u8], mut fraction: &[u8], exponent: i32) -> F where F: Float,',
}
LEXICAL_EXPORT = 'pub use self::parse::{parse_concise_float, parse_truncated_float};'
FIELDS = ['scratch: Vec<u8>,', '#[cfg(feature = "float_roundtrip")] single_precision: bool,']
USES = ['#[cfg(feature = "float_roundtrip")] use crate::lexical;', '#[cfg(feature = "float_roundtrip")] use core::iter;']

def is_opt(t):
    return isinstance(t, tuple) and t[0] == 'opt'

class PF(np.P):
    """translate_numparse.P with the scratch buffer, itoa, lexical and Option<int>"""
    def __init__(self, toks, fn, ctx):
        np.P.__init__(self, toks, fn, ctx)
        self.ret = 'f64'
    # ---- expressions ----------------------------------------------------------------------------
    def e_cast(self, scope):
        a, ta = self.e_unary(scope)
        while self.eat('as'):
            t = self.peek(); self.i += 1
            src = resolve(ta)
            if src == 'f32' and t == 'f64':
                a, ta = ('cast', a, ('f64',)), 'f64'
                continue
            if src not in INT_TYPES:
                raise Broken('`as %s` applied to a value of type %s' % (t, 'unknown width' if isinstance(src, Cell) else src))
            if t in INT_TYPES:
                a, ta = ('cast', a, ('int', t)), t
            elif t == 'f64':
                a, ta = ('cast', a, ('f64',)), 'f64'
            else:
                raise Broken('cast to %s' % t)
        return a, ta
    def e_postfix(self, scope):
        a, ta = self.e_primary(scope)
        while self.at('.') and self.is_ident(1) and self.peek(2) == '(':
            m = self.peek(1); self.i += 3
            t = resolve(ta)
            if m == 'len':
                self.need(')')
                if t not in ('str', 'bytes'): raise Broken('.len() on %s' % (t,))
                a, ta = ('len', a), 'usize'
            elif m == 'as_bytes':
                self.need(')')
                if t != 'str': raise Broken('.as_bytes() on %s' % (t,))
                a, ta = ('asbytes', a), 'bytes'
            elif m == 'format':
                if t != 'buf': raise Broken('.format() on %s (only itoa::Buffer is in the subset)' % (t,))
                b, tb = self.expr(scope)
                self.need(')')
                unify(tb, 'u64', 'argument of itoa::Buffer::format')
                a, ta = ('format', a, b), 'str'
            elif m == 'checked_sub':
                b, tb = self.expr(scope)
                self.need(')')
                if t not in INT_TYPES: raise Broken('.checked_sub() on %s' % (t,))
                unify(ta, tb, '.checked_sub')
                a, ta = ('checkedsub', a, b), ('opt', t)
            elif m in ('wrapping_neg', 'wrapping_abs'):
                self.need(')')
                if t not in INT_TYPES or (m == 'wrapping_abs' and t not in ('i32', 'i64')):
                    raise Broken('.%s() on %s' % (m, t))
                a = ('m1', {'wrapping_neg': 'MWrappingNeg', 'wrapping_abs': 'MWrappingAbs'}[m], a)
            elif m == 'is_infinite':
                self.need(')')
                if t != 'f64': raise Broken('.is_infinite() on %s' % (t,))
                a, ta = ('m1', 'MIsInfinite', a), 'bool'
            elif m in ('saturating_add', 'saturating_sub', 'wrapping_add', 'wrapping_sub', 'wrapping_mul'):
                b, tb = self.expr(scope)
                self.need(')')
                if t not in INT_TYPES: raise Broken('.%s() on %s' % (m, t))
                unify(ta, tb, '.%s' % m)
                a = ('m2', {'saturating_add': 'MSaturatingAdd', 'saturating_sub': 'MSaturatingSub', 'wrapping_add': 'MWrappingAdd',
                            'wrapping_sub': 'MWrappingSub', 'wrapping_mul': 'MWrappingMul'}[m], a, b)
            else:
                raise Broken('method .%s() is outside the subset' % m)
        return a, ta
    def e_primary(self, scope):
        if self.eats('self.single_precision'):
            if self.peek() in ('(', '.', '=', '+=', '-=', '*=', '/=', '['):
                raise Broken('use of self.single_precision outside the subset at `%s`' % self.here())
            return ('single',), 'bool'
        if self.eats('self.scratch.len()'):
            return ('scratchlen',), 'usize'
        if self.eats('self.scratch.iter().all(|&'):
            x = self.ident()
            self.need('|')
            sc = dict(scope); sc[x] = 'u8'
            b, tb = self.expr(sc)
            self.need(')')
            unify(tb, 'bool', 'closure of .all()')
            return ('scratchall', x, b), 'bool'
        if self.eats('&self.scratch['):
            if self.eat('.', '.'):
                n, tn = self.expr(scope)
                self.need(']')
                unify(tn, 'usize', 'slice bound')
                return ('scratchto', n), 'bytes'
            n, tn = self.expr(scope)
            self.need('.', '.', ']')
            unify(tn, 'usize', 'slice bound')
            return ('scratchfrom', n), 'bytes'
        if self.eats('itoa::Buffer::new()'):
            return ('bufnew',), 'buf'
        if self.eat('lexical', '::'):
            f = self.peek(); self.i += 1
            if f not in LEXICAL: raise Broken('lexical::%s is not one of the two entry points' % f)
            self.need('::', '<')
            k = self.peek(); self.i += 1
            if k not in FLOATS: raise Broken('lexical::%s::<%s>' % (f, k))
            self.need('>', '(')
            want = ['u64', 'i32'] if f == 'parse_concise_float' else ['bytes', 'bytes', 'i32']
            args = []
            while not self.at(')'):
                a, ta = self.expr(scope)
                args.append((a, ta))
                if not self.at(')'): self.need(',')
            self.need(')')
            if len(args) != len(want): raise Broken('lexical::%s called with %d arguments' % (f, len(args)))
            for k2, ((a, ta), w) in enumerate(zip(args, want)):
                unify(ta, w, 'argument %d of lexical::%s' % (k2 + 1, f))
            return ('concise' if f == 'parse_concise_float' else 'truncated', FLOATS[k]) + tuple(a for a, _ in args), k
        if self.at('self', '.') and self.peek(2) in ('scratch', 'read', 'remaining_depth', 'disable_recursion_limit'):
            raise Broken('use of self.%s outside the subset at `%s`' % (self.peek(2), self.here()))
        return np.P.e_primary(self, scope)

    # ---- calls / result expressions ---------------------------------------------------------------
    def is_call(self):
        return self.at('self', '.') and self.peek(2) in SIGS and self.peek(3) == '('
    def call(self, scope):
        f = self.peek(2); self.i += 4
        args = []
        while not self.at(')'):
            a, ta = self.expr(scope)
            args.append((a, ta))
            if not self.at(')'): self.need(',')
        self.need(')')
        want = SIGS[f][0]
        if len(args) != len(want):
            raise Broken('self.%s called with %d arguments, its signature has %d' % (f, len(args), len(want)))
        for k, ((a, ta), w) in enumerate(zip(args, want)):
            unify(ta, w, 'argument %d of self.%s' % (k + 1, f))
        return f, [a for a, _ in args]
    def pn_call(self, scope):
        return None
    def rexpr(self, scope, tail):
        if self.at('Ok', '('):
            self.i += 2
            out = self.ok_value(scope, ')')
            self.need(')')
            return out
        if self.eat('Err', '('):
            self.need('self', '.')
            if self.eat('error'): peeked = False
            elif self.eat('peek_error'): peeked = True
            else: raise Broken('Err(..) of something other than self.error / self.peek_error at `%s`' % self.here())
            self.need('(', 'ErrorCode', '::')
            c = self.peek(); self.i += 1
            if c not in ECODES:
                raise Broken('unknown ErrorCode::%s' % c)
            self.need(')', ')')
            return [('ret', ('err', peeked, c))]
        if self.is_call():
            f, args = self.call(scope)
            return [('ret', ('call', f, args))]
        raise Broken('Result expression outside the subset at `%s`' % self.here())

    # ---- items ----------------------------------------------------------------------------------------
    def tail_if(self, tail):
        """does the `if` starting here stand in tail position (final else, enclosing block in tail position, nothing after it)"""
        j, final_else = self.i, False
        while True:
            while self.t[j:j + 1] != ['{']:
                if j >= len(self.t): raise Broken('unbalanced if')
                j += 1
            j = self.skip_block(j)
            if self.t[j:j + 1] != ['else']: break
            j += 1
            if self.t[j:j + 1] == ['if']: continue
            j = self.skip_block(j)
            final_else = True
            break
        return tail and final_else and self.t[j:j + 1] == ['}']
    def items(self, tail, scope, stop=None):
        out, done = [], False
        while not self.at('}') and not (stop and not done and stop()):
            if self.i >= len(self.t):
                raise Broken('unexpected end of body')
            if done:
                raise Broken('item after a return / tail expression: `%s`' % self.here())
            if self.eats('self.eat_char();'):
                out.append(('eat',)); continue
            if self.eats('self.scratch.clear();'):
                out.append(('clear',)); continue
            if self.eats('self.scratch.push('):
                e, te = self.expr(scope)
                self.need(')', ';')
                unify(te, 'u8', 'argument of scratch.push')
                out.append(('push', e)); continue
            if self.eats('self.scratch.extend_from_slice('):
                e, te = self.expr(scope)
                self.need(')', ';')
                unify(te, 'bytes', 'argument of scratch.extend_from_slice')
                out.append(('extend', e)); continue
            if self.eats('self.scratch.extend(iter::repeat('):
                b, tb = self.expr(scope)
                self.needs(').take(')
                n, tn = self.expr(scope)
                self.need(')', ')', ';')
                unify(tb, 'u8', 'argument of iter::repeat'); unify(tn, 'usize', 'argument of .take')
                out.append(('extendrepeat', b, n)); continue
            if self.eats('self.scratch.resize('):
                n, tn = self.expr(scope)
                self.need(',')
                b, tb = self.expr(scope)
                self.need(')', ';')
                unify(tn, 'usize', 'first argument of scratch.resize'); unify(tb, 'u8', 'second argument of scratch.resize')
                out.append(('resize', n, b)); continue
            if self.at('self', '.', 'scratch') or self.at('self', '.', 'single_precision'):
                raise Broken('statement on self.%s outside the subset: `%s`' % (self.peek(2), self.here()))
            if self.eats('break;'):
                out.append(('break',)); done = True; continue
            if self.at('let'):
                self.i += 1
                self.eat('mut')
                x = self.ident()
                if x.endswith('!'): raise Broken('identifier %s' % x)
                self.need('=')
                if self.at('match') and (self.peek(1) == 'tri' or (IDENT.match(self.peek(1)) and self.peek(2) == '{')):
                    self.i += 1
                    st, ty = self.let_match(x, scope)
                    scope[x] = ty
                    out.append(st); continue
                e, te = self.expr(scope)
                self.need(';')
                scope[x] = te
                out.append(('let', x, e)); continue
            if self.is_ident() and self.peek(1) in ('=', '+=', '-=', '*=', '/='):
                x = self.ident(); op = self.peek(); self.i += 1
                if x not in scope: raise Broken('assignment to unknown variable %s' % x)
                e, te = self.expr(scope)
                self.need(';')
                if op == '=':
                    unify(scope[x], te, 'assignment to %s' % x)
                else:
                    e, te = self.arith(op[0], ('var', x), scope[x], e, te)
                out.append(('assign', x, e)); continue
            if self.at('if', 'let'):
                is_tail = self.tail_if(tail)
                self.need('if', 'let', 'Some', '(')
                x = self.ident()
                self.need(')', '=')
                e, te = self.expr(scope)
                te = resolve(te)
                if not is_opt(te): raise Broken('`if let Some(%s) = ..` on a value of type %s' % (x, te))
                sc = dict(scope); sc[x] = te[1]
                a = self.block(is_tail, sc)
                b = self.block(is_tail, scope) if self.eat('else') else []
                out.append(('ifletsome', x, e, a, b)); done = is_tail
                continue
            if self.at('if'):
                is_tail = self.tail_if(tail)
                out.append(self.if_parse(is_tail, scope)); done = is_tail
                continue
            if self.eat('match'):
                sc, kind = self.scrut(scope)
                self.need('{')
                j, depth = self.i, 1
                while depth:
                    if j >= len(self.t): raise Broken('unbalanced match')
                    depth += {'{': 1, '}': -1}.get(self.t[j], 0)
                    j += 1
                is_tail = tail and self.t[j:j + 1] == ['}']
                arms = self.arms(kind, is_tail, scope)
                self.need('}')
                out.append(('match', sc, arms))
                done = is_tail
                continue
            if self.eat('while', 'let'):
                p, sc, sc2 = self.let_pattern(scope)
                body = self.block(False, sc2)
                out.append(('while', p, sc, body)); continue
            if self.eat('loop'):
                body = self.block(False, scope)
                out.append(('loop', body)); done = not has_break(body); continue
            if self.eat('return'):
                out += self.rexpr(scope, True)
                self.eat(';')
                done = True; continue
            if self.starts_rexpr():
                r = self.rexpr(scope, tail)
                if not (tail and self.at('}')):
                    raise Broken('Result-valued expression outside tail position before `%s`' % self.here())
                out += r; done = True; continue
            raise Broken('item outside the subset: `%s`' % self.here())
        return out
    def expand_overflow(self, scope):
        """as translate_numparse.P.expand_overflow, the expansion parsed by this class"""
        x = self.ident(); self.need('*', '10', '+'); y = self.ident(); self.need(',')
        depth, j = 0, self.i
        while True:
            if j >= len(self.t): raise Broken('unbalanced overflow!(')
            if self.t[j] == '(': depth += 1
            elif self.t[j] == ')':
                if depth == 0: break
                depth -= 1
            j += 1
        cexpr = self.t[self.i:j]
        self.i = j + 1
        exp = []
        for tok in self.ctx['overflow']:
            if tok == '$a': exp.append(x)
            elif tok == '$b': exp.append(y)
            elif tok == '$c': exp += ['('] + cexpr + [')']
            else: exp.append(tok)
        sub = PF(exp, self.fn, self.ctx)
        r = sub.expr(scope)
        if sub.i != len(sub.t):
            raise Broken('overflow! expansion: trailing `%s`' % sub.here())
        return r

def has_break(ss):
    for st in ss:
        k = st[0]
        if k == 'break': return True
        if k == 'if': subs = [st[2], st[3]]
        elif k == 'ifletsome': subs = [st[3], st[4]]
        elif k == 'match': subs = [b for _, b in st[2]]
        elif k == 'letmatch': subs = [pre for _, pre, _ in st[3]]
        else: subs = []
        if any(has_break(b) for b in subs): return True
    return False

# ---- Coq output --------------------------------------------------------------------------------
def coq_expr(e):
    k = e[0]
    if k == 'var': return '(XVar %s)' % q(e[1])
    if k == 'int':
        t = resolve(e[1])
        if isinstance(t, Cell): raise Broken('cannot infer the width of the literal %d' % e[2])
        lo, hi = INT_TYPES[t]
        if not lo <= e[2] <= hi: raise Broken('literal %d out of range for %s' % (e[2], t))
        return '(XInt %s %s)' % (COQ_ITY[t], zlit(e[2]))
    if k == 'bool': return '(XBool %s)' % ('true' if e[1] else 'false')
    if k == 'float': return '(XFloat %s %s)' % (zlit(e[1]), zlit(e[2]))
    if k == 'bin': return '(XBin %s %s %s)' % (e[1], coq_expr(e[2]), coq_expr(e[3]))
    if k == 'cmp': return '(XCmp %s %s %s)' % (e[1], coq_expr(e[2]), coq_expr(e[3]))
    if k == 'and': return '(XAnd %s %s)' % (coq_expr(e[1]), coq_expr(e[2]))
    if k == 'or': return '(XOr %s %s)' % (coq_expr(e[1]), coq_expr(e[2]))
    if k == 'not': return '(XNot %s)' % coq_expr(e[1])
    if k == 'neg': return '(XNeg %s)' % coq_expr(e[1])
    if k == 'cast': return '(XCast %s %s)' % (coq_expr(e[1]), 'TF64' if e[2][0] == 'f64' else '(TInt %s)' % COQ_ITY[e[2][1]])
    if k == 'm1': return '(XM1 %s %s)' % (e[1], coq_expr(e[2]))
    if k == 'm2': return '(XM2 %s %s %s)' % (e[1], coq_expr(e[2]), coq_expr(e[3]))
    if k == 'if': return '(XIf %s %s %s)' % (coq_expr(e[1]), coq_expr(e[2]), coq_expr(e[3]))
    if k == 'let': return '(XLet %s %s %s)' % (q(e[1]), coq_expr(e[2]), coq_expr(e[3]))
    if k == 'single': return 'XSingle'
    if k == 'scratchlen': return 'XScratchLen'
    if k == 'scratchto': return '(XScratchTo %s)' % coq_expr(e[1])
    if k == 'scratchfrom': return '(XScratchFrom %s)' % coq_expr(e[1])
    if k == 'scratchall': return '(XScratchAll %s %s)' % (q(e[1]), coq_expr(e[2]))
    if k == 'bufnew': return 'XBufNew'
    if k == 'format': return '(XFormat %s %s)' % (coq_expr(e[1]), coq_expr(e[2]))
    if k == 'asbytes': return '(XAsBytes %s)' % coq_expr(e[1])
    if k == 'len': return '(XLen %s)' % coq_expr(e[1])
    if k == 'checkedsub': return '(XCheckedSub %s %s)' % (coq_expr(e[1]), coq_expr(e[2]))
    if k == 'concise': return '(XConcise %s %s %s)' % (e[1], coq_expr(e[2]), coq_expr(e[3]))
    if k == 'truncated': return '(XTruncated %s %s %s %s)' % (e[1], coq_expr(e[2]), coq_expr(e[3]), coq_expr(e[4]))
    raise Broken('expression form `%s` is outside the float_roundtrip subset' % k)
def coq_rexpr(r):
    k = r[0]
    if k == 'ok': return '(XROk %s)' % coq_expr(r[1])
    if k == 'err': return '(XRErr %s %s)' % ('true' if r[1] else 'false', r[2])
    return '(XRCall %s [%s])' % (q(r[1]), '; '.join(coq_expr(a) for a in r[2]))
SIMPLE = ('eat', 'let', 'assign', 'ret', 'break', 'clear', 'push', 'extend', 'extendrepeat', 'resize')
def coq_stmt(s, ind):
    k = s[0]
    if k == 'eat': return 'XSEat'
    if k == 'break': return 'XSBreak'
    if k == 'clear': return 'XSClear'
    if k == 'push': return 'XSPush %s' % coq_expr(s[1])
    if k == 'extend': return 'XSExtend %s' % coq_expr(s[1])
    if k == 'extendrepeat': return 'XSExtendRepeat %s %s' % (coq_expr(s[1]), coq_expr(s[2]))
    if k == 'resize': return 'XSResize %s %s' % (coq_expr(s[1]), coq_expr(s[2]))
    if k == 'let': return 'XSLet %s %s' % (q(s[1]), coq_expr(s[2]))
    if k == 'assign': return 'XSAssign %s %s' % (q(s[1]), coq_expr(s[2]))
    if k == 'ret': return 'XSRet %s' % coq_rexpr(s[1])
    if k == 'if': return 'XSIf %s %s %s' % (coq_expr(s[1]), coq_block(s[2], ind + 2), coq_block(s[3], ind + 2))
    if k == 'ifletsome': return 'XSIfLetSome %s %s %s %s' % (q(s[1]), coq_expr(s[2]), coq_block(s[3], ind + 2), coq_block(s[4], ind + 2))
    if k == 'loop': return 'XSLoop %s' % coq_block(s[1], ind + 2)
    if k == 'while': return 'XSWhileLet %s %s %s' % (coq_pat(s[1]), coq_scrut(s[2]), coq_block(s[3], ind + 2))
    if k == 'match':
        pad = ' ' * (ind + 2)
        arms = (';\n' + pad).join('(%s, %s)' % (coq_pat(p), coq_block(b, ind + 4)) for p, b in s[2])
        return 'XSMatch %s [\n%s%s]' % (coq_scrut(s[1]), pad, arms)
    if k == 'letmatch':
        pad = ' ' * (ind + 2)
        arms = (';\n' + pad).join('(%s, (%s, %s))' % (coq_pat(p), coq_block(pre, ind + 4), 'None' if v is None else 'Some %s' % coq_expr(v))
                                   for p, pre, v in s[3])
        return 'XSLetMatch %s %s [\n%s%s]' % (q(s[1]), coq_scrut(s[2]), pad, arms)
    raise Broken('statement form `%s` is outside the float_roundtrip subset' % k)
def coq_block(ss, ind):
    if all(s[0] in SIMPLE for s in ss) and len(ss) <= 1:
        return '[' + '; '.join(coq_stmt(s, ind) for s in ss) + ']'
    pad = ' ' * ind
    return '[\n' + pad + (';\n' + pad).join(coq_stmt(s, ind) for s in ss) + ']'

# ---- reading the source ----------------------------------------------------------------------------
def pick_variant(src, fn, which):
    vs = fn_variants(src, fn)
    for attrs, _, _, _ in vs:
        for a in attrs:
            if a not in HARMLESS_ATTRS and a not in (CFG_DEFAULT, CFG_FR):
                raise Broken('attribute `%s` is not one the translation knows' % a)
    if which == 'fr':
        d = [v for v in vs if CFG_DEFAULT in v[0]]
        o = [v for v in vs if CFG_FR in v[0]]
        if len(vs) != 2 or len(d) != 1 or len(o) != 1 or any(CFG_DEFAULT in v[0] and CFG_FR in v[0] for v in vs):
            raise Broken('expected one `%s` and one `%s` definition, found %d definitions' % (CFG_DEFAULT, CFG_FR, len(vs)))
        return o[0]
    if len(vs) != 1:
        raise Broken('expected exactly one definition, found %d' % len(vs))
    has_fr, has_def = CFG_FR in vs[0][0], CFG_DEFAULT in vs[0][0]
    if which == 'fronly' and (not has_fr or has_def):
        raise Broken('expected the attribute `%s` (and not `%s`), found %s' % (CFG_FR, CFG_DEFAULT, vs[0][0]))
    if which == 'plain' and (has_fr or has_def):
        raise Broken('unexpected cfg attribute %s' % vs[0][0])
    return vs[0]

def read_overflow(src):
    """the `overflow!` macro: token list of its expansion, the macro's own binder renamed `c!` (hygiene); as translate_numparse.translate"""
    m = re.search(r'^macro_rules! overflow\s*\{', src, re.M)
    if not m: raise Broken('macro not found')
    body = squeeze(block_at(src, m.end() - 1)[0])
    mm = re.fullmatch(r'\{ (\(.*?\)) => (\{.*\}); \}', body)
    if not mm: raise Broken('macro is not one rule `{ (..) => { .. }; }`: `%s`' % body)
    if mm.group(1) != OVERFLOW_MATCHER:
        raise Broken('matcher is `%s`, the translation assumes `%s`' % (mm.group(1), OVERFLOW_MATCHER))
    toks = tokenize(mm.group(2)[1:-1])
    if len(toks) < 6 or toks[0] != 'match' or toks[1] != '$c' or toks[2] != '{' or toks[4] != '=>' or toks[-1] != '}':
        raise Broken('expansion is not `match $c { c => .. }`: `%s`' % mm.group(2))
    binder = toks[3]
    if not IDENT.match(binder) or binder in KEYWORDS: raise Broken('binder `%s`' % binder)
    out = [binder + '!' if t == binder else t for t in toks]
    for t in out:
        if t.startswith('$') and t not in ('$a', '$b', '$c'): raise Broken('metavariable %s' % t)
    return out

def check_pins(repo, src):
    broken = []
    # the fields of Deserializer the interpreter's machine state stands for
    try:
        ms = list(re.finditer(r'^pub struct Deserializer<R>\s*\{', src, re.M))
        if len(ms) != 1: raise Broken('expected exactly one `pub struct Deserializer<R>`, found %d' % len(ms))
        got = squeeze(strip_comments(block_at(src, ms[0].end() - 1)[0]))
        for f in FIELDS:
            if got.count(' ' + f + ' ') != 1:
                raise Broken('field `%s` not found (exactly once) in `%s`' % (f, got))
        if got.count('scratch') != 1 or got.count('single_precision') != 1:
            raise Broken('fields named scratch / single_precision: `%s`' % got)
    except (Broken, ValueError, IndexError) as e:
        broken.append(('numfr:struct:Deserializer', str(e)))
    try:
        sq = squeeze(src)
        for u in USES:
            if sq.count(u) != 1: raise Broken('`%s` not found exactly once' % u)
    except (Broken, ValueError, IndexError) as e:
        broken.append(('numfr:use', str(e)))
    # lexical's two entry points: signatures (src/lexical/parse.rs) and the re-export (src/lexical/mod.rs)
    try:
        ptxt = open(os.path.join(repo, 'src', 'lexical', 'parse.rs'), encoding='utf-8').read()
        ptxt = '\n'.join('' if l.lstrip().startswith('//') else l for l in ptxt.split('\n'))
        for f, want in LEXICAL.items():
            ms = list(re.finditer(r'^pub fn %s\b' % f, ptxt, re.M))
            if len(ms) != 1: raise Broken('expected exactly one `pub fn %s`, found %d' % (f, len(ms)))
            got = squeeze(ptxt[ms[0].start():ptxt.index('{', ms[0].end())])
            if got != want: raise Broken('signature is `%s`, the interpreter assumes `%s`' % (got, want))
        mtxt = squeeze(open(os.path.join(repo, 'src', 'lexical', 'mod.rs'), encoding='utf-8').read())
        if mtxt.count(LEXICAL_EXPORT) != 1: raise Broken('`%s` not found in src/lexical/mod.rs' % LEXICAL_EXPORT)
    except (Broken, ValueError, IndexError, OSError) as e:
        broken.append(('numfr:lexical', str(e)))
    try:
        import translate_scan as ts
        broken += ts.check_pinned(repo, src, 'numfr')
    except Exception as e:                      # the shared pin list lives in translate_scan.py
        broken.append(('numfr:pinned', 'translate_scan.check_pinned unavailable: %s' % e))
    return broken

def translate(repo):
    src = open(os.path.join(repo, 'src', 'de.rs'), encoding='utf-8').read()
    src = '\n'.join('' if l.lstrip().startswith('//') else l for l in src.split('\n'))
    broken, bodies, params = [], {}, {}
    ctx = {'overflow': None, 'pure': {}, 'tabs': {}}
    try:
        ctx['overflow'] = read_overflow(src)
    except (Broken, ValueError, IndexError) as e:
        broken.append(('numfr:overflow!', str(e)))
        return None, None, broken
    for fn in FNS:
        ptypes, which = SIGS[fn]
        try:
            attrs, ptext, rtext, body = pick_variant(src, fn, which)
            if rtext != RET:
                raise Broken('return type is `%s`, the interpreter assumes `%s`' % (rtext, RET))
            names = params_of(ptext, '&mut self', ptypes)
            p = PF(tokenize(body), fn, ctx)
            ss = p.block(True, dict(zip(names, ptypes)))
            if p.i != len(p.t): raise Broken('trailing text after body')
            coq_block(ss, 2)                    # forces the width inference errors to surface here
            bodies[fn], params[fn] = ss, names
        except (Broken, ValueError, IndexError) as e:
            broken.append(('numfr:' + fn, str(e)))
    broken += check_pins(repo, src)
    return bodies, params, broken

def emit(bodies, params):
    L = ['(* Gen/NumFrTables.v — GENERATED by tools/translate_numfr.py from /repo/src/de.rs on every run. Do not edit.',
         '   The bodies of the float_roundtrip twins and the long-literal paths of the number parser of Deserializer<R>, statement by statement,',
         '   the `overflow!` macro expanded at its use (AST and semantics: Model/NumFrAst.v). *)',
         'From Coq Require Import List ZArith String.', 'From SJ Require Import Base.Bytes Model.NumParseAst Model.NumFrAst.', 'Import ListNotations.',
         'Local Open Scope string_scope.', 'Local Open Scope Z_scope.', '']
    for fn in FNS:
        L.append('Definition NF_%s : xfdef := mkXFn [%s] %s.' % (fn, '; '.join(q(x) for x in params[fn]), coq_block(bodies[fn], 2)))
        L.append('')
    L.append('Definition NUMFR : xprog := [')
    L.append(';\n'.join('  (%s, NF_%s)' % (q(fn), fn) for fn in FNS))
    L.append('].')
    L.append('')
    return '\n'.join(L)

def main():
    ap = argparse.ArgumentParser()
    ap.add_argument('--repo', default='/repo')
    ap.add_argument('--out', default=os.path.join(os.path.dirname(os.path.abspath(__file__)), '..', 'coq', 'theories', 'Gen', 'NumFrTables.v'))
    a = ap.parse_args()
    bodies, params, broken = translate(a.repo)
    for name, why in broken:
        print('BROKEN %s: %s' % (name, why))
    if broken:
        return 3
    text = emit(bodies, params)
    old = open(a.out).read() if os.path.exists(a.out) else None
    if old != text:
        with open(a.out, 'w') as f:
            f.write(text)
        print('UPDATED ' + os.path.relpath(a.out))
    return 0

if __name__ == '__main__':
    sys.exit(main())
