#!/usr/bin/env python3
"""translate_cursor.py — regenerates coq/theories/Gen/CursorTables.v from /repo/src/de.rs on every run.

Second family of the statement-level translator of tools/translate_scan.py (same parser class, extended grammar switched on; same AST,
Model/ScanAst.v): the small buffer-less cursor functions

    ignore_integer  ignore_decimal  ignore_exponent          the number skipper of IgnoredAny / unknown fields / RawValue
    parse_ident(ident: &[u8])  parse_whitespace               (-> Result<Option<u8>>)
    parse_object_colon  end_seq  end_map
    peek_end_of_value                                         StreamDeserializer: the deserializer is `self.de`
    has_next_element  has_next_key                            local fns of next_element_seed / next_key_seed: the deserializer is
                                                              `seq.de` / `map.de`, and `seq.first` / `map.first` is the bool parameter `first`

On top of the subset of translate_scan.py (minus everything about `buf`: calls are `self.f()`):

    item  ::= .. | if let PAT = tri!(SCRUT) { item* }
            | for x in ident { item* }                                  (ident the &[u8] parameter)
            | if COND { item* } [else if COND { item* }]* [else { item* }]
            | let x = match tri!(SCRUT) { PAT => y, PAT => { item* return R; } };
            | first = false;                                            (written seq.first / map.first)
    ARM   ::= .. | self.eat_char()
    COND  ::= x == b'c'  |  x != *y  |  first
    R     ::= .. | Ok(true) | Ok(false) | Ok(other)
            | let position = self.read.peek_position(); Err(Error::syntax(ErrorCode::X, position.line, position.column))
                  (= the pinned body of peek_error written out in place, translated as Err(self.peek_error(ErrorCode::X)))
    PAT   ::= .. | other | PAT | PAT                                    (no binders under `|`)

Proofs/CursorSrc.v proves the hand-written models (Model/Num.v ignore_*, Model/Read.v parse_ident / parse_whitespace, Model/De.v
parse_object_colon / end_seq / end_map / has_next_element / has_next_key, Model/Stream.v peek_end_of_value) equal to the interpretation of
the generated bodies.  Outside the subset: `BROKEN cursor:<fn>: <why>`, exit status 3, the previous file is NOT rewritten.
The helpers taken as primitives (peek, peek_or_null, eat_char, next_char, error, peek_error, tri!) are pinned as in translate_scan.py, and so
are the struct fields that make `self.de` / `seq.de` / `map.de` a Deserializer<R> and `first` a bool.

Usage: translate_cursor.py [--repo /repo] [--out <file>]
"""
import re, sys, os, argparse
sys.path.insert(0, os.path.dirname(os.path.abspath(__file__)))
import translate_scan as ts
Broken, squeeze = ts.Broken, ts.squeeze

# name -> (squeezed parameter list, (parameter, kind) or None, return payload, receiver tokens standing for the Deserializer, field tokens or None)
SELF = ['self']
CSIGS = {
    'ignore_integer':     ('&mut self', None, '()', SELF, None),
    'ignore_decimal':     ('&mut self', None, '()', SELF, None),
    'ignore_exponent':    ('&mut self', None, '()', SELF, None),
    'parse_ident':        ('&mut self, ident: &[u8]', ('ident', 'slice'), '()', SELF, None),
    'parse_whitespace':   ('&mut self', None, 'Option<u8>', SELF, None),
    'parse_object_colon': ('&mut self', None, '()', SELF, None),
    'end_seq':            ('&mut self', None, '()', SELF, None),
    'end_map':            ('&mut self', None, '()', SELF, None),
    'peek_end_of_value':  ('&mut self', None, '()', ['self', '.', 'de'], None),
    'has_next_element':   ("seq: &mut SeqAccess<'a, R>,", ('first', 'bool'), 'bool', ['seq', '.', 'de'], ['seq', '.', 'first']),
    'has_next_key':       ("map: &mut MapAccess<'a, R>", ('first', 'bool'), 'bool', ['map', '.', 'de'], ['map', '.', 'first']),
}
FNS = list(CSIGS)
FAMILY = ts.Family({f: ((CSIGS[f][1] or (None, None))[0], (CSIGS[f][1] or (None, None))[1], CSIGS[f][2]) for f in CSIGS}, buf=False, ext=True)

STRUCTS = {   # what makes the receivers above a Deserializer<R> / a bool
    'SeqAccess': (r"^struct SeqAccess<'a, R: 'a>\s*\{", "{ de: &'a mut Deserializer<R>, first: bool, }"),
    'MapAccess': (r"^struct MapAccess<'a, R: 'a>\s*\{", "{ de: &'a mut Deserializer<R>, first: bool, }"),
    'StreamDeserializer': (r"^pub struct StreamDeserializer<'de, R, T>\s*\{",
                           "{ de: Deserializer<R>, offset: usize, failed: bool, output: PhantomData<T>, lifetime: PhantomData<&'de ()>, }"),
}

def substitute(toks, old, new):
    out, i, n = [], 0, len(old)
    while i < len(toks):
        if toks[i:i + n] == old:
            out += new; i += n
        else:
            out.append(toks[i]); i += 1
    return out

def translate(repo):
    src = open(os.path.join(repo, 'src', 'de.rs'), encoding='utf-8').read()
    src = '\n'.join('' if l.lstrip().startswith('//') else l for l in src.split('\n'))
    broken, bodies = [], {}
    for fn in FNS:
        want_params, _, want_ret, recv, field = CSIGS[fn]
        try:
            params, ret, body, attr = ts.fn_source(src, fn)
            if (params, ret) != (want_params, want_ret):
                raise Broken('signature is `(%s) -> Result<%s>`, the interpreter assumes `(%s) -> Result<%s>`' % (params, ret, want_params, want_ret))
            if attr != '':
                raise Broken('unexpected attribute line `%s`' % attr)
            toks = ts.tokenize(body)
            if recv != SELF:
                if 'self' in toks and recv[0] != 'self':
                    raise Broken('`self` in a function whose deserializer is `%s`' % ''.join(recv))
                toks = substitute(toks, recv, ['self'])
                if field:
                    toks = substitute(toks, field, ['first'])
                if recv[0] in toks and recv[0] != 'self':
                    raise Broken('`%s` used other than as `%s`%s' % (recv[0], ''.join(recv), ' / `%s`' % ''.join(field) if field else ''))
            bodies[fn] = ts.parse_body(fn, body, FAMILY, toks)
        except (Broken, ValueError, IndexError) as e:
            broken.append(('cursor:' + fn, str(e)))
    for name, (header, want) in STRUCTS.items():
        try:
            ms = list(re.finditer(header, src, re.M))
            if len(ms) != 1:
                raise Broken('expected exactly one `%s`, found %d' % (header, len(ms)))
            got = squeeze(ts.block_at(src, ms[0].end() - 1)[0])
            if got != want:
                raise Broken('fields are `%s`, the translation assumes `%s`' % (got, want))
        except (Broken, ValueError, IndexError) as e:
            broken.append(('cursor:struct:' + name, str(e)))
    broken += ts.check_pinned(repo, src, 'cursor')
    return bodies, broken

def emit(bodies):
    L = ['(* Gen/CursorTables.v — GENERATED by tools/translate_cursor.py from /repo/src/de.rs on every run. Do not edit.',
         '   The bodies of the buffer-less cursor functions (number skipper, parse_ident, parse_whitespace, parse_object_colon, end_seq, end_map,',
         '   peek_end_of_value, has_next_element, has_next_key), statement by statement (AST: Model/ScanAst.v). *)',
         'From Coq Require Import List NArith String.', 'From SJ Require Import Base.Bytes Model.ScanAst.', 'Import ListNotations.',
         'Local Open Scope string_scope.', 'Local Open Scope N_scope.', '']
    for fn in FNS:
        L.append('Definition CUR_%s : fdef := mkFn %s %s.' % (fn, ts.opt((CSIGS[fn][1] or (None,))[0]), ts.coq_block(bodies[fn], 2)))
        L.append('')
    L.append('Definition CURSOR_TABLE : table := [')
    L.append(';\n'.join('  (%s, CUR_%s)' % (ts.q(fn), fn) for fn in FNS))
    L.append('].')
    L.append('')
    return '\n'.join(L)

def main():
    ap = argparse.ArgumentParser()
    ap.add_argument('--repo', default='/repo')
    ap.add_argument('--out', default=os.path.join(os.path.dirname(os.path.abspath(__file__)), '..', 'coq', 'theories', 'Gen', 'CursorTables.v'))
    a = ap.parse_args()
    bodies, broken = translate(a.repo)
    for name, why in broken:
        print('BROKEN %s: %s' % (name, why))
    if broken:
        return 3
    text = emit(bodies)
    old = open(a.out).read() if os.path.exists(a.out) else None
    if old != text:
        with open(a.out, 'w') as f:
            f.write(text)
        print('UPDATED ' + os.path.relpath(a.out))
    return 0

if __name__ == '__main__':
    sys.exit(main())
