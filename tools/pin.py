#!/usr/bin/env python3
"""pin.py <Proofs file> <lemma> <new name> — print a pinned copy `Theorem <new> : <stmt>. Proof. exact <Mod>.<lemma>. Qed.`"""
import re, sys
src = open(sys.argv[1]).read()
mod = sys.argv[1].split('/')[-1][:-2]
lemma, new = sys.argv[2], sys.argv[3]
m = re.search(r'(?:Theorem|Lemma|Corollary)\s+%s\b\s*(.*?)\.\s*\nProof' % re.escape(lemma), src, re.S)
stmt = m.group(1).rstrip()
implicit = '@' if re.match(r'^\s*[\(\{]', stmt) else ''
print('Theorem %s %s.\nProof. exact (%s%s.%s). Qed.\nPrint Assumptions %s.\n' % (new, stmt, '@', mod, lemma, new))
