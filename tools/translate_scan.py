#!/usr/bin/env python3
"""translate_scan.py — regenerates coq/theories/Gen/ScanTables.v from /repo/src/de.rs on every run.

A statement-level translator for the literal-keeping number scanners of `impl Deserializer<R>`:
    scan_or_eof  scan_integer  scan_number  scan_decimal  scan_exponent   (#[cfg(feature = "arbitrary_precision")])
    scan_integer128
Each is `fn f(&mut self, [e: char,] buf: &mut String) -> Result<u8 | ()>` with a body in this Rust subset:

    item  ::= self.eat_char();
            | buf.push('x');  |  buf.push(c as char);  (c : u8)  |  buf.push(e);  (e : char)
            | let mut x = true|false;  |  x = true|false;  |  if !x { item* }
            | match tri!(SCRUT) { PAT => ARM , ... }
            | while let PAT = tri!(SCRUT) { item* }
            | loop { item* }
            | return R;
            | R                                   (only as the last item of a block in tail position of the function)
    ARM   ::= { item* }  |  R  |  return R  |  loop { item* }
    SCRUT ::= self.peek_or_null()  |  self.peek()  |  self.next_char()  |  self.f(buf)          (f one of the above returning Result<u8>)
    R     ::= Ok(())  |  Ok(b)  |  Err(self.error(ErrorCode::X))  |  Err(self.peek_error(ErrorCode::X))
            | self.f(buf)  |  self.f(c as char, buf)                                           (f one of the above)
    PAT   ::= _  |  [x @] BP  |  Some(_ | x | [x @] BP)  |  None
    BP    ::= b'x'  |  b'x'..=b'y'  |  BP | BP  |  ( BP )  |  _

The bodies are parsed into the AST of Model/ScanAst.v (`stmt`); Proofs/ScanSrc.v then proves that the hand-written scanners of
Model/Num.v equal the interpretation of the generated bodies.  Anything outside the subset is reported as `BROKEN scan:<fn>: <why>`
(exit status 3; the previous file is NOT rewritten).  The one-line helpers the interpreter takes as primitives (peek, peek_or_null,
eat_char, next_char, error, peek_error) and the `tri!` macro are pinned by exact (whitespace-squeezed) text.

The parser class `P` is shared with tools/translate_cursor.py (second family: the buffer-less cursor functions), which switches on the
extended grammar (`ext`): calls without `buf`, `if let`, `for x in ident`, `if COND {..} [else ..]`, `let x = match ..`, Ok(true|false),
`other` / `P | Q` patterns.  For this file's family the extended forms stay outside the subset.

Usage: translate_scan.py [--repo /repo] [--out <file>]
"""
import re, sys, os, argparse
sys.path.insert(0, os.path.dirname(os.path.abspath(__file__)))
import translate_fmt as tf
Broken, block_at, squeeze, strip_comments = tf.Broken, tf.block_at, tf.squeeze, tf.strip_comments

# name -> (squeezed parameter list, char parameter or None, return payload type)
SIGS = {
    'scan_or_eof':     ('&mut self, buf: &mut String', None, 'u8'),
    'scan_integer':    ('&mut self, buf: &mut String', None, '()'),
    'scan_number':     ('&mut self, buf: &mut String', None, '()'),
    'scan_decimal':    ('&mut self, buf: &mut String', None, '()'),
    'scan_exponent':   ('&mut self, e: char, buf: &mut String', 'e', '()'),
    'scan_integer128': ('&mut self, buf: &mut String', None, '()'),
}
FNS = list(SIGS)

class Family:
    """what the parser needs to know about a family of functions: name -> (char/slice/bool parameter or None, its kind, return payload)"""
    def __init__(self, sigs, buf, ext, ext2=False):
        self.sigs, self.buf, self.ext, self.ext2 = sigs, buf, ext, ext2     # ext2: the forms of tools/translate_ignore.py
SCAN_FAMILY = Family({f: (SIGS[f][1], 'char' if SIGS[f][1] else None, SIGS[f][2]) for f in SIGS}, buf=True, ext=False)

PINNED = {   # helpers the interpreter (Model/ScanAst.v) maps onto the cursor primitives of Model/Read.v
    'peek': ('pub(crate) fn peek(&mut self) -> Result<Option<u8>>', '{ self.read.peek() }'),
    'peek_or_null': ('fn peek_or_null(&mut self) -> Result<u8>', "{ Ok(tri!(self.peek()).unwrap_or(b'\\x00')) }"),
    'eat_char': ('fn eat_char(&mut self)', '{ self.read.discard(); }'),
    'next_char': ('fn next_char(&mut self) -> Result<Option<u8>>', '{ self.read.next() }'),
    'error': ('fn error(&self, reason: ErrorCode) -> Error',
              '{ let position = self.read.position(); Error::syntax(reason, position.line, position.column) }'),
    'peek_error': ('fn peek_error(&self, reason: ErrorCode) -> Error',
                   '{ let position = self.read.peek_position(); Error::syntax(reason, position.line, position.column) }'),
}
TRI = ('macro_rules! tri { ($e:expr $(,)?) => { match $e { core::result::Result::Ok(val) => val, '
       'core::result::Result::Err(err) => return core::result::Result::Err(err), } }; }')

# the argument-less constructors of `ecode` (Base/Bytes.v), = the unit variants of ErrorCode
ECODES = ['EofWhileParsingList', 'EofWhileParsingObject', 'EofWhileParsingString', 'EofWhileParsingValue', 'ExpectedColon',
          'ExpectedListCommaOrEnd', 'ExpectedObjectCommaOrEnd', 'ExpectedSomeIdent', 'ExpectedSomeValue', 'ExpectedDoubleQuote',
          'InvalidEscape', 'InvalidNumber', 'NumberOutOfRange', 'InvalidUnicodeCodePoint', 'ControlCharacterWhileParsingString',
          'KeyMustBeAString', 'ExpectedNumericKey', 'FloatKeyMustBeFinite', 'LoneLeadingSurrogateInHexEscape', 'TrailingComma',
          'TrailingCharacters', 'UnexpectedEndOfHexEscape', 'RecursionLimitExceeded']

TOKEN = re.compile(r"\s*(b\"(?:[^\"\\]|\\.)*\"|b'(?:\\x[0-9a-fA-F]{2}|\\.|[^\\'])'|'(?:\\x[0-9a-fA-F]{2}|\\.|[^\\'])'|[A-Za-z_][A-Za-z0-9_]*|\.\.=|=>|::|==|!=|[@|(){},;!=.*])")
ESC = {'n': 10, 't': 9, 'r': 13, '\\': 92, '"': 34, '0': 0, "'": 39}

def tokenize(s):
    out, i = [], 0
    s = s.strip()
    while i < len(s):
        m = TOKEN.match(s, i)
        if not m:
            raise Broken('token outside the subset at `%s`' % s[i:i + 40].strip())
        out.append(m.group(1))
        i = m.end()
    return out

def lit_value(tok):
    """b'x' or 'x' -> code point (ASCII only)"""
    body = tok[2:-1] if tok.startswith('b') else tok[1:-1]
    if body.startswith('\\x'):
        v = int(body[2:], 16)
    elif body.startswith('\\'):
        if body[1] not in ESC:
            raise Broken('escape in literal %s' % tok)
        v = ESC[body[1]]
    else:
        v = ord(body)
    if v > 127:
        raise Broken('non-ASCII literal %s' % tok)
    return v

IDENT = re.compile(r'[a-z_][a-z0-9_]*\Z')
KEYWORDS = {'_', 'self', 'let', 'mut', 'if', 'else', 'match', 'while', 'loop', 'return', 'as', 'true', 'false', 'fn', 'for', 'in', 'break',
            'continue', 'ref', 'move', 'buf'}

def has_break(ss):
    """a `break` that leaves the loop whose body is ss (nested loops keep their own)"""
    for st in ss:
        k = st[0]
        if k == 'break': return True
        if k in ('ifnot', 'iflet'): subs = [st[-1]]
        elif k == 'if': subs = [st[2]]
        elif k == 'ifelse': subs = [st[2], st[3]]
        elif k == 'match': subs = [b for _, b in st[2]]
        elif k == 'matchg': subs = [b for _, _, b in st[2]]
        else: subs = []
        if any(has_break(b) for b in subs): return True
    return False

class P:
    """recursive descent over the token list of one function body"""
    def __init__(self, toks, fn, fam=None):
        self.t, self.i, self.fn = toks, 0, fn
        self.fam = fam or SCAN_FAMILY
        self.sigs, self.buf, self.ext, self.ext2 = self.fam.sigs, self.fam.buf, self.fam.ext, self.fam.ext2
        self.ret = self.sigs[fn][2]
    def is_call(self):
        return self.at('self', '.') and bool(self.t[self.i + 2:self.i + 3]) and self.t[self.i + 2] in self.sigs and self.t[self.i + 3:self.i + 4] == ['(']
    def at(self, *lits):
        return self.t[self.i:self.i + len(lits)] == list(lits)
    def eat(self, *lits):
        if self.at(*lits):
            self.i += len(lits)
            return True
        return False
    def eats(self, text):
        return self.eat(*tokenize(text))
    def here(self):
        return ' '.join(self.t[self.i:self.i + 12])
    def need(self, *lits):
        if not self.eat(*lits):
            raise Broken('expected `%s` at `%s`' % (' '.join(lits), self.here()))
    def needs(self, text):
        self.need(*tokenize(text))
    def ident(self):
        if self.i < len(self.t) and IDENT.match(self.t[self.i]) and self.t[self.i] not in KEYWORDS:
            self.i += 1
            return self.t[self.i - 1]
        raise Broken('identifier expected at `%s`' % self.here())
    def is_ident(self, k=0):
        return self.i + k < len(self.t) and bool(IDENT.match(self.t[self.i + k])) and self.t[self.i + k] not in KEYWORDS

    # ---- patterns -------------------------------------------------------------------
    def bp_atom(self):
        if self.eat('('):
            p = self.bp()
            self.need(')')
            return p
        if self.eat('_'):
            return ('wild',)
        if self.i < len(self.t) and self.t[self.i].startswith("b'"):
            lo = lit_value(self.t[self.i]); self.i += 1
            if self.eat('..='):
                if not (self.i < len(self.t) and self.t[self.i].startswith("b'")):
                    raise Broken('byte literal expected after ..= at `%s`' % self.here())
                hi = lit_value(self.t[self.i]); self.i += 1
                return ('range', lo, hi)
            return ('lit', lo)
        raise Broken('byte pattern outside the subset at `%s`' % self.here())
    def bp(self):
        p = self.bp_atom()
        while self.eat('|'):
            p = ('or', p, self.bp_atom())
        return p
    def bound_bp(self, scope):
        """[x @] BP | x    -> (binder or None, bp)"""
        if self.is_ident():
            x = self.ident()
            scope[x] = 'u8'
            if self.eat('@'):
                return x, self.bp_atom()        # `x @ P | Q` would bind only in the first alternative: take one atom, as rustc requires parentheses
            return x, ('wild',)
        return None, self.bp()
    def pat(self, kind, scope):
        if kind == 'u8':
            if self.at('_') and (self.t[self.i + 1:self.i + 2] in (['=>'], ['='])):
                self.i += 1
                return ('any',)
            x, p = self.bound_bp(scope)
            return ('byte', x, p)
        p = self.opt_atom(scope)
        while self.ext and self.eat('|'):
            q = self.opt_atom(scope)
            for r in (p, q):
                if r[0] == 'bindany' or (r[0] == 'some' and r[1] is not None):
                    raise Broken('binder inside an or-pattern')
            p = ('alt', p, q)
        return p
    def opt_atom(self, scope):
        if self.eat('_'):
            return ('any',)
        if self.eat('None'):
            return ('none',)
        if self.eat('Some', '('):
            x, p = self.bound_bp(scope)
            self.need(')')
            return ('some', x, p)
        if self.ext and self.is_ident():
            x = self.ident()
            scope[x] = 'opt'
            return ('bindany', x)
        raise Broken('Option pattern outside the subset at `%s`' % self.here())

    # ---- scrutinees / result expressions ---------------------------------------------
    def scrut(self):
        self.need('tri', '!', '(')
        if self.eats('self.peek_or_null()'): r = (('peek_or_null',), 'u8')
        elif self.eats('self.peek()'): r = (('peek',), 'opt')
        elif self.eats('self.next_char()'): r = (('next',), 'opt')
        elif self.is_call():
            f = self.t[self.i + 2]
            self.i += 3
            self.needs('(buf)' if self.buf else '()')
            if self.sigs[f][0] is not None or self.sigs[f][2] not in ('u8', 'Option<u8>'):
                raise Broken('tri!(self.%s(..)) as a scrutinee: %s does not return Result<u8> / Result<Option<u8>> without further arguments' % (f, f))
            r = (('call', f), 'u8' if self.sigs[f][2] == 'u8' else 'opt')
        else:
            raise Broken('scrutinee outside the subset at `%s`' % self.here())
        self.need(')')
        return r
    def starts_rexpr(self):
        return self.at('Ok', '(') or self.at('Err', '(') or self.is_call() or (self.ext and self.at('let', 'position', '='))
    def rexpr(self, scope):
        if self.eats('Ok(())'):
            if self.ret != '()': raise Broken('Ok(()) in a function returning Result<%s>' % self.ret)
            return ('okunit',)
        if self.ext and (self.at('Ok', '(', 'true', ')') or self.at('Ok', '(', 'false', ')')):
            if self.ret != 'bool': raise Broken('Ok(bool) in a function returning Result<%s>' % self.ret)
            self.i += 4
            return ('okbool', self.t[self.i - 2] == 'true')
        if self.ext and self.eats('let position = self.read.peek_position();'):
            # the body of peek_error (pinned), written out in place: position of the peeked byte + Error::syntax
            self.needs('Err(Error::syntax(ErrorCode::')
            c = self.t[self.i]; self.i += 1
            if c not in ECODES:
                raise Broken('unknown ErrorCode::%s' % c)
            self.needs(', position.line, position.column')
            self.eat(',')
            self.need(')', ')')
            return ('err', True, c)
        if self.eat('Ok', '('):
            x = self.ident(); self.need(')')
            if self.ext and scope.get(x) == 'opt' and self.ret == 'Option<u8>':
                return ('okvar', x)
            if scope.get(x) != 'u8' or self.ret != 'u8':
                raise Broken('Ok(%s): not a u8 binder in a function returning Result<u8>' % x)
            return ('okvar', x)
        if self.eat('Err', '('):
            self.need('self', '.')
            if self.eat('error'): peeked = False
            elif self.eat('peek_error'): peeked = True
            else: raise Broken('Err(..) of something other than self.error / self.peek_error at `%s`' % self.here())
            if self.ext2 and self.at('(', 'match'):
                self.i += 2
                x = self.ident()
                if scope.get(x) != 'u8': raise Broken('match %s { .. => ErrorCode::.. }: %s is not a u8 variable' % (x, x))
                self.need('{')
                alts, closed = [], False
                while not self.at('}'):
                    if closed: raise Broken('arm after `_ => unreachable!()`')
                    if self.eats('_ => unreachable!()'):
                        closed = True
                    else:
                        if not (self.i < len(self.t) and self.t[self.i].startswith("b'")):
                            raise Broken('byte literal expected in the ErrorCode selection at `%s`' % self.here())
                        v = lit_value(self.t[self.i]); self.i += 1
                        self.need('=>', 'ErrorCode', '::')
                        c = self.t[self.i]; self.i += 1
                        if c not in ECODES: raise Broken('unknown ErrorCode::%s' % c)
                        alts.append((v, c))
                    if not self.at('}'): self.need(',')
                if not closed: raise Broken('ErrorCode selection without `_ => unreachable!()`')
                self.need('}', ')', ')')
                return ('errsel', peeked, x, alts)
            self.need('(', 'ErrorCode', '::')
            c = self.t[self.i]; self.i += 1
            if c not in ECODES:
                raise Broken('unknown ErrorCode::%s' % c)
            self.need(')', ')')
            return ('err', peeked, c)
        if self.is_call():
            f = self.t[self.i + 2]
            self.i += 3
            self.need('(')
            arg = None
            if self.buf and not self.at('buf'):
                x = self.ident()
                if self.eat('as', 'char'):
                    if scope.get(x) != 'u8': raise Broken('`%s as char`: %s is not a u8 binder' % (x, x))
                elif scope.get(x) != 'char':
                    raise Broken('argument %s of self.%s is not a char' % (x, f))
                self.need(',')
                arg = x
            if self.buf:
                self.need('buf')
            self.need(')')
            if (arg is None) != (self.sigs[f][0] is None):
                raise Broken('self.%s called with the wrong number of arguments' % f)
            if self.sigs[f][2] != self.ret:
                raise Broken('self.%s(..) returns Result<%s>, the enclosing function Result<%s>' % (f, self.sigs[f][2], self.ret))
            return ('call', f, arg)
        raise Broken('Result expression outside the subset at `%s`' % self.here())

    # ---- items ---------------------------------------------------------------------------
    def block(self, tail, scope):
        """`{ item* }`; the scope of its declarations ends with it"""
        self.need('{')
        out = self.items(tail, dict(scope))
        self.need('}')
        return out
    def arms(self, kind, tail, scope):
        out = []
        while not self.at('}'):
            sc = dict(scope)
            p = self.pat(kind, sc)
            g = None
            if self.ext2 and self.eat('if'):
                g = self.cond(sc)
            self.need('=>')
            if self.at('{'):
                body = self.block(tail, sc)
                self.eat(',')
            else:
                if self.eat('return'):
                    body = [('ret', self.rexpr(sc))]
                elif self.eat('loop'):
                    body = [('loop', self.block(False, sc))]
                elif self.starts_rexpr():
                    if not tail:
                        raise Broken('Result-valued arm `%s` outside tail position' % self.here())
                    body = [('ret', self.rexpr(sc))]
                elif self.ext and self.eats('self.eat_char()'):
                    body = [('eat',)]
                else:
                    raise Broken('match arm outside the subset at `%s`' % self.here())
                if not self.at('}'):
                    self.need(',')
            out.append((p, body, g))
        if not out:
            raise Broken('match without arms')
        if any(g is not None for _, _, g in out):
            return [(p, g, body) for p, body, g in out]
        return [(p, body) for p, body, _ in out]
    def let_pattern(self, scope):
        """PAT = tri!(SCRUT)   of a while-let / if-let: (pattern, scrutinee, scope with the binders)"""
        sc2 = dict(scope)
        # the pattern is followed by `=`; patterns never contain `=`
        j = self.i
        while j < len(self.t) and self.t[j] != '=': j += 1
        save = self.i
        self.i = j
        self.need('=')
        sc, kind = self.scrut()
        after = self.i
        self.i = save
        p = self.pat(kind, sc2)
        if self.i != j: raise Broken('let pattern outside the subset at `%s`' % self.here())
        self.i = after
        return p, sc, sc2
    def cond(self, scope):
        x = self.ident()
        if self.eat('=='):
            if scope.get(x) != 'u8' or not (self.i < len(self.t) and self.t[self.i].startswith("b'")):
                raise Broken('condition `%s == ..` is not <u8 variable> == <byte literal>' % x)
            v = lit_value(self.t[self.i]); self.i += 1
            return ('eqlit', x, v)
        if self.eat('!=', '*'):
            y = self.ident()
            if scope.get(x) != 'u8' or scope.get(y) != 'ref_u8':
                raise Broken('condition `%s != *%s` is not <u8 variable> != *<loop variable>' % (x, y))
            return ('nevar', x, y)
        if scope.get(x) != 'bool': raise Broken('condition `%s` is not a bool variable' % x)
        return ('var', x)
    def skip_block(self, j):
        """self.t[j] == '{': index after the matching '}'"""
        if self.t[j:j + 1] != ['{']: raise Broken('`{` expected at `%s`' % ' '.join(self.t[j:j + 8]))
        depth = 0
        while True:
            if j >= len(self.t): raise Broken('unbalanced braces')
            depth += {'{': 1, '}': -1}.get(self.t[j], 0)
            j += 1
            if depth == 0: return j
    def if_chain(self, tail, scope):
        """if COND { .. } [else if COND { .. }]* [else { .. }]  ->  (statement, it stands in tail position)
        Only a chain with a final `else` has a value; without one it is a unit statement."""
        j, final_else = self.i, False
        while True:
            while self.t[j:j + 1] != ['{']:
                if j >= len(self.t): raise Broken('unbalanced if')
                j += 1
            j = self.skip_block(j)
            if self.t[j:j + 1] != ['else']: break
            j += 1
            if self.t[j:j + 1] == ['if']: continue
            j = self.skip_block(j)
            final_else = True
            break
        is_tail = tail and final_else and self.t[j:j + 1] == ['}']
        return self.if_parse(is_tail, scope), is_tail
    def if_parse(self, is_tail, scope):
        self.need('if')
        c = self.cond(scope)
        a = self.block(is_tail, scope)
        if self.eat('else'):
            b = [self.if_parse(is_tail, scope)] if self.at('if') else self.block(is_tail, scope)
            return ('ifelse', c, a, b)
        return ('if', c, a)
    # ---- third family (ext2): value expressions with match, scratch stack, break ------------
    def simple_value_len(self):
        """number of tokens of a simple value expression standing here, or 0"""
        if self.at('None'): return 1
        if self.at('Some', '(') and self.is_ident(2) and self.t[self.i + 3:self.i + 4] == [')']: return 4
        if self.at('(') and self.t[self.i + 1:self.i + 2] in (['true'], ['false']) and self.t[self.i + 2:self.i + 3] == [','] \
           and self.is_ident(3) and self.t[self.i + 4:self.i + 5] == [')']: return 5
        if self.is_ident() and self.t[self.i + 1:self.i + 2] in ([','], ['}'], [';']): return 1
        return 0
    def mexpr(self, scope):
        """-> (expression, kind)   kind: 'opt' | 'u8' | 'pair' | None (diverges)"""
        if self.eat('return'):
            return ('ret', self.rexpr(scope)), None
        if self.eat('match'):
            if self.at('tri', '!'):
                sc, kind = self.scrut()
                ms = ('tri', sc)
            elif self.eats('self.scratch.pop()'):
                ms, kind = ('pop',), 'opt'
            else:
                x = self.ident()
                if self.eats('.take()'):
                    if scope.get(x) != 'opt': raise Broken('%s.take(): %s is not an Option<u8> variable' % (x, x))
                    ms, kind = ('take', x), 'opt'
                else:
                    if scope.get(x) not in ('opt', 'u8'): raise Broken('match %s: not a u8 / Option<u8> variable' % x)
                    ms, kind = ('var', x), scope[x]
            self.need('{')
            arms, kinds = [], set()
            while not self.at('}'):
                sc2 = dict(scope)
                p = self.pat(kind, sc2)
                self.need('=>')
                if self.at('{'):
                    self.need('{')
                    sc3 = dict(sc2)
                    pre = self.items(False, sc3, stop=lambda: self.simple_value_len() > 0 and self.t[self.i + self.simple_value_len():self.i + self.simple_value_len() + 1] == ['}'])
                    if self.at('}'):
                        raise Broken('block arm of a value match ends without a value')
                    e, k = self.mexpr(sc3)
                    self.need('}')
                    self.eat(',')
                else:
                    pre = []
                    e, k = self.mexpr(sc2)
                    if not self.at('}'): self.need(',')
                if k is not None: kinds.add(k)
                arms.append((p, pre, e))
            self.need('}')
            if len(kinds) > 1: raise Broken('arms of a value match have different types: %s' % sorted(kinds))
            return ('match', ms, arms), (kinds.pop() if kinds else None)
        n = self.simple_value_len()
        if n == 1 and self.at('None'):
            self.i += 1
            return ('none',), 'opt'
        if n == 4:
            y = self.t[self.i + 2]; self.i += 4
            if scope.get(y) != 'u8': raise Broken('Some(%s): %s is not a u8 variable' % (y, y))
            return ('some', y), 'opt'
        if n == 5:
            b, y = self.t[self.i + 1] == 'true', self.t[self.i + 3]; self.i += 5
            if scope.get(y) != 'u8': raise Broken('(.., %s): %s is not a u8 variable' % (y, y))
            return ('pair', b, y), 'pair'
        if n == 1:
            y = self.ident()
            if scope.get(y) not in ('u8', 'opt'): raise Broken('value `%s` is not a u8 / Option<u8> variable' % y)
            return ('var', y), scope[y]
        raise Broken('value expression outside the subset at `%s`' % self.here())
    def item3(self, scope):
        """one item of the third family, or None"""
        if self.eats('self.scratch.clear();'):
            return ('clear',)
        if self.at('self', '.', 'scratch', '.', 'extend', '('):
            self.i += 6
            x = self.ident()
            if scope.get(x) != 'opt': raise Broken('scratch.extend(%s.take()): %s is not an Option<u8> variable' % (x, x))
            self.needs('.take());')
            return ('extendtake', x)
        if self.eats('tri!(self.read.ignore_str());'):
            return ('ignorestr',)
        if self.at('tri', '!', '(', 'self', '.') and self.t[self.i + 5:self.i + 6] and self.t[self.i + 5] in self.sigs and self.t[self.i + 6:self.i + 7] == ['(']:
            f = self.t[self.i + 5]
            self.i += 7
            arg = None
            if not self.at(')'):
                if not self.t[self.i].startswith('b"'): raise Broken('argument of self.%s is not a byte string literal' % f)
                arg = tf.bytestr(self.t[self.i]); self.i += 1
            self.need(')', ')', ';')
            if (arg is None) != (self.sigs[f][1] != 'slice') or self.sigs[f][2] != '()':
                raise Broken('tri!(self.%s(..)); : not a Result<()> function with this argument list' % f)
            return ('try', f, arg)
        if self.eats('break;'):
            return ('break',)
        if self.at('let', '(', 'mut') and self.is_ident(3) and self.t[self.i + 4:self.i + 6] == [',', 'mut'] and self.is_ident(6) \
           and self.t[self.i + 7:self.i + 9] == [')', '=']:
            x, y = self.t[self.i + 3], self.t[self.i + 6]
            self.i += 9
            e, k = self.mexpr(scope)
            self.need(';')
            if k != 'pair': raise Broken('let (mut %s, mut %s) = ..: the value is not a (bool, u8) pair' % (x, y))
            scope[x], scope[y] = 'bool', 'u8'
            return ('letpair', x, y, e)
        j = self.i
        if self.at('let'):
            j += 2 if self.at('let', 'mut') else 1
        if j < len(self.t) and IDENT.match(self.t[j]) and self.t[j] not in KEYWORDS and self.t[j + 1:j + 2] == ['='] \
           and self.t[j + 2:j + 3] not in (['true'], ['false']) and not (self.at('let') and self.t[j + 2:j + 4] == ['match', 'tri']):
            is_let = self.at('let')
            x = self.t[j]
            self.i = j + 2
            e, k = self.mexpr(scope)
            self.need(';')
            if k not in ('opt', 'u8'): raise Broken('%s = ..: the value is not a u8 / Option<u8>' % x)
            if is_let:
                scope[x] = k
                return ('letm', x, e)
            if scope.get(x) != k: raise Broken('assignment to %s: it is not a variable of the type of the value' % x)
            return ('assignm', x, e)
        return None
    def items(self, tail, scope, stop=None):
        out, done = [], False
        while not self.at('}') and not (stop and not done and stop()):
            if self.i >= len(self.t):
                raise Broken('unexpected end of body')
            if done:
                raise Broken('item after a return / tail expression: `%s`' % self.here())
            if self.ext2:
                it = self.item3(scope)
                if it is not None:
                    out.append(it); done = it[0] == 'break'
                    continue
            if self.eats('self.eat_char();'):
                out.append(('eat',)); continue
            if self.eat('buf', '.', 'push', '('):
                if self.i < len(self.t) and self.t[self.i].startswith("'"):
                    out.append(('pushlit', lit_value(self.t[self.i]))); self.i += 1
                else:
                    x = self.ident()
                    if self.eat('as', 'char'):
                        if scope.get(x) != 'u8': raise Broken('`%s as char`: %s is not a u8 binder' % (x, x))
                    elif scope.get(x) != 'char':
                        raise Broken('buf.push(%s): %s is not a char' % (x, x))
                    out.append(('pushvar', x))
                self.need(')', ';'); continue
            if self.eat('let', 'mut'):
                x = self.ident(); self.need('=')
                v = self.eat('true') or (self.need('false') or False)
                self.need(';')
                scope[x] = 'bool'
                out.append(('letbool', x, v)); continue
            if self.is_ident() and self.t[self.i + 1:self.i + 2] == ['=']:
                x = self.ident(); self.need('=')
                if scope.get(x) != 'bool': raise Broken('assignment to %s, which is not a `let mut` bool' % x)
                v = self.eat('true') or (self.need('false') or False)
                self.need(';')
                out.append(('setbool', x, v)); continue
            if self.ext and self.at('if', 'let'):
                self.i += 2
                p, sc, sc2 = self.let_pattern(scope)
                body = self.block(False, sc2)
                if self.at('else'): raise Broken('if let .. else')
                out.append(('iflet', p, sc, body)); continue
            if self.ext and self.eat('for'):
                x = self.ident(); self.need('in'); xs = self.ident()
                if scope.get(xs) != 'slice': raise Broken('for %s in %s: %s is not the &[u8] parameter' % (x, xs, xs))
                sc2 = dict(scope); sc2[x] = 'ref_u8'
                out.append(('for', x, xs, self.block(False, sc2))); continue
            if self.ext and self.at('let') and self.is_ident(1) and self.t[self.i + 2:self.i + 4] == ['=', 'match']:
                self.i += 1
                x = self.ident(); self.need('=', 'match')
                sc, kind = self.scrut()
                self.need('{')
                arms = []
                while not self.at('}'):
                    sc2 = dict(scope)
                    p = self.pat(kind, sc2)
                    self.need('=>')
                    if self.at('{'):
                        body = self.block(False, sc2)
                        if not body or body[-1][0] != 'ret':
                            raise Broken('block arm of `let %s = match` does not end in a return' % x)
                        arms.append((p, ('diverge', body)))
                        self.eat(',')
                    else:
                        y = self.ident()
                        if sc2.get(y) != 'u8': raise Broken('value arm `%s` of `let %s = match` is not a u8 binder' % (y, x))
                        arms.append((p, ('var', y)))
                        if not self.at('}'): self.need(',')
                self.need('}', ';')
                scope[x] = 'u8'
                out.append(('letmatch', x, sc, arms)); continue
            if self.ext and self.at('if') and not self.at('if', '!'):
                st, is_tail = self.if_chain(tail, scope)
                out.append(st); done = is_tail
                continue
            if self.eat('if', '!'):
                x = self.ident()
                if scope.get(x) != 'bool': raise Broken('if !%s: not a bool variable' % x)
                body = self.block(False, scope)
                if self.at('else'): raise Broken('if .. else')
                out.append(('ifnot', x, body)); continue
            if self.eat('match'):
                sc, kind = self.scrut()
                self.need('{')
                # the match is in tail position iff its block is and nothing follows it; look ahead for the closing brace
                j, depth = self.i, 1
                while depth:
                    if j >= len(self.t): raise Broken('unbalanced match')
                    depth += {'{': 1, '}': -1}.get(self.t[j], 0)
                    j += 1
                is_tail = tail and self.t[j:j + 1] == ['}']
                arms = self.arms(kind, is_tail, scope)
                self.need('}')
                out.append(('matchg' if len(arms[0]) == 3 else 'match', sc, arms))
                done = is_tail
                continue
            if self.eat('while', 'let'):
                p, sc, sc2 = self.let_pattern(scope)
                body = self.block(False, sc2)
                out.append(('while', p, sc, body)); continue
            if self.eat('loop'):
                body = self.block(False, scope)
                out.append(('loop', body)); done = not has_break(body); continue
            if self.eat('return'):
                r = self.rexpr(scope)
                self.eat(';')
                out.append(('ret', r)); done = True; continue
            if self.starts_rexpr():
                r = self.rexpr(scope)
                if not (tail and self.at('}')):
                    raise Broken('Result-valued expression outside tail position before `%s`' % self.here())
                out.append(('ret', r)); done = True; continue
            raise Broken('item outside the subset: `%s`' % self.here())
        return out

def parse_body(fn, body, fam=None, toks=None):
    fam = fam or SCAN_FAMILY
    p = P(toks if toks is not None else tokenize(body), fn, fam)
    scope = {}
    if fam.sigs[fn][0]:
        scope[fam.sigs[fn][0]] = fam.sigs[fn][1]
    ss = p.block(True, scope)
    if p.i != len(p.t):
        raise Broken('trailing text after body')
    return ss

# ---- Coq output --------------------------------------------------------------------------------
def q(s):
    return '"%s"' % s
def opt(x):
    return 'None' if x is None else '(Some %s)' % q(x)
def coq_bp(p):
    k = p[0]
    if k == 'wild': return 'PWild'
    if k == 'lit': return '(PLit %d)' % p[1]
    if k == 'range': return '(PRange %d %d)' % (p[1], p[2])
    return '(POr %s %s)' % (coq_bp(p[1]), coq_bp(p[2]))
def coq_pat(p):
    k = p[0]
    if k == 'any': return 'PAny'
    if k == 'none': return 'PNone'
    if k == 'bindany': return '(PBindAny %s)' % q(p[1])
    if k == 'alt': return '(PAlt %s %s)' % (coq_pat(p[1]), coq_pat(p[2]))
    return '(%s %s %s)' % ('PByte' if k == 'byte' else 'PSome', opt(p[1]), coq_bp(p[2]))
def coq_scrut(s):
    return {'peek_or_null': 'ScPeekOrNull', 'peek': 'ScPeek', 'next': 'ScNext'}.get(s[0]) or '(ScCall %s)' % q(s[1])
def coq_rexpr(r):
    k = r[0]
    if k == 'okunit': return 'ROkUnit'
    if k == 'okvar': return '(ROkVar %s)' % q(r[1])
    if k == 'err': return '(RErr %s %s)' % ('true' if r[1] else 'false', r[2])
    if k == 'okbool': return '(ROkBool %s)' % ('true' if r[1] else 'false')
    if k == 'errsel': return '(RErrSel %s %s [%s])' % ('true' if r[1] else 'false', q(r[2]), '; '.join('(%d, %s)' % a for a in r[3]))
    return '(RCall %s %s)' % (q(r[1]), opt(r[2]))
def coq_stmt(s, ind):
    k = s[0]
    if k == 'eat': return 'SEat'
    if k == 'pushlit': return 'SPushLit %d' % s[1]
    if k == 'pushvar': return 'SPushVar %s' % q(s[1])
    if k == 'letbool': return 'SLetBool %s %s' % (q(s[1]), 'true' if s[2] else 'false')
    if k == 'setbool': return 'SSetBool %s %s' % (q(s[1]), 'true' if s[2] else 'false')
    if k == 'ifnot': return 'SIfNot %s %s' % (q(s[1]), coq_block(s[2], ind + 2))
    if k == 'ret': return 'SRet %s' % coq_rexpr(s[1])
    if k == 'loop': return 'SLoop %s' % coq_block(s[1], ind + 2)
    if k == 'while': return 'SWhileLet %s %s %s' % (coq_pat(s[1]), coq_scrut(s[2]), coq_block(s[3], ind + 2))
    if k == 'iflet': return 'SIfLet %s %s %s' % (coq_pat(s[1]), coq_scrut(s[2]), coq_block(s[3], ind + 2))
    if k == 'for': return 'SFor %s %s %s' % (q(s[1]), q(s[2]), coq_block(s[3], ind + 2))
    if k == 'if': return 'SIf %s %s' % (coq_cond(s[1]), coq_block(s[2], ind + 2))
    if k == 'ifelse': return 'SIfElse %s %s %s' % (coq_cond(s[1]), coq_block(s[2], ind + 2), coq_block(s[3], ind + 2))
    if k == 'letmatch':
        pad = ' ' * (ind + 2)
        arms = (';\n' + pad).join('(%s, %s)' % (coq_pat(p), 'AVar %s' % q(a[1]) if a[0] == 'var' else 'ADiverge %s' % coq_block(a[1], ind + 4))
                                   for p, a in s[3])
        return 'SLetMatch %s %s [\n%s%s]' % (q(s[1]), coq_scrut(s[2]), pad, arms)
    if k == 'clear': return 'SClear'
    if k == 'extendtake': return 'SExtendTake %s' % q(s[1])
    if k == 'ignorestr': return 'SIgnoreStr'
    if k == 'break': return 'SBreak'
    if k == 'try': return 'STry %s %s' % (q(s[1]), 'None' if s[2] is None else '(Some [%s])' % '; '.join(str(b) for b in s[2]))
    if k == 'letm': return 'SLetM %s %s' % (q(s[1]), coq_mexpr(s[2], ind + 2))
    if k == 'assignm': return 'SAssignM %s %s' % (q(s[1]), coq_mexpr(s[2], ind + 2))
    if k == 'letpair': return 'SLetPair %s %s %s' % (q(s[1]), q(s[2]), coq_mexpr(s[3], ind + 2))
    if k == 'matchg':
        pad = ' ' * (ind + 2)
        arms = (';\n' + pad).join('(%s, %s, %s)' % (coq_pat(p), 'None' if g is None else 'Some %s' % coq_cond(g), coq_block(b, ind + 4)) for p, g, b in s[2])
        return 'SMatchG %s [\n%s%s]' % (coq_scrut(s[1]), pad, arms)
    if k == 'match':
        pad = ' ' * (ind + 2)
        arms = (';\n' + pad).join('(%s, %s)' % (coq_pat(p), coq_block(b, ind + 4)) for p, b in s[2])
        return 'SMatch %s [\n%s%s]' % (coq_scrut(s[1]), pad, arms)
    raise Broken('internal: ' + k)
def coq_mexpr(e, ind):
    k = e[0]
    if k == 'none': return 'MNone'
    if k == 'some': return '(MSome %s)' % q(e[1])
    if k == 'var': return '(MVar %s)' % q(e[1])
    if k == 'pair': return '(MPair %s %s)' % ('true' if e[1] else 'false', q(e[2]))
    if k == 'ret': return '(MRet %s)' % coq_rexpr(e[1])
    ms = e[1]
    msc = {'tri': lambda: '(MsTri %s)' % coq_scrut(ms[1]), 'var': lambda: '(MsVar %s)' % q(ms[1]),
           'take': lambda: '(MsTake %s)' % q(ms[1]), 'pop': lambda: 'MsPop'}[ms[0]]()
    pad = ' ' * (ind + 2)
    arms = (';\n' + pad).join('(%s, %s, %s)' % (coq_pat(p), coq_block(pre, ind + 4), coq_mexpr(v, ind + 4)) for p, pre, v in e[2])
    return '(MMatch %s [\n%s%s])' % (msc, pad, arms)
def coq_cond(c):
    if c[0] == 'eqlit': return '(CEqLit %s %d)' % (q(c[1]), c[2])
    if c[0] == 'nevar': return '(CNeVar %s %s)' % (q(c[1]), q(c[2]))
    return '(CVar %s)' % q(c[1])
def coq_block(ss, ind):
    if all(s[0] in ('eat', 'pushlit', 'pushvar', 'letbool', 'setbool', 'ret') for s in ss):
        return '[' + '; '.join(coq_stmt(s, ind) for s in ss) + ']'
    pad = ' ' * ind
    return '[\n' + pad + (';\n' + pad).join(coq_stmt(s, ind) for s in ss) + ']'

def fn_source(src, fn):
    """(squeezed parameter list, return payload, squeezed comment-free body, attribute line) of the unique `fn <fn>(`"""
    ms = list(re.finditer(r'^([ \t]*#\[[^\n]*\]\n)?[ \t]*(?:pub(?:\(crate\))? )?fn %s\s*(?:<[^(]*>)?\(' % fn, src, re.M))
    if len(ms) != 1:
        raise Broken('expected exactly one `fn %s(`, found %d' % (fn, len(ms)))
    m = ms[0]
    j = src.index('{', m.end())
    head = squeeze(src[m.end():j])
    hm = re.fullmatch(r'(.*)\) -> Result<(.*)>', head)
    if not hm:
        raise Broken('signature `(%s` is not `(..) -> Result<..>`' % head)
    body = squeeze(strip_comments(block_at(src, j)[0]))
    return hm.group(1).strip(), hm.group(2).strip(), body, squeeze(m.group(1) or '')

def translate(repo):
    src = open(os.path.join(repo, 'src', 'de.rs'), encoding='utf-8').read()
    # whole-line comments (doc comments mention braces and quotes) are dropped before brace matching
    src = '\n'.join('' if l.lstrip().startswith('//') else l for l in src.split('\n'))
    broken, bodies = [], {}
    for fn in FNS:
        try:
            params, ret, body, attr = fn_source(src, fn)
            if (params, ret) != (SIGS[fn][0], SIGS[fn][2]):
                raise Broken('signature is `(%s) -> Result<%s>`, the interpreter assumes `(%s) -> Result<%s>`' % (params, ret, SIGS[fn][0], SIGS[fn][2]))
            want_attr = '' if fn == 'scan_integer128' else '#[cfg(feature = "arbitrary_precision")]'
            if attr != want_attr:
                raise Broken('attribute line is `%s`, expected `%s`' % (attr, want_attr))
            bodies[fn] = parse_body(fn, body)
        except (Broken, ValueError, IndexError) as e:
            broken.append(('scan:' + fn, str(e)))
    broken += check_pinned(repo, src)
    return bodies, broken

def check_pinned(repo, src, tag='scan'):
    """the primitives of the interpreter: exact bodies of the one-line helpers of de.rs and of the tri! macro of lib.rs"""
    broken = []
    for name, (header, want) in PINNED.items():
        try:
            ms = [m for m in re.finditer(r'^[ \t]*' + re.escape(header) + r'\s*\{', src, re.M)]
            if len(ms) != 1:
                raise Broken('expected exactly one `%s`, found %d' % (header, len(ms)))
            got = squeeze(strip_comments(block_at(src, ms[0].end() - 1)[0]))
            if got != want:
                raise Broken('body is `%s`, the interpreter assumes `%s`' % (got, want))
        except (Broken, ValueError, IndexError) as e:
            broken.append((tag + ':pinned:' + name, str(e)))
    try:
        lib = open(os.path.join(repo, 'src', 'lib.rs'), encoding='utf-8').read()
        lib = '\n'.join('' if l.lstrip().startswith('//') else l for l in lib.split('\n'))
        m = re.search(r'^macro_rules! tri\s*\{', lib, re.M)
        if not m:
            raise Broken('macro not found')
        got = squeeze('macro_rules! tri ' + block_at(lib, m.end() - 1)[0])
        if got != TRI:
            raise Broken('macro is `%s`, the interpreter assumes `%s`' % (got, TRI))
    except (Broken, ValueError, IndexError, OSError) as e:
        broken.append((tag + ':pinned:tri!', str(e)))
    return broken

def emit(bodies):
    L = ['(* Gen/ScanTables.v — GENERATED by tools/translate_scan.py from /repo/src/de.rs on every run. Do not edit.',
         '   The bodies of the literal-keeping number scanners of Deserializer<R>, statement by statement (AST: Model/ScanAst.v). *)',
         'From Coq Require Import List NArith String.', 'From SJ Require Import Base.Bytes Model.ScanAst.', 'Import ListNotations.',
         'Local Open Scope string_scope.', 'Local Open Scope N_scope.', '']
    for fn in FNS:
        L.append('Definition SRC_%s : fdef := mkFn %s %s.' % (fn, opt(SIGS[fn][1]), coq_block(bodies[fn], 2)))
        L.append('')
    L.append('Definition SCAN_TABLE : table := [')
    L.append(';\n'.join('  (%s, SRC_%s)' % (q(fn), fn) for fn in FNS))
    L.append('].')
    L.append('')
    return '\n'.join(L)

def main():
    ap = argparse.ArgumentParser()
    ap.add_argument('--repo', default='/repo')
    ap.add_argument('--out', default=os.path.join(os.path.dirname(os.path.abspath(__file__)), '..', 'coq', 'theories', 'Gen', 'ScanTables.v'))
    a = ap.parse_args()
    bodies, broken = translate(a.repo)
    for name, why in broken:
        print('BROKEN %s: %s' % (name, why))
    if broken:
        return 3
    text = emit(bodies)
    old = open(a.out).read() if os.path.exists(a.out) else None
    if old != text:
        with open(a.out, 'w') as f:
            f.write(text)
        print('UPDATED ' + os.path.relpath(a.out))
    return 0

if __name__ == '__main__':
    sys.exit(main())
