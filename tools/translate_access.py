#!/usr/bin/env python3
"""translate_access.py — regenerates coq/theories/Gen/AccessTables.v from /repo/src/de.rs on every run.

The missing half of tools/translate_de.py: what the abstract visitor calls of Gen/DeTables.v (`visit_seq(SeqAccess::new(self))`,
`visit_map(MapAccess::new(self))`, `visit_enum(VariantAccess::new(self))`, `visit_enum(UnitVariantAccess::new(self))`) hand to the visitor:

    impl de::SeqAccess for SeqAccess<'a, R>               next_element_seed  (+ its local fn has_next_element)
    impl de::MapAccess for MapAccess<'a, R>               next_key_seed (+ its local fn has_next_key), next_value_seed
    impl de::EnumAccess / de::VariantAccess for VariantAccess<'a, R>, for UnitVariantAccess<'a, R>
                                                          variant_seed, unit_variant, newtype_variant_seed, tuple_variant, struct_variant
    impl MapKey<'a, R>                                    deserialize_numeric_key!(deserialize_number, deserialize_number)
    impl de::Deserializer for MapKey<'a, R>               deserialize_any, every deserialize_numeric_key! instance (macro translated per arm and
                                                          instantiated; the two cfg(float_roundtrip) instances of deserialize_f32 become one
                                                          SIfRoundtrip), deserialize_bool / _option / _newtype_struct / _enum / _bytes / _byte_buf,
                                                          the forward_to_deserialize_any! list (each = self.deserialize_any(visitor))

statement by statement into the AST of Model/AccessAst.v (`ax` / `astmt`; grammar in that file's header).  The receiver of the reader
operations is `self.de` (`seq.de` / `map.de` in the local fns; `seq.first` / `map.first` is the access's flag): the structs are pinned.
`seed.deserialize(&mut *self.de)` / `seed.deserialize(self.de)` is the abstract value seed, `seed.deserialize(MapKey { de: &mut *self.de })`
the abstract key seed, `de::Deserialize::deserialize(self.de)` in `fn unit_variant(self) -> Result<()>` the seed of `()`; visitor calls are
abstract as in translate_de.py; `self.de.f(.., visitor)` / `de::Deserializer::f(self.de, .., visitor)` call the translated entry point f of
Gen/DeTables.v, `self.f(visitor)` / `has_next_xxx(self)` a function of this table.  Proofs/AccessSrc.v / AccessSrc2.v prove the loops of
Model/DeTyped.v / Model/De.v and the key deserializer `de_key` equal to the interpretation of the generated bodies.

Anything outside the subset: `BROKEN access:<fn>: <why>`, exit status 3, the previous file is NOT rewritten.  Pinned by exact
(whitespace-squeezed) text: every impl header, signature and attribute line, the five structs, the `type Error` / `type Variant` lines, the
macro's two arm headers, the reader helpers (peek, eat_char, error, peek_error, fix_position of de.rs and error.rs, tri!).

Usage: translate_access.py [--repo /repo] [--out <file>]        (--repo defaults to $VERIF_REPO, then /repo)
"""
import re, sys, os, argparse
sys.path.insert(0, os.path.dirname(os.path.abspath(__file__)))
import translate_scan as ts
import translate_fmt as tf
import translate_de as td
Broken, squeeze, block_at, strip_comments, tokenize = ts.Broken, ts.squeeze, tf.block_at, tf.strip_comments, td.tokenize

DE, FIRST = '$de', '$first'          # the tokens `self.de` / `seq.de` / `map.de` and `seq.first` / `map.first` are rewritten into

SEED_T = "(self, seed: T) -> Result<T::Value> where T: de::DeserializeSeed<'de>,"
VIS_RES = "-> Result<V::Value> where V: de::Visitor<'de>,"
VSEED = "<V>(self, seed: V) -> Result<(V::Value, Self)> where V: de::DeserializeSeed<'de>,"

# impl tag -> (header regex, the non-fn lines the impl must consist of besides fns / macro invocations)
IMPLS = {
    'SeqAccess':          (r"^impl<'de, 'a, R: Read<'de> \+ 'a> de::SeqAccess<'de> for SeqAccess<'a, R>\s*\{", ['type Error = Error;']),
    'MapAccess':          (r"^impl<'de, 'a, R: Read<'de> \+ 'a> de::MapAccess<'de> for MapAccess<'a, R>\s*\{", ['type Error = Error;']),
    'VariantAccess/E':    (r"^impl<'de, 'a, R: Read<'de> \+ 'a> de::EnumAccess<'de> for VariantAccess<'a, R>\s*\{", ['type Error = Error;', 'type Variant = Self;']),
    'VariantAccess':      (r"^impl<'de, 'a, R: Read<'de> \+ 'a> de::VariantAccess<'de> for VariantAccess<'a, R>\s*\{", ['type Error = Error;']),
    'UnitVariantAccess/E': (r"^impl<'de, 'a, R: Read<'de> \+ 'a> de::EnumAccess<'de> for UnitVariantAccess<'a, R>\s*\{", ['type Error = Error;', 'type Variant = Self;']),
    'UnitVariantAccess':  (r"^impl<'de, 'a, R: Read<'de> \+ 'a> de::VariantAccess<'de> for UnitVariantAccess<'a, R>\s*\{", ['type Error = Error;']),
    'MapKey/I':           (r"^impl<'de, 'a, R> MapKey<'a, R>\s*where\s*R: Read<'de>,\s*\{", []),
    'MapKey':             (r"^impl<'de, 'a, R> de::Deserializer<'de> for MapKey<'a, R>\s*where\s*R: Read<'de>,\s*\{", ['type Error = Error;']),
}
# table name -> (impl tag, fn, attribute lines, squeezed header after `fn name`, kind of the Ok payload, receiver of the deserializer, flag or None)
#   kind: val = the visitor's / seed's value, opt = Option of it, bool, unit, pair = (value, Self)
SELF_DE = ['self', '.', 'de']
FNS = {
    'SeqAccess::next_element_seed': ('SeqAccess', 'next_element_seed', '', "<T>(&mut self, seed: T) -> Result<Option<T::Value>> where T: de::DeserializeSeed<'de>,", 'opt', SELF_DE, None),
    'MapAccess::next_key_seed':     ('MapAccess', 'next_key_seed', '', "<K>(&mut self, seed: K) -> Result<Option<K::Value>> where K: de::DeserializeSeed<'de>,", 'opt', SELF_DE, None),
    'MapAccess::next_value_seed':   ('MapAccess', 'next_value_seed', '', "<V>(&mut self, seed: V) -> Result<V::Value> where V: de::DeserializeSeed<'de>,", 'val', SELF_DE, None),
    'VariantAccess::variant_seed':  ('VariantAccess/E', 'variant_seed', '', VSEED, 'pair', SELF_DE, None),
    'VariantAccess::unit_variant':  ('VariantAccess', 'unit_variant', '', '(self) -> Result<()>', 'unit', SELF_DE, None),
    'VariantAccess::newtype_variant_seed': ('VariantAccess', 'newtype_variant_seed', '', '<T>' + SEED_T, 'val', SELF_DE, None),
    'VariantAccess::tuple_variant': ('VariantAccess', 'tuple_variant', '', '<V>(self, _len: usize, visitor: V) ' + VIS_RES, 'val', SELF_DE, None),
    'VariantAccess::struct_variant': ('VariantAccess', 'struct_variant', '', "<V>(self, fields: &'static [&'static str], visitor: V) " + VIS_RES, 'val', SELF_DE, None),
    'UnitVariantAccess::variant_seed': ('UnitVariantAccess/E', 'variant_seed', '', VSEED, 'pair', SELF_DE, None),
    'UnitVariantAccess::unit_variant': ('UnitVariantAccess', 'unit_variant', '', '(self) -> Result<()>', 'unit', SELF_DE, None),
    'UnitVariantAccess::newtype_variant_seed': ('UnitVariantAccess', 'newtype_variant_seed', '', "<T>(self, _seed: T) -> Result<T::Value> where T: de::DeserializeSeed<'de>,", 'val', SELF_DE, None),
    'UnitVariantAccess::tuple_variant': ('UnitVariantAccess', 'tuple_variant', '', '<V>(self, _len: usize, _visitor: V) ' + VIS_RES, 'val', SELF_DE, None),
    'UnitVariantAccess::struct_variant': ('UnitVariantAccess', 'struct_variant', '', "<V>(self, _fields: &'static [&'static str], _visitor: V) " + VIS_RES, 'val', SELF_DE, None),
    'MapKey::deserialize_any':      ('MapKey', 'deserialize_any', '#[inline]', '<V>(self, visitor: V) ' + VIS_RES, 'val', SELF_DE, None),
    'MapKey::deserialize_bool':     ('MapKey', 'deserialize_bool', '', '<V>(self, visitor: V) ' + VIS_RES, 'val', SELF_DE, None),
    'MapKey::deserialize_option':   ('MapKey', 'deserialize_option', '#[inline]', '<V>(self, visitor: V) ' + VIS_RES, 'val', SELF_DE, None),
    'MapKey::deserialize_newtype_struct': ('MapKey', 'deserialize_newtype_struct', '#[inline]', "<V>(self, name: &'static str, visitor: V) " + VIS_RES, 'val', SELF_DE, None),
    'MapKey::deserialize_enum':     ('MapKey', 'deserialize_enum', '#[inline]', "<V>( self, name: &'static str, variants: &'static [&'static str], visitor: V, ) " + VIS_RES, 'val', SELF_DE, None),
    'MapKey::deserialize_bytes':    ('MapKey', 'deserialize_bytes', '#[inline]', '<V>(self, visitor: V) ' + VIS_RES, 'val', SELF_DE, None),
    'MapKey::deserialize_byte_buf': ('MapKey', 'deserialize_byte_buf', '#[inline]', '<V>(self, visitor: V) ' + VIS_RES, 'val', SELF_DE, None),
}
# the local fns: table name -> (enclosing table name, exact squeezed text from `fn` to the body, receiver, flag)
LOCALS = {
    'SeqAccess::has_next_element': ('SeqAccess::next_element_seed', "fn has_next_element<'de, 'a, R: Read<'de> + 'a>( seq: &mut SeqAccess<'a, R>, ) -> Result<bool> ",
                                    ['seq', '.', 'de'], ['seq', '.', 'first']),
    'MapAccess::has_next_key':     ('MapAccess::next_key_seed', "fn has_next_key<'de, 'a, R: Read<'de> + 'a>(map: &mut MapAccess<'a, R>) -> Result<bool> ",
                                    ['map', '.', 'de'], ['map', '.', 'first']),
}
STRUCTS = {
    'SeqAccess': (r"^struct SeqAccess<'a, R: 'a>\s*\{", "{ de: &'a mut Deserializer<R>, first: bool, }"),
    'MapAccess': (r"^struct MapAccess<'a, R: 'a>\s*\{", "{ de: &'a mut Deserializer<R>, first: bool, }"),
    'VariantAccess': (r"^struct VariantAccess<'a, R: 'a>\s*\{", "{ de: &'a mut Deserializer<R>, }"),
    'UnitVariantAccess': (r"^struct UnitVariantAccess<'a, R: 'a>\s*\{", "{ de: &'a mut Deserializer<R>, }"),
    'MapKey': (r"^struct MapKey<'a, R: 'a>\s*\{", "{ de: &'a mut Deserializer<R>, }"),
}
MACRO_HEAD = "fn $method<V>(self, visitor: V) -> Result<V::Value> where V: de::Visitor<'de>, "
MACRO_ARM1 = '{ ($method:ident) => { ' + MACRO_HEAD
MACRO_ARM2 = ' }; ($method:ident, $delegate:ident) => { ' + MACRO_HEAD
MACRO_END = ' }; }'
# serde::Deserializer's 31 methods
TRAIT_METHODS = ['deserialize_any', 'deserialize_bool', 'deserialize_i8', 'deserialize_i16', 'deserialize_i32', 'deserialize_i64', 'deserialize_i128',
                 'deserialize_u8', 'deserialize_u16', 'deserialize_u32', 'deserialize_u64', 'deserialize_u128', 'deserialize_f32', 'deserialize_f64',
                 'deserialize_char', 'deserialize_str', 'deserialize_string', 'deserialize_bytes', 'deserialize_byte_buf', 'deserialize_option',
                 'deserialize_unit', 'deserialize_unit_struct', 'deserialize_newtype_struct', 'deserialize_seq', 'deserialize_tuple',
                 'deserialize_tuple_struct', 'deserialize_map', 'deserialize_struct', 'deserialize_enum', 'deserialize_identifier',
                 'deserialize_ignored_any']
NUMERIC = td.NUMBER_METHODS           # the methods the macro must supply
# the entry points of Gen/DeTables.v a body may call on the Deserializer with the visitor (all return Result<V::Value>)
DE_FNS = [f for f in td.SIGS if td.SIGS[f][3] == 'res'] + td.NUMBER_METHODS
# `self.de.f(<args>)` / `de::Deserializer::f(self.de, <args>)`: f -> the exact argument texts accepted (the entry point ignores name / fields / variants:
# its signature is pinned by translate_de.py)
DE_ARGS = {'deserialize_enum': ['name,variants,visitor'], 'deserialize_struct': ['"",fields,visitor'], 'deserialize_seq': ['visitor']}
STR_METHODS = td.STR_METHODS
VISITS = {'visit_bool(true)': ('FBool', True), 'visit_bool(false)': ('FBool', False), 'visit_some(self)': ('FSome',),
          'visit_newtype_struct(self)': ('FNewtype',)}
INVALID_TYPES = ['Unexpected::UnitVariant,&"newtype variant"', 'Unexpected::UnitVariant,&"tuple variant"', 'Unexpected::UnitVariant,&"struct variant"',
                 'Unexpected::Str(&s),&visitor']
SEEDS = [(['seed', '.', 'deserialize', '(', '&', 'mut', '*', DE, ')'], 'SdValue'),
         (['seed', '.', 'deserialize', '(', DE, ')'], 'SdValue'),
         (['seed', '.', 'deserialize', '(', 'MapKey', '{', 'de', ':', '&', 'mut', '*', DE, '}', ')'], 'SdKey'),
         (['de', '::', 'Deserialize', '::', 'deserialize', '(', DE, ')'], 'SdUnit')]

def substitute(toks, old, new):
    out, i, n = [], 0, len(old)
    while i < len(toks):
        if toks[i:i + n] == old:
            out += new; i += n
        else:
            out.append(toks[i]); i += 1
    return out

class A(ts.P):
    """recursive descent over the token list of one body (receiver already rewritten to `$de` / `$first`)"""
    def __init__(self, toks, name, kind, has_first):
        self.t, self.i, self.fn, self.kind, self.has_first = toks, 0, name, kind, has_first
        self.impl = name.split('::')[0]
        self.ext, self.ext2, self.buf, self.sigs = True, False, False, {}
    def eats(self, text): return self.eat(*tokenize(text))
    def needs(self, text): self.need(*tokenize(text))
    def ats(self, text): return self.at(*tokenize(text))
    def close_of(self, j): return self.skip_block(j) - 1
    def ecode(self):
        self.need('ErrorCode', '::')
        c = self.t[self.i]; self.i += 1
        if c not in ts.ECODES: raise Broken('unknown ErrorCode::%s' % c)
        return c
    def var(self, scope, kind):
        x = self.ident()
        if scope.get(x) != kind: raise Broken('`%s` is not a %s variable here' % (x, kind))
        return x
    def call_text(self, j):
        """self.t[j] == '(': index after the matching ')'"""
        depth, k = 0, j
        while True:
            if k >= len(self.t): raise Broken('unbalanced call')
            depth += {'(': 1, ')': -1}.get(self.t[k], 0)
            k += 1
            if depth == 0: return k
    def ok_kind(self, *kinds):
        if self.kind not in kinds: raise Broken('`%s`: not a value of this function\'s result type' % self.here())

    # ---- patterns / conditions --------------------------------------------------------------------------------
    def rpat(self, scope):
        if self.eat('_'): return ('any',)
        for ctor, k, tag in (('Ok', 'val', 'ok'), ('Err', 'err', 'err')):
            if self.eat(ctor, '('):
                if self.eat('_'): x = None
                else:
                    x = self.ident(); scope[x] = k
                self.need(')')
                return (tag, x)
        raise Broken('Result pattern outside the subset at `%s`' % self.here())
    def cond(self, scope):
        if self.eat(FIRST):
            if not self.has_first: raise Broken('the flag `first` outside has_next_element / has_next_key')
            return ('first',)
        x = self.var(scope, 'byte')
        self.need('==')
        if not (self.i < len(self.t) and self.t[self.i].startswith("b'")): raise Broken('condition outside the subset at `%s`' % self.here())
        v = ts.lit_value(self.t[self.i]); self.i += 1
        return ('eqlit', x, v)

    # ---- expressions --------------------------------------------------------------------------------------------
    def arm_expr(self, scope):
        blk = self.at('{')
        e = self.expr(scope)
        if blk: self.eat(',')
        elif not self.at('}'): self.need(',')
        return e
    def block_expr(self, scope):
        self.need('{')
        ss, tail = self.items(dict(scope))
        self.need('}')
        if tail is None:
            if ss and ss[-1][0] == 'ret': return ('block', ss[:-1], ('xret', ss[-1][1]))
            raise Broken('block without a value before `%s`' % self.here())
        return ('block', ss, tail) if ss else tail
    def seed(self):
        for toks, k in SEEDS:
            if self.t[self.i:self.i + len(toks)] == toks:
                if k == 'SdUnit' and self.kind != 'unit': raise Broken('de::Deserialize::deserialize(self.de) in a function that does not return Result<()>')
                if k == 'SdKey' and self.fn != 'MapAccess::next_key_seed': raise Broken('the MapKey seed outside next_key_seed')
                self.i += len(toks)
                return ('seed', k)
        return None
    def de_call(self):
        """`$de.f(args)` / `de::Deserializer::f($de, args)` with the visitor  ->  ('call', 'TgDe', f)"""
        if self.at(DE, '.') and self.t[self.i + 3:self.i + 4] == ['(']:
            f, j = self.t[self.i + 2], self.i + 3
            k = self.call_text(j)
            args = ''.join(self.t[j + 1:k - 1])
        elif self.at('de', '::', 'Deserializer', '::') and self.t[self.i + 5:self.i + 8] == ['(', DE, ',']:
            f, j = self.t[self.i + 4], self.i + 5
            k = self.call_text(j)
            args = ''.join(self.t[j + 3:k - 1])
        else:
            return None
        if f not in DE_FNS: raise Broken('call of %s on the Deserializer: not a translated entry point returning Result<V::Value>' % f)
        if args not in DE_ARGS.get(f, ['visitor']): raise Broken('arguments `%s` of the Deserializer\'s %s' % (args, f))
        self.i = k
        return ('call', 'TgDe', f)
    def expr(self, scope):
        if self.at('{'): return self.block_expr(scope)
        if self.eat('return'): return ('xret', self.expr(scope))
        if self.at('visitor', '.'):
            j = self.i + 2
            if self.t[j + 1:j + 2] != ['(']: raise Broken('visitor call outside the subset at `%s`' % self.here())
            k = self.call_text(j + 1)
            text = ''.join(self.t[j:k])
            if text not in VISITS: raise Broken('visitor call `visitor.%s` outside the subset' % text)
            self.i = k
            return ('visit', VISITS[text])
        s = self.seed()
        if s: return s
        c = self.de_call()
        if c: return c
        if self.at('self', '.') and self.t[self.i + 3:self.i + 6] == ['(', 'visitor', ')']:
            f = self.t[self.i + 2]
            self.i += 6
            return ('call', 'TgSelf', '%s::%s' % (self.impl, f))
        for name, (outer, _, _, _) in LOCALS.items():
            f = name.split('::')[1]
            if self.at(f, '(', 'self', ')'):
                if outer != self.fn: raise Broken('%s(self) outside %s' % (f, outer))
                self.i += 4
                return ('call', 'TgSelf', name)
        if self.eats('Ok(())'):
            self.ok_kind('unit'); return ('okunit',)
        if self.eats('Ok(None)'):
            self.ok_kind('opt'); return ('oknone',)
        if self.eats('Ok(true)'):
            self.ok_kind('bool'); return ('okbool', True)
        if self.eats('Ok(false)'):
            self.ok_kind('bool'); return ('okbool', False)
        if self.eats('Ok(Some(tri!('):
            self.ok_kind('opt')
            e = self.expr(scope)
            self.need(')', ')', ')')
            if e[0] != 'seed': raise Broken('Ok(Some(tri!(..))) of something other than the seed')
            return ('oksometri', e)
        if self.eats('Ok(('):
            self.ok_kind('pair')
            x = self.var(scope, 'val'); self.need(',', 'self', ')', ')')
            return ('okpair', x)
        if self.eat('Ok', '('):
            self.ok_kind('val')
            x = self.var(scope, 'val'); self.need(')')
            return ('ok', x)
        if self.eats('Err(de::Error::invalid_type('):
            k = self.call_text(self.i - 1)
            what = ''.join(self.t[self.i:k - 1]).rstrip(',')
            if what not in INVALID_TYPES: raise Broken('de::Error::invalid_type(%s) outside the subset' % what)
            if what.startswith('Unexpected::Str') and scope.get('s') != 'str': raise Broken('Unexpected::Str(&s): s is not the parsed string')
            self.i = k
            self.need(')')
            return ('errinvalid',)
        if self.eat('Err', '('):
            if self.at(DE, '.'):
                self.i += 2
                if self.eats('fix_position('):
                    x = self.var(scope, 'err'); self.need(')', ')')
                    return ('errfix', x)
                if self.eat('error', '('): peeked = False
                elif self.eat('peek_error', '('): peeked = True
                else: raise Broken('Err(self.de.%s..) outside the subset' % self.t[self.i])
                c = self.ecode(); self.need(')', ')')
                return ('errcode', peeked, c)
            x = self.var(scope, 'err'); self.need(')')
            return ('err', x)
        if self.eat('if'):
            return self.if_expr(scope)
        if self.eat('match'):
            return self.match_expr(scope)
        if self.is_ident() and scope.get(self.t[self.i]) == 'res':
            return ('var', self.ident())
        raise Broken('expression outside the subset at `%s`' % self.here())
    def if_expr(self, scope):
        """after `if`"""
        if self.eat('tri', '!', '('):
            c = self.expr(scope)
            self.need(')')
            if c[0] != 'call' or c[2] not in LOCALS: raise Broken('`if tri!(..)` of something other than has_next_element(self) / has_next_key(self)')
            a = self.block_expr(scope)
            self.need('else')
            b = self.block_expr(scope)
            return ('iftri', c, a, b)
        c = self.cond(scope)
        a = self.block_expr(scope)
        self.need('else')
        if self.eat('if'): b = self.if_expr(scope)
        else: b = self.block_expr(scope)
        return ('if', c, a, b)
    def match_expr(self, scope):
        """after `match`"""
        if self.at('tri', '!', '(', DE, '.', 'parse_whitespace', '(', ')', ')'):
            self.i += 9
            self.need('{')
            arms = []
            while not self.at('}'):
                sc = dict(scope)
                p = self.pat('opt', sc)
                for x in sc:
                    if x not in scope or sc[x] != scope.get(x): sc[x] = 'byte' if sc[x] == 'u8' else sc[x]
                self.need('=>')
                arms.append((p, self.arm_expr(sc)))
            self.need('}')
            return ('matchws', arms)
        if self.at('tri', '!', '(', DE, '.', 'read', '.', 'parse_str', '('):
            raise Broken('the string scanner is not directly preceded by `self.de.scratch.clear();`')
        x = self.ident()
        if scope.get(x) == 'byte':
            self.need('{')
            arms = []
            while not self.at('}'):
                p = self.bp()
                self.need('=>')
                arms.append((p, self.arm_expr(dict(scope))))
            self.need('}')
            return ('matchbyte', x, arms)
        if scope.get(x) == 'res':
            self.need('{')
            arms = []
            while not self.at('}'):
                sc = dict(scope)
                p = self.rpat(sc)
                self.need('=>')
                arms.append((p, self.arm_expr(sc)))
            self.need('}')
            return ('matchres', x, arms)
        raise Broken('match on `%s`, which is neither a peeked byte nor a Result variable' % x)

    # ---- items ------------------------------------------------------------------------------------------------------
    def peek_scrut(self):
        """`match tri!($de.peek())` / `match tri!($de.parse_whitespace())` at self.i (after `match`)?  -> 'peek' / 'ws' / None, and its length"""
        for f, tag in (('peek', 'peek'), ('parse_whitespace', 'ws')):
            if self.at('tri', '!', '(', DE, '.', f, '(', ')', ')'): return tag
        return None
    def items(self, scope):
        """-> (statements, tail expression or None); stops before the closing `}`"""
        out = []
        CLEAR = [DE, '.', 'scratch', '.', 'clear', '(', ')', ';']
        PSTR = ['tri', '!', '(', DE, '.', 'read', '.', 'parse_str', '(', '&', 'mut', DE, '.', 'scratch', ')', ')']
        while not self.at('}'):
            if self.i >= len(self.t): raise Broken('unexpected end of body')
            if out and out[-1][0] == 'ret': raise Broken('item after a return: `%s`' % self.here())
            if self.at(DE, '.', 'eat_char', '(', ')', ';'):
                self.i += 6; out.append(('eat',)); continue
            if self.at(*CLEAR):
                self.i += len(CLEAR)
                if self.at('let') and self.is_ident(1) and self.t[self.i + 2:self.i + 3] == ['='] and self.t[self.i + 3:self.i + 3 + len(PSTR)] == PSTR:
                    x = self.t[self.i + 1]
                    self.i += 3 + len(PSTR)
                    self.need(';')
                    scope[x] = 'str'
                    out.append(('letstr', x)); continue
                if self.at('match') and self.t[self.i + 1:self.i + 1 + len(PSTR)] == PSTR:
                    self.i += 1 + len(PSTR)
                    self.need('{')
                    ms = {}
                    for ctor in ('Borrowed', 'Copied'):
                        self.need('Reference', '::', ctor, '(')
                        x = self.ident()
                        self.need(')', '=>', 'visitor', '.')
                        m = self.t[self.i]; self.i += 1
                        if m not in STR_METHODS: raise Broken('visitor.%s on a parsed string' % m)
                        self.need('(', x, ')')
                        if not self.at('}'): self.need(',')
                        ms[ctor] = STR_METHODS[m]
                    self.need('}')
                    if not self.at('}'): raise Broken('the string visit is not in tail position')
                    return out, ('strvisit', ms['Borrowed'], ms['Copied'])
                raise Broken('`self.de.scratch.clear();` is not directly followed by the string scanner')
            if (self.at('let') and self.t[self.i + 3:self.i + 3 + len(PSTR)] == PSTR) or (self.at('match') and self.t[self.i + 1:self.i + 1 + len(PSTR)] == PSTR):
                raise Broken('the string scanner is not directly preceded by `self.de.scratch.clear();`')
            if self.at('tri', '!', '(', DE, '.', 'parse_ident', '('):
                self.i += 7
                if not self.t[self.i].startswith('b"'): raise Broken('argument of parse_ident is not a byte string literal')
                lit = tf.bytestr(self.t[self.i]); self.i += 1
                self.need(')', ')', ';')
                out.append(('tryident', lit)); continue
            if self.at('tri', '!', '(', DE, '.', 'parse_object_colon', '(', ')', ')', ';'):
                self.i += 10; out.append(('trycolon',)); continue
            if self.at(FIRST, '='):
                if not self.has_first: raise Broken('the flag `first` outside has_next_element / has_next_key')
                self.i += 2
                v = self.eat('true') or (self.need('false') or False)
                self.need(';')
                out.append(('setfirst', v)); continue
            if self.eats('let _ = name;'):
                if self.fn != 'MapKey::deserialize_newtype_struct': raise Broken('`let _ = name;`')
                continue
            if self.eats('#[cfg(feature = "raw_value")] { if name == crate::raw::TOKEN'):
                if self.fn != 'MapKey::deserialize_newtype_struct': raise Broken('raw-value token test outside deserialize_newtype_struct')
                self.need('{')
                ss, tail = self.items(dict(scope))
                if tail is not None: raise Broken('value at the end of the token branch')
                self.need('}', '}')
                out.append(('iftoken', ss)); continue
            if self.at('let') and self.is_ident(1) and self.t[self.i + 2:self.i + 4] == ['=', 'match']:
                save = self.i
                self.i += 4
                tag = self.peek_scrut()
                if tag and self.t[self.i + 9:self.i + 12] == ['{', 'Some', '('] and self.t[self.i + 13:self.i + 16] == [')', '=>', self.t[self.i + 12]]:
                    x = self.t[save + 1]
                    self.i += 9
                    self.need('{', 'Some', '(')
                    b = self.ident(); self.need(')', '=>', b, ',', 'None', '=>')
                    none = self.arm_expr(dict(scope))
                    self.need('}', ';')
                    if none[0] == 'block' and not none[1]: none = none[2]
                    if none[0] != 'xret': raise Broken('the None arm of `let %s = match tri!(..)` does not return' % x)
                    scope[x] = 'byte'
                    out.append(('letws' if tag == 'ws' else 'letpeek', x, none[1])); continue
                self.i = save
            if self.at('let') and self.is_ident(1) and self.t[self.i + 2:self.i + 5] == ['=', 'tri', '!']:
                x = self.t[self.i + 1]
                self.i += 5
                self.need('(')
                e = self.expr(scope)
                self.need(')', ';')
                if e[0] not in ('seed', 'call'): raise Broken('`let %s = tri!(..)` of something other than a seed or a call' % x)
                scope[x] = 'val'
                out.append(('lettri', x, e)); continue
            if self.at('let') and self.is_ident(1) and self.t[self.i + 2:self.i + 3] == ['=']:
                x = self.t[self.i + 1]
                self.i += 3
                e = self.expr(scope)
                self.need(';')
                scope[x] = 'res'
                out.append(('let', x, e)); continue
            if self.at('match'):
                save = self.i
                self.i += 1
                if self.peek_scrut() == 'peek':
                    if True:                                                  # always a statement: its arms are unit-valued
                        self.i += 9
                        self.need('{')
                        arms = []
                        while not self.at('}'):
                            sc = dict(scope)
                            p = self.pat('opt', sc)
                            if sc != scope: raise Broken('binder in a `match tri!(self.de.peek())` statement')
                            self.need('=>')
                            if self.eat('{'):
                                ss, tail = self.items(dict(scope))
                                if tail is not None: raise Broken('value at the end of a statement arm')
                                self.need('}'); self.eat(',')
                            elif self.at(DE, '.', 'eat_char', '(', ')'):
                                self.i += 5; ss = [('eat',)]
                                if not self.at('}'): self.need(',')
                            elif self.eat('return'):
                                e = self.expr(scope)
                                ss = [('ret', e)]
                                if not self.at('}'): self.need(',')
                            else:
                                raise Broken('arm of a `match tri!(self.de.peek())` statement outside the subset at `%s`' % self.here())
                            arms.append((p, ss))
                        self.need('}')
                        out.append(('matchpeek', arms)); continue
                self.i = save
            if self.eat('return'):
                e = self.expr(scope)
                self.need(';')
                out.append(('ret', e)); continue
            e = self.expr(scope)
            if not self.at('}'): raise Broken('expression outside tail position before `%s`' % self.here())
            return out, e
        return out, None

def parse_fn(name, kind, body, recv, flag):
    toks = tokenize(body)
    if recv != SELF_DE and 'self' in toks: raise Broken('`self` in a function whose deserializer is `%s`' % ''.join(recv))
    toks = substitute(toks, recv, [DE])
    if flag: toks = substitute(toks, flag, [FIRST])
    if recv[0] != 'self' and recv[0] in toks: raise Broken('`%s` used other than as `%s` / `%s`' % (recv[0], ''.join(recv), ''.join(flag or [])))
    # `self` may remain only as the visitor's / pair's / local fn's argument
    for j, t in enumerate(toks):
        if t == 'self' and toks[j + 1:j + 2] == ['.'] and not (toks[j + 3:j + 6] == ['(', 'visitor', ')']):
            raise Broken('`self.%s` outside the subset' % ''.join(toks[j + 2:j + 3]))
    p = A(toks, name, kind, flag is not None)
    p.need('{')
    ss, tail = p.items({})
    p.need('}')
    if p.i != len(p.t): raise Broken('trailing text after body')
    if tail is not None: ss = ss + [('ret', tail)]
    if not ss or ss[-1][0] != 'ret': raise Broken('the body does not end in a value')
    return ss

# ---- source extraction --------------------------------------------------------------------------------------------------
def top_level(block):
    """the text of an impl block outside fn bodies"""
    inner, spans, i = block[1:-1], [], 0
    for m in re.finditer(r'\bfn ([A-Za-z_][A-Za-z0-9_]*)', inner):
        if m.start() < i: continue
        j = inner.index('{', m.end())
        i = block_at(inner, j)[1]
        spans.append((m.start(), i))
    top = inner
    for a, b in reversed(spans):
        # drop the fn with its attribute lines / where clause (everything back to the previous `}` or `;`)
        k = max(top.rfind('}', 0, a), top.rfind(';', 0, a)) + 1
        top = top[:k] + top[b:]
    return top

def split_local(body, head):
    """body = `{ <head>{ local body } rest }` -> (local body, `{ rest }`)"""
    if not body.startswith('{ ' + head + '{'):
        raise Broken('the body does not start with `%s{`' % head)
    j = 2 + len(head)
    inner, end = block_at(body, j)
    return inner, '{' + body[end:]

def macro_arms(src):
    ms = list(re.finditer(r'^macro_rules! deserialize_numeric_key\s*\{', src, re.M))
    if len(ms) != 1: raise Broken('expected exactly one `macro_rules! deserialize_numeric_key`, found %d' % len(ms))
    text = squeeze(strip_comments(block_at(src, ms[0].end() - 1)[0]))
    if not text.startswith(MACRO_ARM1): raise Broken('first arm is not `%s..`' % MACRO_ARM1)
    b1, e1 = block_at(text, len(MACRO_ARM1))
    if not text.startswith(MACRO_ARM2, e1): raise Broken('second arm is not `%s..`: `%s`' % (MACRO_ARM2, text[e1:e1 + 60]))
    b2, e2 = block_at(text, e1 + len(MACRO_ARM2))
    if text[e2:] != MACRO_END: raise Broken('text after the second arm: `%s`' % text[e2:])
    for b in (b1, b2):
        if '$method' in b: raise Broken('$method inside an arm body')
    if '$delegate' in b1: raise Broken('$delegate in the one-argument arm')
    return b1, b2

def macro_instances(top, where):
    """`[#[cfg(..)]] deserialize_numeric_key!(method[, delegate]);` -> method -> [(cfg, delegate or None)]"""
    out = {}
    for m in re.finditer(r'^[ \t]*(#\[cfg\(([^\n]*)\)\]\n[ \t]*)?deserialize_numeric_key!\(\s*(\w+)\s*(?:,\s*(\w+)\s*)?\);', top, re.M):
        out.setdefault(m.group(3), []).append((m.group(2), m.group(4)))
    if len(re.findall(r'deserialize_numeric_key!', top)) != sum(len(v) for v in out.values()):
        raise Broken('a deserialize_numeric_key! invocation outside the subset in %s' % where)
    return out

def translate(repo):
    src = open(os.path.join(repo, 'src', 'de.rs'), encoding='utf-8').read()
    src = '\n'.join('' if l.lstrip().startswith('//') else l for l in src.split('\n'))
    broken, bodies = [], {}
    blocks, found = {}, {}
    for tag, (header, _) in IMPLS.items():
        try:
            blocks[tag] = td.impl_block(src, header)
            found[tag] = td.fns_of(blocks[tag])
        except (Broken, ValueError, IndexError) as e:
            broken.append(('access:impl:' + tag, str(e)))
    if broken: return bodies, broken
    # ---- the functions written out -------------------------------------------------------------------------
    for name, (impl, fn, attr, header, kind, recv, flag) in FNS.items():
        try:
            if fn not in found[impl]: raise Broken('not found in `impl .. for %s`' % impl)
            if len(found[impl][fn]) != 1: raise Broken('%d definitions' % len(found[impl][fn]))
            gattr, gheader, body = found[impl][fn][0]
            if gattr != attr: raise Broken('attribute lines are `%s`, expected `%s`' % (gattr, attr))
            if gheader != header: raise Broken('signature is `%s`, the interpreter assumes `%s`' % (gheader, header))
            for lname, (outer, head, lrecv, lflag) in LOCALS.items():
                if outer == name:
                    try:
                        lbody, body = split_local(body, head)
                        bodies[lname] = parse_fn(lname, 'bool', lbody, lrecv, lflag)
                    except (Broken, ValueError, IndexError) as e:
                        broken.append(('access:' + lname, str(e)))
            if re.search(r'\bfn\b', body): raise Broken('a local fn the translation does not know')
            bodies[name] = parse_fn(name, kind, body, recv, flag)
        except (Broken, ValueError, IndexError) as e:
            broken.append(('access:' + name, str(e)))
    # ---- impl contents: nothing besides the known fns, the type lines and (MapKey) the macro invocations -------
    for tag, (_, lines) in IMPLS.items():
        try:
            known = {f for n, (impl, f, *_) in FNS.items() if impl == tag}
            extra = sorted(set(found[tag]) - known)
            if extra: raise Broken('fn %s is not one the translation knows' % ', '.join(extra))
            top = top_level(blocks[tag])
            rest = re.sub(r'(#\[cfg\([^\n]*\)\]\s*)?deserialize_numeric_key!\([^;]*\);', '', top)
            rest = re.sub(r'forward_to_deserialize_any!\s*\{[^}]*\}', '', rest)
            got = [squeeze(l) for l in rest.split('\n') if squeeze(l)]
            if got != lines: raise Broken('besides fns and macro invocations the impl contains `%s`, expected `%s`' % (' '.join(got), ' '.join(lines)))
            if not tag.startswith('MapKey') and re.search(r'\b\w+!\s*[({]', top): raise Broken('a macro invocation inside the impl')
        except (Broken, ValueError, IndexError) as e:
            broken.append(('access:impl:' + tag, str(e)))
    # ---- deserialize_numeric_key! ------------------------------------------------------------------------------
    try:
        arm1, arm2 = macro_arms(src)
        def instance(name, delegate):
            if delegate is None: return parse_fn(name, 'val', arm1, SELF_DE, None)
            if not re.fullmatch(r'[a-z_][a-z0-9_]*', delegate): raise Broken('delegate `%s`' % delegate)
            return parse_fn(name, 'val', arm2.replace('$delegate', delegate), SELF_DE, None)
        inh = macro_instances(top_level(blocks['MapKey/I']), 'impl MapKey')
        if inh != {'deserialize_number': [(None, 'deserialize_number')]}:
            raise Broken('impl MapKey: instances are %s, expected deserialize_numeric_key!(deserialize_number, deserialize_number);' % inh)
        bodies['MapKey::deserialize_number'] = instance('MapKey::deserialize_number', 'deserialize_number')
        inst = macro_instances(top_level(blocks['MapKey']), 'impl de::Deserializer for MapKey')
        if sorted(inst) != sorted(NUMERIC):
            raise Broken('instances are %s, the Deserializer trait needs %s' % (sorted(inst), sorted(NUMERIC)))
        for m, alts in inst.items():
            name = 'MapKey::' + m
            if len(alts) == 1 and alts[0][0] is None:
                bodies[name] = instance(name, alts[0][1])
            elif len(alts) == 2 and sorted(a[0] for a in alts) == ['feature = "float_roundtrip"', 'not(feature = "float_roundtrip")']:
                on = [d for c, d in alts if c == 'feature = "float_roundtrip"'][0]
                off = [d for c, d in alts if c != 'feature = "float_roundtrip"'][0]
                bodies[name] = [('ifroundtrip', instance(name, on), instance(name, off))]
            else:
                raise Broken('instances of %s: %s' % (m, alts))
    except (Broken, ValueError, IndexError) as e:
        broken.append(('access:deserialize_numeric_key!', str(e)))
    # ---- forward_to_deserialize_any! -----------------------------------------------------------------------------
    try:
        top = top_level(blocks['MapKey'])
        fw = re.findall(r'forward_to_deserialize_any!\s*\{([^}]*)\}', top)
        if len(fw) != 1: raise Broken('expected exactly one forward_to_deserialize_any! list, found %d' % len(fw))
        names = ['deserialize_' + w for w in fw[0].split()]
        if len(set(names)) != len(names): raise Broken('a method listed twice')
        written = [f for n, (impl, f, *_) in FNS.items() if impl == 'MapKey']
        have = written + NUMERIC + names
        if sorted(have) != sorted(TRAIT_METHODS):
            raise Broken('fns + deserialize_numeric_key! instances + forwarded methods are not the 31 methods of serde::Deserializer: missing %s, extra %s'
                         % (sorted(set(TRAIT_METHODS) - set(have)), sorted(x for x in have if have.count(x) > 1 or x not in TRAIT_METHODS)))
        if 'use serde::forward_to_deserialize_any;' not in src: raise Broken('forward_to_deserialize_any is not serde\'s macro')
        for n in names:
            bodies['MapKey::' + n] = [('ret', ('call', 'TgSelf', 'MapKey::deserialize_any'))]
    except (Broken, ValueError, IndexError) as e:
        broken.append(('access:forward_to_deserialize_any!', str(e)))
    # ---- pins ---------------------------------------------------------------------------------------------------
    for name, (header, want) in STRUCTS.items():
        try:
            ms = list(re.finditer(header, src, re.M))
            if len(ms) != 1: raise Broken('expected exactly one `%s`, found %d' % (header, len(ms)))
            got = squeeze(block_at(src, ms[0].end() - 1)[0])
            if got != want: raise Broken('fields are `%s`, the translation assumes `%s`' % (got, want))
        except (Broken, ValueError, IndexError) as e:
            broken.append(('access:struct:' + name, str(e)))
    try:
        err = '\n'.join('' if l.lstrip().startswith('//') else l for l in open(os.path.join(repo, 'src', 'error.rs'), encoding='utf-8').read().split('\n'))
        for what, header, want in td.PINNED_TEXT['error.rs']:
            ms = list(re.finditer(header, err, re.M))
            if len(ms) != 1: raise Broken('expected exactly one `%s`, found %d' % (header, len(ms)))
            got = squeeze(strip_comments(block_at(err, ms[0].end() - 1)[0]))
            if got != want: raise Broken('text is `%s`, the interpreter assumes `%s`' % (got, want))
    except (Broken, ValueError, IndexError, OSError) as e:
        broken.append(('access:pinned:Error::fix_position', str(e)))
    save = ts.PINNED
    ts.PINNED = {k: td.PINNED[k] for k in ('peek', 'eat_char', 'error', 'peek_error', 'fix_position')}
    try:
        broken += ts.check_pinned(repo, src, 'access')
    finally:
        ts.PINNED = save
    return bodies, broken

# ---- Coq output -------------------------------------------------------------------------------------------------------------
q, opt, coq_bp, coq_pat, b, nl, coq_rpat = ts.q, ts.opt, ts.coq_bp, ts.coq_pat, td.b, td.nl, td.coq_rpat
def coq_arms(arms, fp, ind):
    pad = ' ' * ind
    return '[\n' + pad + (';\n' + pad).join('(%s, %s)' % (fp(p), coq_ax(e, ind + 2)) for p, e in arms) + ']'
def coq_cond(c):
    return 'CFirst' if c[0] == 'first' else '(CEqLit %s %d)' % (q(c[1]), c[2])
def coq_ax(e, ind):
    k = e[0]
    if k == 'visit':
        f = e[1]
        return '(AVisit %s)' % (f[0] if len(f) == 1 else '(%s %s)' % (f[0], b(f[1])))
    if k == 'strvisit': return '(AStrVisit %s %s)' % (e[1], e[2])
    if k == 'seed': return '(ASeed %s)' % e[1]
    if k == 'call': return '(ACall %s %s)' % (e[1], q(e[2]))
    if k == 'ok': return '(AOk %s)' % q(e[1])
    if k == 'oksometri': return '(AOkSomeTri %s)' % coq_ax(e[1], ind)
    if k == 'oknone': return 'AOkNone'
    if k == 'okbool': return '(AOkBool %s)' % b(e[1])
    if k == 'okunit': return 'AOkUnit'
    if k == 'okpair': return '(AOkPairSelf %s)' % q(e[1])
    if k == 'err': return '(AErr %s)' % q(e[1])
    if k == 'errfix': return '(AErrFix %s)' % q(e[1])
    if k == 'errcode': return '(AErrCode %s %s)' % (b(e[1]), e[2])
    if k == 'errinvalid': return 'AErrInvalidType'
    if k == 'var': return '(AVar %s)' % q(e[1])
    if k == 'block': return '(ABlock %s %s)' % (coq_block(e[1], ind + 2), coq_ax(e[2], ind + 2))
    if k == 'xret': return '(ARet %s)' % coq_ax(e[1], ind)
    if k == 'if':
        pad = ' ' * (ind + 2)
        return '(AIf %s %s\n%s%s)' % (coq_cond(e[1]), coq_ax(e[2], ind + 2), pad, coq_ax(e[3], ind + 2))
    if k == 'iftri': return '(AIfTri %s %s %s)' % (coq_ax(e[1], ind), coq_ax(e[2], ind + 2), coq_ax(e[3], ind + 2))
    if k == 'matchbyte': return '(AMatchByte %s %s)' % (q(e[1]), coq_arms(e[2], coq_bp, ind + 2))
    if k == 'matchres': return '(AMatchRes %s %s)' % (q(e[1]), coq_arms(e[2], coq_rpat, ind + 2))
    if k == 'matchws': return '(AMatchWs %s)' % coq_arms(e[1], coq_pat, ind + 2)
    raise Broken('internal: ' + k)
def coq_stmt(s, ind):
    k = s[0]
    if k == 'eat': return 'SEat'
    if k == 'tryident': return 'STryIdent %s' % nl(s[1])
    if k == 'trycolon': return 'STryColon'
    if k == 'letws': return 'SLetWs %s %s' % (q(s[1]), coq_ax(s[2], ind + 2))
    if k == 'letpeek': return 'SLetPeek %s %s' % (q(s[1]), coq_ax(s[2], ind + 2))
    if k == 'matchpeek':
        pad = ' ' * (ind + 2)
        return 'SMatchPeek [\n' + pad + (';\n' + pad).join('(%s, %s)' % (coq_pat(p), coq_block(ss, ind + 4)) for p, ss in s[1]) + ']'
    if k == 'let': return 'SLet %s %s' % (q(s[1]), coq_ax(s[2], ind + 2))
    if k == 'lettri': return 'SLetTri %s %s' % (q(s[1]), coq_ax(s[2], ind + 2))
    if k == 'letstr': return 'SLetStr %s' % q(s[1])
    if k == 'setfirst': return 'SSetFirst %s' % b(s[1])
    if k == 'iftoken': return 'SIfToken %s' % coq_block(s[1], ind + 2)
    if k == 'ifroundtrip': return 'SIfRoundtrip %s %s' % (coq_block(s[1], ind + 2), coq_block(s[2], ind + 2))
    if k == 'ret': return 'SRet %s' % coq_ax(s[1], ind + 2)
    raise Broken('internal: ' + k)
def coq_block(ss, ind):
    if not ss: return '[]'
    if len(ss) <= 2 and all(s[0] in ('eat', 'tryident', 'trycolon', 'setfirst', 'letstr') or
                            (s[0] == 'ret' and s[1][0] in ('call', 'seed', 'errcode', 'okunit', 'errinvalid', 'ok', 'visit')) for s in ss):
        return '[' + '; '.join(coq_stmt(s, ind) for s in ss) + ']'
    pad = ' ' * ind
    return '[\n' + pad + (';\n' + pad).join(coq_stmt(s, ind) for s in ss) + ']'

def order(bodies):
    names = ['SeqAccess::has_next_element', 'SeqAccess::next_element_seed', 'MapAccess::has_next_key', 'MapAccess::next_key_seed', 'MapAccess::next_value_seed']
    names += [n for n in FNS if n.split('::')[0] in ('VariantAccess', 'UnitVariantAccess')]
    names += ['MapKey::deserialize_number'] + ['MapKey::' + m for m in TRAIT_METHODS]
    return [n for n in names if n in bodies]

def ident_of(name):
    return 'ACC_' + name.replace('::', '_')

def emit(bodies):
    L = ['(* Gen/AccessTables.v — GENERATED by tools/translate_access.py from /repo/src/de.rs on every run. Do not edit.',
         '   The bodies of SeqAccess::next_element_seed (+ has_next_element), MapAccess::next_key_seed (+ has_next_key) / next_value_seed,',
         '   VariantAccess / UnitVariantAccess (variant_seed, unit_variant, newtype_variant_seed, tuple_variant, struct_variant) and of',
         '   `impl de::Deserializer for MapKey` (every deserialize_numeric_key! instance, the forward_to_deserialize_any! list), statement by statement',
         '   (AST: Model/AccessAst.v). *)',
         'From Coq Require Import List NArith String.', 'From SJ Require Import Base.Bytes Model.ScanAst Model.DeAst Model.AccessAst.', 'Import ListNotations.',
         'Local Open Scope string_scope.', 'Local Open Scope N_scope.', '']
    names = order(bodies)
    if sorted(names) != sorted(bodies): raise Broken('internal: unordered bodies %s' % sorted(set(bodies) - set(names)))
    for n in names:
        L.append('Definition %s : afn := mkA %s.' % (ident_of(n), coq_block(bodies[n], 2)))
        L.append('')
    L.append('Definition ACCESS_TABLE : atable := [')
    L.append(';\n'.join('  (%s, %s)' % (q(n), ident_of(n)) for n in names))
    L.append('].')
    L.append('')
    return '\n'.join(L)

def main():
    ap = argparse.ArgumentParser()
    ap.add_argument('--repo', default=os.environ.get('VERIF_REPO', '/repo'))
    ap.add_argument('--out', default=os.path.join(os.path.dirname(os.path.abspath(__file__)), '..', 'coq', 'theories', 'Gen', 'AccessTables.v'))
    a = ap.parse_args()
    bodies, broken = translate(a.repo)
    for name, why in broken:
        print('BROKEN %s: %s' % (name, why))
    if broken:
        return 3
    text = emit(bodies)
    old = open(a.out).read() if os.path.exists(a.out) else None
    if old != text:
        with open(a.out, 'w') as f:
            f.write(text)
        print('UPDATED ' + os.path.relpath(a.out))
    return 0

if __name__ == '__main__':
    sys.exit(main())
