#!/usr/bin/env python3
"""translate_vde.py — regenerates coq/theories/Gen/VdeTables.v from /repo/src/value/de.rs (+ raw::TOKEN / number::TOKEN, the tri! macro and
the std-or-alloc compile_error! of lib.rs) on every run.

`Value` as a serde Deserializer — the code behind `from_value::<T>(v)` and `T::deserialize(&v)` — is translated into the decision structures
of Model/VdeAst.v:

  (1) the 31 methods of `impl<'de> serde::Deserializer<'de> for Value` and of `impl<'de> serde::Deserializer<'de> for &'de Value`
        BODY   ::= { [drop(self);] EXPR }                                       (drop(self) only in the owned impl)
        EXPR   ::= match self | *self { ARM* }  |  ACTION
                 | #[cfg(feature = "raw_value")] { if name == crate::raw::TOKEN { return ACTION; } } let _ = name; EXPR
        ARM    ::= [#[cfg(any(feature = "std", feature = "alloc"))] | #[cfg(not(any(..)))]] PAT => ACTION,
        PAT    ::= Value::Null | Value::Bool(b) | Value::Number(b) | Value::String(b | _) | Value::Array(b) | Value::Object(b) | _ | other
        ACTION ::= visitor.visit_unit() | visitor.visit_none() | visitor.visit_bool(b | *b) | visitor.visit_string(b) | visitor.visit_borrowed_str(b)
                 | visitor.visit_some(self) | visitor.visit_newtype_struct(self) | b.deserialize_any(visitor) | b.$method(visitor)
                 | visit_array(b, visitor) | visit_array_ref(b, visitor) | b.deserialize_enum(name, variants, visitor)
                 | visitor.visit_enum(Enum[Ref]Deserializer { variant, value: None }) | Err(self.invalid_type(&visitor))
                 | Err(serde::de::Error::invalid_type(other.unexpected(), &"..")) | self.deserialize_M(visitor) | unreachable!()
                 | visitor.visit_map(crate::raw::OwnedRawDeserializer { raw_value: Some(self.to_string()) })
      with the typing the interpreter relies on: a payload `b` is used only in the arm whose pattern binds it and only by an action that
      takes that payload type (visit_bool in the Bool arm, ..); visit_string / visit_array / EnumDeserializer only in the owned impl,
      visit_borrowed_str / visit_array_ref / EnumRefDeserializer / `match *self` only in the by-reference impl.
      The macros deserialize_number! and deserialize_value_ref_number! (two cfg-gated `fn $method`) are translated once and instantiated.
  (h) visit_array, visit_array_ref, <Map as Deserializer>::deserialize_any, <&Map as Deserializer>::deserialize_any
        { let len = X.len(); let mut deserializer = D::new(X); let R = tri!(visitor.visit_seq|visit_map(&mut deserializer)); TAIL }
        TAIL ::= let remaining = deserializer.iter.len(); if remaining == 0 { Ok(R) } else { Err(serde::de::Error::invalid_length(len, &"..")) }
               | Ok(R)
      Map::deserialize_enum / deserialize_ignored_any / the forward_to_deserialize_any! list: exact text.
  (2) Enum[Ref]Deserializer::variant_seed (exact text) and the four methods of `impl VariantAccess for Variant[Ref]Deserializer`
        { match self.value { OARM* } }     OPAT ::= Some(value) | Some(Value::Array(v)) | Some(Value::Object(v)) | Some(other) | None
        XACTION ::= Deserialize::deserialize(value) | Ok(()) | seed.deserialize(value) | Err(serde::de::Error::invalid_type(Unexpected::UnitVariant | other.unexpected(), &".."))
                  | { if v.is_empty() { visitor.visit_unit() } else { visit_array[_ref](v, visitor) } } | v.deserialize_any(visitor)
  (3) Seq[Ref]Deserializer / Map[Ref]Deserializer: next_element_seed, next_key_seed, next_value_seed, size_hint, new, the structs: exact text -> class
  (4) `impl Deserializer for MapKeyDeserializer`: deserialize_numeric_key! instances (with their cfg and `$using`), the five written-out
      methods and the forward list by exact text -> class; the macro itself, BorrowedCowStrDeserializer, UnitOnly, KeyClassifier: exact text.
  Pinned by exact (whitespace-squeezed) text besides: ValueVisitor (`impl Deserialize for Value`), `impl Value { invalid_type, unexpected }`,
  the IntoDeserializer impls, tri!, the compile_error! of lib.rs that makes std-or-alloc unconditional.

A body outside the subset, a missing or an extra method: `BROKEN vde:<impl>:<method>: <why>`, exit status 3; the previous file is NOT rewritten.
Proofs/VdeSrc.v proves that Model/ValueDe.v equals the meaning of the generated tables.

Usage: translate_vde.py [--repo /repo] [--out <file>]
"""
import re, sys, os, argparse
sys.path.insert(0, os.path.dirname(os.path.abspath(__file__)))
import translate_fmt as tf
Broken, squeeze, block_at, find_block, methods_of, strip_comments = tf.Broken, tf.squeeze, tf.block_at, tf.find_block, tf.methods_of, tf.strip_comments

INTS = ['i8', 'i16', 'i32', 'i64', 'i128', 'u8', 'u16', 'u32', 'u64', 'u128']
METHODS = ['any', 'bool'] + INTS + ['f32', 'f64', 'char', 'str', 'string', 'bytes', 'byte_buf', 'option', 'unit', 'unit_struct',
                                    'newtype_struct', 'seq', 'tuple', 'tuple_struct', 'map', 'struct', 'enum', 'identifier', 'ignored_any']
# parameters (besides self) of each Deserializer method; a leading underscore is accepted
PARAMS = {m: ['visitor'] for m in METHODS}
PARAMS.update(unit_struct=['name', 'visitor'], newtype_struct=['name', 'visitor'], tuple=['len', 'visitor'], tuple_struct=['name', 'len', 'visitor'],
              struct=['name', 'fields', 'visitor'], enum=['name', 'variants', 'visitor'])

CFG_ALLOC = '#[cfg(any(feature = "std", feature = "alloc"))]'
CFG_NOALLOC = '#[cfg(not(any(feature = "std", feature = "alloc")))]'
CFG_AP = '#[cfg(feature = "arbitrary_precision")]'
CFG_NOTAP = '#[cfg(not(feature = "arbitrary_precision"))]'
CFG_FR = '#[cfg(feature = "float_roundtrip")]'
CFG_NOTFR = '#[cfg(not(feature = "float_roundtrip"))]'
CFGS = {None: 'CAlways', CFG_ALLOC: 'CAlloc', CFG_NOALLOC: 'CNoAlloc', CFG_AP: 'CAp', CFG_NOTAP: 'CNotAp', CFG_FR: 'CFr', CFG_NOTFR: 'CNotFr'}

def norm(s):
    """squeezed text; rustfmt's line breaks inside method chains, after `(` and the trailing commas before `)` / `}` removed"""
    s = re.sub(r' \.(?=[A-Za-z_])', '.', squeeze(s))
    return s.replace('( ', '(').replace(', )', ')').replace(', }', ' }')

# ---------------------------------------------------------------------------------------------------------------- items of an impl block
def items_of(block):
    """the items directly inside a `{ .. }` block, in order:
       ('fn', name, [attrs], header, body) | ('macro', name, [args], [attrs]) | ('type', name, rhs) | ('forward', [names])"""
    inner, i, out, attrs = block[1:-1], 0, [], []
    n = len(inner)
    while True:
        while i < n and inner[i].isspace():
            i += 1
        if i >= n:
            break
        if inner.startswith('#[', i):
            depth, j = 0, i + 1
            while True:
                depth += {'[': 1, ']': -1}.get(inner[j], 0)
                j += 1
                if depth == 0:
                    break
            attrs.append(squeeze(inner[i:j]))
            i = j
            continue
        m = re.compile(r'fn (\$?\w+)').match(inner, i)
        if m:
            k = inner.index('(', m.end())
            depth, j = 0, k
            while True:
                depth += {'(': 1, ')': -1}.get(inner[j], 0)
                j += 1
                if depth == 0:
                    break
            b = inner.index('{', j)
            semi = inner.find(';', j)
            if semi != -1 and semi < b:
                raise Broken('fn %s has no body' % m.group(1))
            body, e = block_at(inner, b)
            out.append(('fn', m.group(1), attrs, norm(inner[i:b]), norm(strip_comments(body))))
            attrs, i = [], e
            continue
        m = re.compile(r'type (\w+) = ([^;]+);').match(inner, i)
        if m:
            if attrs: raise Broken('attribute on `type %s`' % m.group(1))
            out.append(('type', m.group(1), squeeze(m.group(2))))
            i = m.end()
            continue
        m = re.compile(r'forward_to_deserialize_any!\s*\{([^}]*)\}').match(inner, i)
        if m:
            if attrs: raise Broken('attribute on forward_to_deserialize_any!')
            out.append(('forward', m.group(1).split()))
            i = m.end()
            continue
        m = re.compile(r'(\w+)!\s*\(([^()]*)\);').match(inner, i)
        if m:
            out.append(('macro', m.group(1), [squeeze(a) for a in m.group(2).split(',')], attrs))
            attrs, i = [], m.end()
            continue
        raise Broken('item outside the subset: `%s`' % squeeze(inner[i:i + 60]))
    if attrs:
        raise Broken('dangling attribute %s' % attrs)
    return out

def fn_params(header):
    """parameter names (without self) of a normalised fn header"""
    k = header.index('(')
    depth, j = 0, k
    while True:
        depth += {'(': 1, ')': -1}.get(header[j], 0)
        j += 1
        if depth == 0:
            break
    ps = [squeeze(p) for p in header[k + 1:j - 1].split(',') if squeeze(p)]
    if not ps or ps[0] != 'self':
        raise Broken('receiver is `%s`, expected `self`' % (ps[0] if ps else ''))
    names = []
    for p in ps[1:]:
        m = re.fullmatch(r'(\w+): .+', p)
        if not m: raise Broken('parameter `%s`' % p)
        names.append(m.group(1))
    return names

# ---------------------------------------------------------------------------------------------------------------- (1) bodies
PATS = [(r'Value::Null', 'PNull', None), (r'Value::Bool\((\w+)\)', 'PBool', 1), (r'Value::Number\((\w+)\)', 'PNumber', 1),
        (r'Value::String\((\w+)\)', 'PString', 1), (r'Value::Array\((\w+)\)', 'PArray', 1), (r'Value::Object\((\w+)\)', 'PObject', 1),
        (r'_(?= =>)', 'PWild', None), (r'other(?= =>)', 'PWild', 0)]

class VP(tf.P):
    def __init__(self, s, side, params, macro):
        tf.P.__init__(self, s)
        self.side, self.params, self.macro = side, params, macro          # side: 'owned' | 'ref'
    def here(self):
        return self.s[self.i:self.i + 60]

    def action(self, kind, binder, deref):
        """kind: the vpat of the enclosing arm (None at top level); binder: the name its pattern binds (None / '_' if none);
           deref: the arm is under `match self` in the by-reference impl (a Copy payload needs `*`)"""
        def need_binder(k, what):
            if kind != k or binder in (None, '_'):
                raise Broken('%s outside a `%s` arm that binds its payload' % (what, k))
        if self.eat('visitor.visit_unit()'): return 'AVisitUnit'
        if self.eat('visitor.visit_none()'): return 'AVisitNone'
        m = self.rx(r'visitor\.visit_bool\((\*?)(\w+)\)')
        if m:
            need_binder('PBool', 'visit_bool')
            if m.group(2) != binder: raise Broken('visit_bool(%s): the arm binds `%s`' % (m.group(2), binder))
            if (m.group(1) == '*') != deref: raise Broken('visit_bool(%s%s): wrong dereference for this scrutinee' % (m.group(1), m.group(2)))
            return 'AVisitBool'
        m = self.rx(r'visitor\.(visit_string|visit_borrowed_str)\((\w+)\)')
        if m:
            need_binder('PString', m.group(1))
            if m.group(2) != binder: raise Broken('%s(%s): the arm binds `%s`' % (m.group(1), m.group(2), binder))
            if (m.group(1) == 'visit_string') != (self.side == 'owned'):
                raise Broken('%s in the %s impl' % (m.group(1), self.side))
            return 'AVisitString' if m.group(1) == 'visit_string' else 'AVisitBorrowedStr'
        if self.eat('visitor.visit_some(self)'): return 'AVisitSome'
        if self.eat('visitor.visit_newtype_struct(self)'): return 'AVisitNewtype'
        if self.eat('visitor.visit_map(crate::raw::OwnedRawDeserializer { raw_value: Some(self.to_string()) })'): return 'AVisitRawMap'
        m = self.rx(r'(visit_array|visit_array_ref)\((\w+), visitor\)')
        if m:
            need_binder('PArray', m.group(1))
            if m.group(2) != binder: raise Broken('%s(%s, ..): the arm binds `%s`' % (m.group(1), m.group(2), binder))
            if (m.group(1) == 'visit_array') != (self.side == 'owned'):
                raise Broken('%s in the %s impl' % (m.group(1), self.side))
            return 'AVisitArray ' + ('HVisitArray' if m.group(1) == 'visit_array' else 'HVisitArrayRef')
        m = self.rx(r'visitor\.visit_enum\((EnumDeserializer|EnumRefDeserializer) \{ variant, value: None \}\)')
        if m:
            need_binder('PString', 'visit_enum')
            if binder != 'variant': raise Broken('`%s { variant, .. }`: the arm binds `%s`' % (m.group(1), binder))
            if (m.group(1) == 'EnumDeserializer') != (self.side == 'owned'):
                raise Broken('%s in the %s impl' % (m.group(1), self.side))
            return 'AVisitEnumUnit ' + ('EnumOwned' if m.group(1) == 'EnumDeserializer' else 'EnumRef')
        if self.eat('Err(self.invalid_type(&visitor))'): return 'AInvalidType'
        m = self.rx(r'Err\(serde::de::Error::invalid_type\((\w+)\.unexpected\(\), &"[^"\\]*"\)\)')
        if m:
            if kind != 'PWild' or binder != m.group(1): raise Broken('`%s.unexpected()` outside an arm that binds `%s`' % (m.group(1), m.group(1)))
            return 'AInvalidTypeExp'
        if self.eat('unreachable!()'): return 'AUnreachable'
        m = self.rx(r'self\.deserialize_(\w+)\(visitor\)')
        if m:
            if m.group(1) not in METHODS: raise Broken('unknown method deserialize_%s' % m.group(1))
            if PARAMS[m.group(1)] != ['visitor']: raise Broken('deserialize_%s takes more than the visitor' % m.group(1))
            return 'ASelfMethod d_' + m.group(1)
        m = self.rx(r'(\w+)\.deserialize_enum\(name, variants, visitor\)')
        if m:
            need_binder('PObject', 'deserialize_enum on the map')
            if m.group(1) != binder: raise Broken('%s.deserialize_enum: the arm binds `%s`' % (m.group(1), binder))
            if 'name' not in self.params or 'variants' not in self.params: raise Broken('`name` / `variants` are not parameters of the method')
            return 'AMapEnum'
        m = self.rx(r'(\w+)\.(deserialize_any|\$method)\(visitor\)')
        if m:
            if m.group(1) != binder or binder in (None, '_', 'self'): raise Broken('%s.%s: the arm binds `%s`' % (m.group(1), m.group(2), binder))
            if m.group(2) == '$method':
                if not self.macro: raise Broken('$method outside a macro')
                need_binder('PNumber', 'n.$method')
                return 'ANumberSame'
            if kind == 'PNumber': return 'ANumberAny'
            if kind == 'PObject': return 'AMapAny'
            raise Broken('%s.deserialize_any(visitor) in a `%s` arm' % (binder, kind))
        raise Broken('action outside the subset: `%s`' % self.here())

    def arms(self, deref):
        out = []
        while not self.eat('}'):
            cfg = None
            m = self.rx(r'#\[cfg\([^\]]*\)\]')
            if m:
                cfg = m.group(0)
                if cfg not in (CFG_ALLOC, CFG_NOALLOC): raise Broken('attribute `%s` on a match arm' % cfg)
            for rx, kind, b in PATS:
                m = self.rx(rx)
                if m:
                    binder = m.group(1) if b == 1 else ('other' if b == 0 else None)
                    break
            else:
                raise Broken('pattern outside the subset: `%s`' % self.here())
            self.need('=>')
            a = self.action(kind, binder, deref and kind == 'PBool')
            if not self.eat(','):
                self.ws()
                if not self.s.startswith('}', self.i): raise Broken('`,` expected after a match arm at `%s`' % self.here())
            out.append((CFGS[cfg], kind, a))
        if not out: raise Broken('match without arms')
        return out

    def expr(self):
        if self.eat('#[cfg(feature = "raw_value")] { if name == crate::raw::TOKEN { return'):
            if 'name' not in self.params: raise Broken('`name` is not a parameter of the method')
            a = self.action(None, None, False)
            self.need(';'); self.need('}'); self.need('}'); self.need('let _ = name;')
            return 'BRawGate (%s) (%s)' % (a, self.expr())
        if self.eat('match self {'):
            return 'BMatch [%s]' % '; '.join('(%s, %s, %s)' % x for x in self.arms(self.side == 'ref'))
        if self.eat('match *self {'):
            if self.side != 'ref': raise Broken('`match *self` in the owned impl')
            return 'BMatch [%s]' % '; '.join('(%s, %s, %s)' % x for x in self.arms(False))
        return 'BDo (%s)' % self.action(None, None, False)

def parse_body(body, side, params, macro=False):
    p = VP(body, side, params, macro)
    p.need('{')
    if p.eat('drop(self);'):
        if side != 'owned': raise Broken('drop(self) in the by-reference impl')
    e = p.expr()
    p.need('}')
    p.ws()
    if p.i != len(p.s): raise Broken('trailing text after the body: `%s`' % p.here())
    return e

VISITOR_SIG = r"<V>\(self, (.*)\) -> Result<V::Value, (?:Self::)?Error> where V: Visitor<'de>,?"

def check_sig(name, header, short):
    m = re.fullmatch(r'fn ' + re.escape(name) + VISITOR_SIG, header)
    if not m: raise Broken('signature `%s`' % header)
    got = fn_params(header)
    want = PARAMS[short]
    if [g.lstrip('_') for g in got] != want: raise Broken('parameters %s, expected %s' % (got, want))
    return [g for g in got if not g.startswith('_')]

def parse_number_macro(src, name):
    """macro_rules! NAME { ($method:ident) => { two cfg-gated fn $method }; } -> [(cfg, header, body)]"""
    blk = norm(strip_comments(find_block(src, r'\bmacro_rules! %s\s*\{' % name)))
    m = re.fullmatch(r'\{ \(\$method:ident\) => (\{.*\}); \}', blk)
    if not m: raise Broken('macro %s is not `($method:ident) => { .. };`' % name)
    its = items_of(m.group(1))
    out = []
    for it in its:
        if it[0] != 'fn' or it[1] != '$method': raise Broken('macro %s: item `%s`' % (name, it[1]))
        if len(it[2]) != 1 or it[2][0] not in (CFG_AP, CFG_NOTAP): raise Broken('macro %s: attributes %s' % (name, it[2]))
        out.append((CFGS[it[2][0]], it[3], it[4]))
    if sorted(c for c, _, _ in out) != ['CAp', 'CNotAp']: raise Broken('macro %s: expected one fn per arbitrary_precision setting' % name)
    return out

def translate_impl(src, tag, side, header, macros):
    """-> [(method, cfg, body)] in METHODS order"""
    broken, got = [], {}
    try:
        items = items_of(find_block(src, header))
    except (Broken, ValueError, IndexError) as e:
        return None, [('vde:%s:block' % tag, str(e))]
    types = [it for it in items if it[0] == 'type']
    if [(t[1], t[2]) for t in types] != [('Error', 'Error')]:
        broken.append(('vde:%s:type' % tag, 'expected exactly `type Error = Error;`'))
    for it in items:
        try:
            if it[0] == 'type':
                continue
            if it[0] == 'forward':
                raise Broken('forward_to_deserialize_any! in a Value impl (the model has every method written out)')
            if it[0] == 'macro':
                mname, args, attrs = it[1], it[2], it[3]
                if mname not in macros: raise Broken('macro %s! is not one of %s' % (mname, sorted(macros)))
                if attrs: raise Broken('attribute %s on %s!' % (attrs, mname))
                if len(args) != 1 or not args[0].startswith('deserialize_') or args[0][12:] not in INTS + ['f32', 'f64']:
                    raise Broken('%s!(%s)' % (mname, ', '.join(args)))
                short = args[0][12:]
                if short in got: raise Broken('deserialize_%s defined twice' % short)
                got[short] = []
                for cfg, hdr, body in macros[mname]:
                    check_sig('$method', hdr, short)
                    got[short].append((cfg, parse_body(body, side, ['visitor'], macro=True)))
                continue
            name, attrs, hdr, body = it[1], it[2], it[3], it[4]
            if not name.startswith('deserialize_') or name[12:] not in METHODS: raise Broken('method outside the 31 of serde::Deserializer')
            short = name[12:]
            if [a for a in attrs if a != '#[inline]']: raise Broken('attributes %s' % attrs)
            if short in got: raise Broken('defined twice')
            params = check_sig(name, hdr, short)
            got[short] = [('CAlways', parse_body(body, side, params))]
        except (Broken, ValueError, IndexError) as e:
            broken.append(('vde:%s:%s' % (tag, it[1] if it[0] != 'macro' else '%s!(%s)' % (it[1], ', '.join(it[2]))), str(e)))
    for m in METHODS:
        if m not in got and not any(b[0].endswith(':deserialize_' + m) or ('(deserialize_%s)' % m) in b[0] for b in broken):
            broken.append(('vde:%s:deserialize_%s' % (tag, m), 'method missing (serde has no default; or it moved into a macro the translator does not know)'))
    if broken:
        return None, broken
    return [(m, c, b) for m in METHODS for c, b in got[m]], []

# ---------------------------------------------------------------------------------------------------------------- (h) helpers
ACCESS = {'SeqDeserializer': 'AccSeq', 'SeqRefDeserializer': 'AccSeqRef', 'MapDeserializer': 'AccMap', 'MapRefDeserializer': 'AccMapRef'}

def parse_helper(body, arg, want_access, want_visit):
    m = re.fullmatch(r'\{ let len = (\w+)\.len\(\); let mut deserializer = (\w+)::new\((\w+)\); let (\w+) = tri!\(visitor\.(visit_seq|visit_map)\(&mut deserializer\)\); (.*) \}', body)
    if not m: raise Broken('body of another shape: `%s`' % body[:120])
    if m.group(1) != arg or m.group(3) != arg: raise Broken('the deserializer is not built from `%s`' % arg)
    if m.group(2) != want_access: raise Broken('builds a %s, expected %s' % (m.group(2), want_access))
    if m.group(5) != want_visit: raise Broken('calls %s, expected %s' % (m.group(5), want_visit))
    r, tail = m.group(4), m.group(6)
    if tail == 'Ok(%s)' % r:
        left = 'LeftoverIgnored'
    elif re.fullmatch(r'let remaining = deserializer\.iter\.len\(\); if remaining == 0 \{ Ok\(%s\) \} else \{ Err\(serde::de::Error::invalid_length\(len, &"[^"\\]*"\)\) \}' % r, tail):
        left = 'LeftoverIsInvalidLength'
    else:
        raise Broken('tail of another shape: `%s`' % tail[:120])
    return 'mkHelper %s %s %s' % (ACCESS[m.group(2)], 'VisitSeq' if m.group(5) == 'visit_seq' else 'VisitMap', left)

def top_fn(src, name, sig_re):
    ms = list(re.finditer(r'^fn %s%s' % (name, sig_re), src, re.M))
    if len(ms) != 1: raise Broken('expected exactly one `fn %s` with the pinned signature, found %d' % (name, len(ms)))
    return norm(strip_comments(block_at(src, src.index('{', ms[0].end() - 1))[0]))

FORWARD_MAP = ('bool i8 i16 i32 i64 i128 u8 u16 u32 u64 u128 f32 f64 char str string bytes byte_buf option unit unit_struct newtype_struct seq tuple '
               'tuple_struct map struct identifier').split()
def map_enum_text(twin):
    return ('{ let mut iter = self.into_iter(); let (variant, value) = match iter.next() { Some(v) => v, None => { return '
            'Err(serde::de::Error::invalid_value(Unexpected::Map, &"map with a single key")); } }; if iter.next().is_some() { return '
            'Err(serde::de::Error::invalid_value(Unexpected::Map, &"map with a single key")); } visitor.visit_enum(%s { variant, value: Some(value) }) }' % twin)

def translate_map_impl(src, tag, header, side):
    out, broken = {}, []
    try:
        items = items_of(find_block(src, header))
    except (Broken, ValueError, IndexError) as e:
        return None, [('vde:%s:block' % tag, str(e))]
    fns = {it[1]: it for it in items if it[0] == 'fn'}
    def chk(name, f):
        try:
            if name not in fns: raise Broken('method missing (forward_to_deserialize_any! or nothing would apply)')
            if [a for a in fns[name][2] if a != '#[inline]']: raise Broken('attributes %s' % fns[name][2])
            f(fns[name][3], fns[name][4])
        except (Broken, ValueError, IndexError) as e:
            broken.append(('vde:%s:%s' % (tag, name), str(e)))
    def f_any(h, b):
        check_sig('deserialize_any', h, 'any')
        out['any'] = parse_helper(b, 'self', 'MapRefDeserializer' if side == 'ref' else 'MapDeserializer', 'visit_map')
    def f_enum(h, b):
        check_sig('deserialize_enum', h, 'enum')
        twin = 'EnumRefDeserializer' if side == 'ref' else 'EnumDeserializer'
        if b != map_enum_text(twin): raise Broken('body differs from the pinned text (exactly one entry, else invalid_value; visit_enum(%s { variant, value: Some(value) }))' % twin)
        out['enum'] = 'MapEnumSingleEntry ' + ('EnumRef' if side == 'ref' else 'EnumOwned')
    def f_ign(h, b):
        check_sig('deserialize_ignored_any', h, 'ignored_any')
        if b != ('{ visitor.visit_unit() }' if side == 'ref' else '{ drop(self); visitor.visit_unit() }'): raise Broken('body is `%s`' % b)
    chk('deserialize_any', f_any); chk('deserialize_enum', f_enum); chk('deserialize_ignored_any', f_ign)
    extra = sorted(set(fns) - {'deserialize_any', 'deserialize_enum', 'deserialize_ignored_any'})
    if extra: broken.append(('vde:%s:extra' % tag, 'methods outside the table: ' + ', '.join(extra)))
    if [it for it in items if it[0] == 'macro']: broken.append(('vde:%s:macro' % tag, 'macro invocation in the impl'))
    if [(t[1], t[2]) for t in items if t[0] == 'type'] != [('Error', 'Error')]: broken.append(('vde:%s:type' % tag, 'expected exactly `type Error = Error;`'))
    if [it[1] for it in items if it[0] == 'forward'] != [FORWARD_MAP]:
        broken.append(('vde:%s:forward' % tag, 'forward_to_deserialize_any! list differs from the pinned one'))
    return out, broken

# ---------------------------------------------------------------------------------------------------------------- (2) enum / variant access
VARIANT_SIGS = {
    'unit_variant': 'fn unit_variant(self) -> Result<(), Error>',
    'newtype_variant_seed': "fn newtype_variant_seed<T>(self, seed: T) -> Result<T::Value, Error> where T: DeserializeSeed<'de>,",
    'tuple_variant': "fn tuple_variant<V>(self, _len: usize, visitor: V) -> Result<V::Value, Error> where V: Visitor<'de>,",
    'struct_variant': "fn struct_variant<V>(self, _fields: &'static [&'static str], visitor: V) -> Result<V::Value, Error> where V: Visitor<'de>,",
}
OPATS = [(r'Some\(value\)', 'OSomeAny', 'value'), (r'Some\(Value::Array\(v\)\)', 'OSomeArray', 'v'), (r'Some\(Value::Object\(v\)\)', 'OSomeObject', 'v'),
         (r'Some\(other\)', 'OSomeAny', 'other'), (r'None', 'ONone', None)]

def parse_variant_method(name, body, side):
    p = tf.P(body)
    p.need('{'); p.need('match self.value {')
    arms = []
    va = 'visit_array_ref' if side == 'ref' else 'visit_array'
    while not p.eat('}'):
        for rx, pat, binder in OPATS:
            if p.rx(rx): break
        else:
            raise Broken('pattern outside the subset: `%s`' % p.s[p.i:p.i + 50])
        p.need('=>')
        block_arm = False
        if p.eat('Deserialize::deserialize(value)'):
            if name != 'unit_variant' or binder != 'value': raise Broken('Deserialize::deserialize(value) outside unit_variant / a `Some(value)` arm')
            a = 'XUnitFromValue'
        elif p.eat('Ok(())'):
            if name != 'unit_variant': raise Broken('Ok(()) outside unit_variant')
            a = 'XOkUnit'
        elif p.eat('seed.deserialize(value)'):
            if name != 'newtype_variant_seed' or binder != 'value': raise Broken('seed.deserialize(value) outside newtype_variant_seed / a `Some(value)` arm')
            a = 'XSeed'
        elif p.rx(r'Err\(serde::de::Error::invalid_type\(Unexpected::UnitVariant, &"[^"\\]*"\)\)'):
            if pat != 'ONone': raise Broken('Unexpected::UnitVariant in a `Some` arm')
            a = 'XInvalidType'
        elif p.rx(r'Err\(serde::de::Error::invalid_type\(other\.unexpected\(\), &"[^"\\]*"\)\)'):
            if binder != 'other': raise Broken('other.unexpected() outside a `Some(other)` arm')
            a = 'XInvalidType'
        elif p.eat('{ if v.is_empty() { visitor.visit_unit() } else { %s(v, visitor) } }' % va):
            if name != 'tuple_variant' or pat != 'OSomeArray': raise Broken('%s outside tuple_variant / a `Some(Value::Array(v))` arm' % va)
            a = 'XEmptyUnitElseArray ' + ('HVisitArrayRef' if side == 'ref' else 'HVisitArray')
            block_arm = True
        elif p.eat('v.deserialize_any(visitor)'):
            if name != 'struct_variant' or pat != 'OSomeObject': raise Broken('v.deserialize_any(visitor) outside struct_variant / a `Some(Value::Object(v))` arm')
            a = 'XMapAny'
        else:
            raise Broken('action outside the subset: `%s`' % p.s[p.i:p.i + 70])
        if not p.eat(',') and not block_arm:
            p.ws()
            if not p.s.startswith('}', p.i): raise Broken('`,` expected after a match arm at `%s`' % p.s[p.i:p.i + 40])
        arms.append('(%s, %s)' % (pat, a))
    p.need('}'); p.ws()
    if p.i != len(p.s): raise Broken('trailing text after the body')
    return '[%s]' % '; '.join(arms)

def translate_variant(src, side):
    lt = "<'de>" if side == 'ref' else ''
    vname = 'VariantRefDeserializer' if side == 'ref' else 'VariantDeserializer'
    ename = 'EnumRefDeserializer' if side == 'ref' else 'EnumDeserializer'
    out, broken = {}, []
    try:
        items = items_of(find_block(src, r"\bimpl<'de> EnumAccess<'de> for %s%s\s*\{" % (ename, lt)))
        fns = {it[1]: it for it in items if it[0] == 'fn'}
        if sorted(fns) != ['variant_seed'] or len(items) != 3: raise Broken('expected type Error, type Variant, fn variant_seed')
        if sorted((t[1], t[2]) for t in items if t[0] == 'type') != sorted([('Error', 'Error'), ('Variant', vname + lt)]):
            raise Broken('associated types')
        want = '{ let variant = self.variant.into_deserializer(); let visitor = %s { value: self.value }; seed.deserialize(variant).map(|v| (v, visitor)) }' % vname
        if fns['variant_seed'][4] != want or fns['variant_seed'][2]: raise Broken('variant_seed: body is `%s`' % fns['variant_seed'][4])
        out['seed'] = 'VariantSeedIntoDeserializer ' + ('VariantRef' if side == 'ref' else 'VariantOwned')
    except (Broken, ValueError, IndexError) as e:
        broken.append(('vde:%s:variant_seed' % ename, str(e)))
    try:
        items = items_of(find_block(src, r"\bimpl<'de> VariantAccess<'de> for %s%s\s*\{" % (vname, lt)))
    except (Broken, ValueError, IndexError) as e:
        return out, broken + [('vde:%s:block' % vname, str(e))]
    fns = {it[1]: it for it in items if it[0] == 'fn'}
    if [(t[1], t[2]) for t in items if t[0] == 'type'] != [('Error', 'Error')] or len(items) != len(fns) + 1:
        broken.append(('vde:%s:items' % vname, 'expected `type Error = Error;` and methods only'))
    for name, sig in VARIANT_SIGS.items():
        try:
            if name not in fns: raise Broken('method missing')
            if fns[name][2]: raise Broken('attributes %s' % fns[name][2])
            if fns[name][3] != sig: raise Broken('signature `%s`' % fns[name][3])
            out[name] = parse_variant_method(name, fns[name][4], side)
        except (Broken, ValueError, IndexError) as e:
            broken.append(('vde:%s:%s' % (vname, name), str(e)))
    extra = sorted(set(fns) - set(VARIANT_SIGS))
    if extra: broken.append(('vde:%s:extra' % vname, 'methods outside the table: ' + ', '.join(extra)))
    return out, broken

# ---------------------------------------------------------------------------------------------------------------- (3) access classes
NEXT_ELEMENT = '{ match self.iter.next() { Some(value) => seed.deserialize(value).map(Some), None => Ok(None) } }'
def next_key(cowexpr):
    return ('{ match self.iter.next() { Some((key, value)) => { self.value = Some(value); let key_de = MapKeyDeserializer { key: %s }; '
            'seed.deserialize(key_de).map(Some) } None => Ok(None) } }' % cowexpr)
NEXT_VALUE = '{ match self.value.take() { Some(value) => seed.deserialize(value), None => Err(serde::de::Error::custom("value is missing")) } }'
SIZE_HINT = '{ match self.iter.size_hint() { (lower, Some(upper)) if lower == upper => Some(upper), _ => None } }'
SEED_SIG = "<T>(&mut self, seed: T) -> Result<%s, Error> where T: DeserializeSeed<'de>,"
ACCESS_SIGS = {'next_element_seed': 'fn next_element_seed' + SEED_SIG % 'Option<T::Value>', 'next_key_seed': 'fn next_key_seed' + SEED_SIG % 'Option<T::Value>',
               'next_value_seed': 'fn next_value_seed' + SEED_SIG % 'T::Value', 'size_hint': 'fn size_hint(&self) -> Option<usize>'}

def translate_access(src, trait, sname, side, classes):
    lt = "<'de>" if side == 'ref' else ''
    out, broken = [], []
    try:
        items = items_of(find_block(src, r"\bimpl<'de> %s<'de> for %s%s\s*\{" % (trait, sname, lt)))
    except (Broken, ValueError, IndexError) as e:
        return None, [('vde:%s:block' % sname, str(e))]
    fns = {it[1]: it for it in items if it[0] == 'fn'}
    if [(t[1], t[2]) for t in items if t[0] == 'type'] != [('Error', 'Error')] or len(items) != len(fns) + 1:
        broken.append(('vde:%s:items' % sname, 'expected `type Error = Error;` and methods only'))
    for name, (text, cls) in classes.items():
        try:
            if name not in fns: raise Broken('method missing (serde\'s provided method would apply)' if name == 'size_hint' else 'method missing')
            if fns[name][2]: raise Broken('attributes %s' % fns[name][2])
            if fns[name][3] != ACCESS_SIGS[name]: raise Broken('signature `%s`' % fns[name][3])
            if fns[name][4] != text: raise Broken('body differs from the pinned text `%s`' % text)
            out.append('(a_%s, %s)' % (name, cls))
        except (Broken, ValueError, IndexError) as e:
            broken.append(('vde:%s:%s' % (sname, name), str(e)))
    extra = sorted(set(fns) - set(classes))
    if extra: broken.append(('vde:%s:extra' % sname, 'methods outside the table (a provided method of serde is overridden): ' + ', '.join(extra)))
    return '[%s]' % '; '.join(out), broken

STRUCT_PINS = [
    'struct EnumDeserializer { variant: String, value: Option<Value>, }',
    'struct VariantDeserializer { value: Option<Value>, }',
    'struct SeqDeserializer { iter: vec::IntoIter<Value>, }',
    'struct MapDeserializer { iter: <Map<String, Value> as IntoIterator>::IntoIter, value: Option<Value>, }',
    "struct EnumRefDeserializer<'de> { variant: &'de str, value: Option<&'de Value>, }",
    "struct VariantRefDeserializer<'de> { value: Option<&'de Value>, }",
    "struct SeqRefDeserializer<'de> { iter: slice::Iter<'de, Value>, }",
    "struct MapRefDeserializer<'de> { iter: <&'de Map<String, Value> as IntoIterator>::IntoIter, value: Option<&'de Value>, }",
    "struct MapKeyDeserializer<'de> { key: Cow<'de, str>, }",
    "struct BorrowedCowStrDeserializer<'de> { value: Cow<'de, str>, }",
    'struct KeyClassifier;', 'struct UnitOnly;',
    'enum KeyClass { Map(String), #[cfg(feature = "arbitrary_precision")] Number, #[cfg(feature = "raw_value")] RawValue, }',
]
# impl header -> {method: normalised body} (every method of the block; nothing else but associated types may be there)
TEXT_PINS = [
    (r"\bimpl SeqDeserializer\s*\{", {'new': '{ SeqDeserializer { iter: vec.into_iter() } }'}),
    (r"\bimpl<'de> SeqRefDeserializer<'de>\s*\{", {'new': '{ SeqRefDeserializer { iter: slice.iter() } }'}),
    (r"\bimpl MapDeserializer\s*\{", {'new': '{ MapDeserializer { iter: map.into_iter(), value: None } }'}),
    (r"\bimpl<'de> MapRefDeserializer<'de>\s*\{", {'new': '{ MapRefDeserializer { iter: map.into_iter(), value: None } }'}),
    (r"\bimpl<'de> BorrowedCowStrDeserializer<'de>\s*\{", {'new': '{ BorrowedCowStrDeserializer { value } }'}),
    (r"\bimpl<'de> IntoDeserializer<'de, Error> for Value\s*\{", {'into_deserializer': '{ self }'}),
    (r"\bimpl<'de> IntoDeserializer<'de, Error> for &'de Value\s*\{", {'into_deserializer': '{ self }'}),
    (r"\bimpl Value\s*\{", {
        'invalid_type': '{ serde::de::Error::invalid_type(self.unexpected(), exp) }',
        'unexpected': '{ match self { Value::Null => Unexpected::Unit, Value::Bool(b) => Unexpected::Bool(*b), Value::Number(n) => n.unexpected(), '
                      'Value::String(s) => Unexpected::Str(s), Value::Array(_) => Unexpected::Seq, Value::Object(_) => Unexpected::Map } }'}),
    (r"\bimpl<'de> DeserializeSeed<'de> for KeyClassifier\s*\{", {'deserialize': '{ deserializer.deserialize_str(self) }'}),
    (r"\bimpl<'de> Visitor<'de> for KeyClassifier\s*\{", {
        'expecting': '{ formatter.write_str("a string key") }',
        'visit_str': '{ match s { #[cfg(feature = "arbitrary_precision")] crate::number::TOKEN => Ok(KeyClass::Number), #[cfg(feature = "raw_value")] '
                     'crate::raw::TOKEN => Ok(KeyClass::RawValue), _ => Ok(KeyClass::Map(s.to_owned())) } }',
        'visit_string': '{ match s.as_str() { #[cfg(feature = "arbitrary_precision")] crate::number::TOKEN => Ok(KeyClass::Number), #[cfg(feature = "raw_value")] '
                        'crate::raw::TOKEN => Ok(KeyClass::RawValue), _ => Ok(KeyClass::Map(s)) } }'}),
    (r"\bimpl<'de> de::EnumAccess<'de> for BorrowedCowStrDeserializer<'de>\s*\{", {'variant_seed': '{ let value = tri!(seed.deserialize(self)); Ok((value, UnitOnly)) }'}),
    (r"\bimpl<'de> de::VariantAccess<'de> for UnitOnly\s*\{", {
        'unit_variant': '{ Ok(()) }',
        'newtype_variant_seed': '{ Err(de::Error::invalid_type(Unexpected::UnitVariant, &"newtype variant")) }',
        'tuple_variant': '{ Err(de::Error::invalid_type(Unexpected::UnitVariant, &"tuple variant")) }',
        'struct_variant': '{ Err(de::Error::invalid_type(Unexpected::UnitVariant, &"struct variant")) }'}),
    (r"\bimpl<'de> Visitor<'de> for ValueVisitor\s*\{", {
        'expecting': '{ formatter.write_str("any valid JSON value") }',
        'visit_bool': '{ Ok(Value::Bool(value)) }',
        'visit_i64': '{ Ok(Value::Number(value.into())) }',
        'visit_i128': '{ let de = serde::de::value::I128Deserializer::new(value); Number::deserialize(de).map(Value::Number) }',
        'visit_u64': '{ Ok(Value::Number(value.into())) }',
        'visit_u128': '{ let de = serde::de::value::U128Deserializer::new(value); Number::deserialize(de).map(Value::Number) }',
        'visit_f64': '{ Ok(Number::from_f64(value).map_or(Value::Null, Value::Number)) }',
        'visit_str': '{ self.visit_string(String::from(value)) }',
        'visit_string': '{ Ok(Value::String(value)) }',
        'visit_none': '{ Ok(Value::Null) }',
        'visit_some': '{ Deserialize::deserialize(deserializer) }',
        'visit_unit': '{ Ok(Value::Null) }',
        'visit_seq': '{ let mut vec = Vec::new(); while let Some(elem) = tri!(visitor.next_element()) { vec.push(elem); } Ok(Value::Array(vec)) }',
        'visit_map': '{ match tri!(visitor.next_key_seed(KeyClassifier)) { #[cfg(feature = "arbitrary_precision")] Some(KeyClass::Number) => { '
                     'let number: NumberFromString = tri!(visitor.next_value()); Ok(Value::Number(number.value)) } #[cfg(feature = "raw_value")] '
                     'Some(KeyClass::RawValue) => { let value = tri!(visitor.next_value_seed(crate::raw::BoxedFromString)); '
                     'crate::from_str(value.get()).map_err(de::Error::custom) } Some(KeyClass::Map(first_key)) => { let mut values = Map::new(); '
                     'values.insert(first_key, tri!(visitor.next_value())); while let Some((key, value)) = tri!(visitor.next_entry()) { '
                     'values.insert(key, value); } Ok(Value::Object(values)) } None => Ok(Value::Object(Map::new())) } }'}),
]
COW_ANY = ('{ match self.value { Cow::Borrowed(string) => visitor.visit_borrowed_str(string), #[cfg(any(feature = "std", feature = "alloc"))] '
           'Cow::Owned(string) => visitor.visit_string(string), #[cfg(not(any(feature = "std", feature = "alloc")))] Cow::Owned(_) => unreachable!() } }')
FORWARD_COW = FORWARD_MAP + ['ignored_any']
NUMERIC_KEY_MACRO = ("{ ($method:ident) => { deserialize_numeric_key!($method, deserialize_number); }; ($method:ident, $using:ident) => { "
                     "fn $method<V>(self, visitor: V) -> Result<V::Value, Error> where V: Visitor<'de>, { let mut de = crate::Deserializer::from_str(&self.key); "
                     "match tri!(de.peek()) { Some(b'0'..=b'9' | b'-') => {} _ => return Err(Error::syntax(ErrorCode::ExpectedNumericKey, 0, 0)) } "
                     "let number = tri!(de.$using(visitor)); if tri!(de.peek()).is_some() { return Err(Error::syntax(ErrorCode::ExpectedNumericKey, 0, 0)); } "
                     "Ok(number) } }; }")
USING = {'deserialize_number': 'UsingNumber', 'do_deserialize_f32': 'UsingF32', 'do_deserialize_i128': 'UsingI128', 'do_deserialize_u128': 'UsingU128'}
KEY_TEXT = {
    'any': ('{ BorrowedCowStrDeserializer::new(self.key).deserialize_any(visitor) }', 'KAnyCow'),
    'bool': ('{ if self.key == "true" { visitor.visit_bool(true) } else if self.key == "false" { visitor.visit_bool(false) } else { '
             'Err(serde::de::Error::invalid_type(Unexpected::Str(&self.key), &visitor)) } }', 'KBoolText'),
    'option': ('{ visitor.visit_some(self) }', 'KSome'),
    'newtype_struct': ('{ visitor.visit_newtype_struct(self) }', 'KNewtypeSelf'),
    'enum': ('{ self.key.into_deserializer().deserialize_enum(name, variants, visitor) }', 'KEnumIntoDeserializer'),
}
DESERIALIZE_VALUE_TAIL = ' deserializer.deserialize_any(ValueVisitor) }'
TRI = ('macro_rules! tri { ($e:expr $(,)?) => { match $e { core::result::Result::Ok(val) => val, '
       'core::result::Result::Err(err) => return core::result::Result::Err(err), } }; }')
ALLOC_PIN = '#[cfg(not(any(feature = "std", feature = "alloc")))] compile_error! { "serde_json requires that either `std` (default) or `alloc` feature is enabled" }'

def translate_key(src):
    out, broken, got = [], [], {}
    tag = 'MapKeyDeserializer'
    try:
        items = items_of(find_block(src, r"\bimpl<'de> serde::Deserializer<'de> for MapKeyDeserializer<'de>\s*\{"))
        mac = norm(strip_comments(find_block(src, r'\bmacro_rules! deserialize_numeric_key\s*\{')))
        if mac != NUMERIC_KEY_MACRO: raise Broken('deserialize_numeric_key! differs from the pinned text (first byte check, `$using`, trailing check)')
    except (Broken, ValueError, IndexError) as e:
        return None, [('vde:%s:block' % tag, str(e))]
    if [(t[1], t[2]) for t in items if t[0] == 'type'] != [('Error', 'Error')]:
        broken.append(('vde:%s:type' % tag, 'expected exactly `type Error = Error;`'))
    for it in items:
        try:
            if it[0] == 'type':
                continue
            if it[0] == 'forward':
                for m in it[1]:
                    if m not in METHODS: raise Broken('forward_to_deserialize_any!: unknown method %s' % m)
                    got.setdefault(m, []).append(('CAlways', 'KForwardAny'))
                continue
            if it[0] == 'macro':
                if it[1] != 'deserialize_numeric_key': raise Broken('macro %s!' % it[1])
                args, attrs = it[2], it[3]
                if len(attrs) > 1 or (attrs and attrs[0] not in (CFG_FR, CFG_NOTFR)): raise Broken('attributes %s' % attrs)
                if not args[0].startswith('deserialize_') or args[0][12:] not in INTS + ['f32', 'f64']: raise Broken('method `%s`' % args[0])
                if len(args) > 2: raise Broken('arguments')
                u = args[1] if len(args) == 2 else 'deserialize_number'
                if u not in USING: raise Broken('`$using` = %s is not one of %s' % (u, sorted(USING)))
                got.setdefault(args[0][12:], []).append((CFGS[attrs[0] if attrs else None], 'KNumericKey ' + USING[u]))
                continue
            name, attrs, hdr, body = it[1], it[2], it[3], it[4]
            if not name.startswith('deserialize_') or name[12:] not in KEY_TEXT: raise Broken('method outside the table')
            short = name[12:]
            if [a for a in attrs if a != '#[inline]']: raise Broken('attributes %s' % attrs)
            check_sig(name, hdr, short)
            if body != KEY_TEXT[short][0]: raise Broken('body differs from the pinned text `%s`' % KEY_TEXT[short][0])
            got.setdefault(short, []).append(('CAlways', KEY_TEXT[short][1]))
        except (Broken, ValueError, IndexError) as e:
            broken.append(('vde:%s:%s' % (tag, it[1] if it[0] == 'fn' else '%s!(%s)' % (it[1], ', '.join(it[2])) if it[0] == 'macro' else it[0]), str(e)))
    for m in METHODS:
        cs = sorted(c for c, _ in got.get(m, []))
        if cs not in (['CAlways'], ['CFr', 'CNotFr']):
            broken.append(('vde:%s:deserialize_%s' % (tag, m), 'defined %s' % ('under the configurations %s' % cs if cs else 'nowhere (method missing)')))
    if broken:
        return None, broken
    return [(m, c, k) for m in METHODS for c, k in got[m]], []

def translate(repo):
    src = open(os.path.join(repo, 'src', 'value', 'de.rs'), encoding='utf-8').read()
    src = '\n'.join('' if l.lstrip().startswith('//') else l for l in src.split('\n'))
    broken, out = [], {}
    def sub(key, res):
        r, b = res
        broken.extend(b)
        out[key] = r
    # (1)
    macros = {}
    for mac in ('deserialize_number', 'deserialize_value_ref_number'):
        try:
            macros[mac] = parse_number_macro(src, mac)
        except (Broken, ValueError, IndexError) as e:
            broken.append(('vde:macro:%s' % mac, str(e)))
    if len(macros) == 2:
        sub('owned', translate_impl(src, 'Value', 'owned', r"\bimpl<'de> serde::Deserializer<'de> for Value\s*\{", {'deserialize_number': macros['deserialize_number']}))
        sub('ref', translate_impl(src, '&Value', 'ref', r"\bimpl<'de> serde::Deserializer<'de> for &'de Value\s*\{", macros))
    # (h)
    for key, name, sig, arg, acc in (
            ('visit_array', 'visit_array', r"<'de, V>\(array: Vec<Value>, visitor: V\) -> Result<V::Value, Error>\s*where\s*V: Visitor<'de>,\s*\{", 'array', 'SeqDeserializer'),
            ('visit_array_ref', 'visit_array_ref', r"<'de, V>\(array: &'de \[Value\], visitor: V\) -> Result<V::Value, Error>\s*where\s*V: Visitor<'de>,\s*\{", 'array', 'SeqRefDeserializer')):
        try:
            out[key] = parse_helper(top_fn(src, name, sig), arg, acc, 'visit_seq')
        except (Broken, ValueError, IndexError) as e:
            broken.append(('vde:%s' % name, str(e)))
    sub('map', translate_map_impl(src, 'Map', r"\bimpl<'de> serde::Deserializer<'de> for Map<String, Value>\s*\{", 'owned'))
    sub('map_ref', translate_map_impl(src, '&Map', r"\bimpl<'de> serde::Deserializer<'de> for &'de Map<String, Value>\s*\{", 'ref'))
    # (2)
    sub('variant', translate_variant(src, 'owned'))
    sub('variant_ref', translate_variant(src, 'ref'))
    # (3)
    seq_cls = {'next_element_seed': (NEXT_ELEMENT, 'NextElementFromIter'), 'size_hint': (SIZE_HINT, 'SizeHintExact')}
    def map_cls(cowexpr, cow):
        return {'next_key_seed': (next_key(cowexpr), 'NextKeyFromIter ' + cow), 'next_value_seed': (NEXT_VALUE, 'NextValueTake'), 'size_hint': (SIZE_HINT, 'SizeHintExact')}
    sub('seq_access', translate_access(src, 'SeqAccess', 'SeqDeserializer', 'owned', seq_cls))
    sub('seq_access_ref', translate_access(src, 'SeqAccess', 'SeqRefDeserializer', 'ref', seq_cls))
    sub('map_access', translate_access(src, 'MapAccess', 'MapDeserializer', 'owned', map_cls('Cow::Owned(key)', 'CowOwned')))
    sub('map_access_ref', translate_access(src, 'MapAccess', 'MapRefDeserializer', 'ref', map_cls('Cow::Borrowed(&**key)', 'CowBorrowed')))
    # (4)
    sub('key', translate_key(src))
    try:
        items = items_of(find_block(src, r"\bimpl<'de> de::Deserializer<'de> for BorrowedCowStrDeserializer<'de>\s*\{"))
        fns = {it[1]: it[4] for it in items if it[0] == 'fn'}
        if fns != {'deserialize_any': COW_ANY, 'deserialize_enum': '{ visitor.visit_enum(self) }'}:
            raise Broken('methods differ from the pinned text (Cow::Borrowed => visit_borrowed_str, Cow::Owned => visit_string; visit_enum(self))')
        if [it[1] for it in items if it[0] == 'forward'] != [FORWARD_COW] or [(t[1], t[2]) for t in items if t[0] == 'type'] != [('Error', 'Error')] or len(items) != 4:
            raise Broken('items besides the two methods differ from the pinned ones')
        out['cow_any'] = 'CowAnyByKind'
    except (Broken, ValueError, IndexError) as e:
        broken.append(('vde:BorrowedCowStrDeserializer', str(e)))
    # pins
    flat = squeeze(strip_comments(src))
    for text in STRUCT_PINS:
        kw, nm = text.split(' ')[0], re.match(r'\w+ (\w+)', text).group(1)
        if flat.count(text) != 1 or len(re.findall(r'\b%s %s\b' % (kw, nm), flat)) != 1:
            broken.append(('vde:pinned:%s %s' % (kw, nm), 'expected exactly one `%s`' % text))
    for header, want in TEXT_PINS:
        tag = re.sub(r'\\[bs]\*?|\\', '', header).replace('{', '').strip()
        try:
            items = items_of(find_block(src, header))
            fns = {it[1]: it[4] for it in items if it[0] == 'fn'}
            if [it for it in items if it[0] in ('macro', 'forward')]: raise Broken('macro invocation in the block')
            for k, v in want.items():
                if fns.get(k) != v: broken.append(('vde:pinned:%s:%s' % (tag, k), 'body is `%s`, the model assumes `%s`' % (fns.get(k), v)))
            extra = sorted(set(fns) - set(want))
            if extra: broken.append(('vde:pinned:%s:extra' % tag, 'methods outside the pinned set: ' + ', '.join(extra)))
        except (Broken, ValueError, IndexError) as e:
            broken.append(('vde:pinned:%s' % tag, str(e)))
    try:
        body = methods_of(find_block(src, r"\bimpl<'de> Deserialize<'de> for Value\s*\{")).get('deserialize', '')
        if not body.endswith(DESERIALIZE_VALUE_TAIL) or body.count('deserialize_any') != 1 or not body.startswith('{ struct ValueVisitor; impl'):
            broken.append(('vde:pinned:Value::deserialize', 'is no longer `struct ValueVisitor; impl ..; deserializer.deserialize_any(ValueVisitor)`'))
    except (Broken, ValueError, IndexError) as e:
        broken.append(('vde:pinned:Value::deserialize', str(e)))
    try:
        lib = open(os.path.join(repo, 'src', 'lib.rs'), encoding='utf-8').read()
        lib = '\n'.join('' if l.lstrip().startswith('//') else l for l in lib.split('\n'))
        m = re.search(r'^macro_rules! tri\s*\{', lib, re.M)
        got = squeeze('macro_rules! tri ' + block_at(lib, m.end() - 1)[0]) if m else None
        if got != TRI: broken.append(('vde:pinned:tri!', 'macro is `%s`' % got))
        if squeeze(lib).count(ALLOC_PIN) != 1: broken.append(('vde:pinned:alloc', 'lib.rs no longer refuses to compile without std or alloc'))
        out['raw_token'] = str_const(os.path.join(repo, 'src', 'raw.rs'), r'\bpub const TOKEN: &str')
        out['number_token'] = str_const(os.path.join(repo, 'src', 'number.rs'), r'\bpub\(crate\) const TOKEN: &str')
    except (Broken, ValueError, IndexError, OSError, AttributeError) as e:
        broken.append(('vde:pinned:lib', str(e)))
    return out, broken

def str_const(path, header_re):
    src = open(path, encoding='utf-8').read()
    ms = re.findall(header_re + r'\s*=\s*"((?:[^"\\])*)";', src)
    if len(ms) != 1: raise Broken('expected exactly one `%s`, found %d' % (header_re, len(ms)))
    if any(ord(c) > 127 for c in ms[0]): raise Broken('non-ASCII token')
    return [ord(c) for c in ms[0]]

VA = ['unit_variant', 'newtype_variant_seed', 'tuple_variant', 'struct_variant']

def emit(o):
    L = ['(* Gen/VdeTables.v — GENERATED by tools/translate_vde.py from /repo/src/value/de.rs (tokens: raw.rs, number.rs) on every run. Do not edit.',
         '   `Value` as a serde Deserializer, decision structure by decision structure (AST and meaning: Model/VdeAst.v): the 31 methods of',
         "   `impl Deserializer for Value` and of `impl Deserializer for &'de Value`, the helpers visit_array[_ref] / Map::deserialize_any / deserialize_enum,",
         '   Enum[Ref]Deserializer / Variant[Ref]Deserializer, Seq[Ref]Deserializer / Map[Ref]Deserializer, MapKeyDeserializer. *)',
         'From Coq Require Import List NArith.', 'From SJ Require Import Base.Bytes Model.VdeAst.', 'Import ListNotations.', 'Open Scope N_scope.', '']
    for key, nm, what in (('owned', 'VDE_OWNED', "impl<'de> serde::Deserializer<'de> for Value"), ('ref', 'VDE_REF', "impl<'de> serde::Deserializer<'de> for &'de Value")):
        L.append('(* %s *)' % what)
        L.append('Definition %s : method_table := [' % nm)
        L.append(';\n'.join('  (d_%s, %s,\n    %s)' % (m, c, b) for m, c, b in o[key]))
        L.append('].')
        L.append('')
    L.append('Definition VDE_VISIT_ARRAY : helper := %s.' % o['visit_array'])
    L.append('Definition VDE_VISIT_ARRAY_REF : helper := %s.' % o['visit_array_ref'])
    L.append('Definition VDE_MAP_ANY : helper := %s.' % o['map']['any'])
    L.append('Definition VDE_MAP_ANY_REF : helper := %s.' % o['map_ref']['any'])
    L.append('Definition VDE_MAP_ENUM : map_enum_class := %s.' % o['map']['enum'])
    L.append('Definition VDE_MAP_ENUM_REF : map_enum_class := %s.' % o['map_ref']['enum'])
    L.append('(* raw::TOKEN = "%s" *)' % ''.join(map(chr, o['raw_token'])))
    L.append('Definition VDE_RAW_TOKEN : bytes := %s.' % tf.nl(o['raw_token']))
    L.append('(* number::TOKEN = "%s" *)' % ''.join(map(chr, o['number_token'])))
    L.append('Definition VDE_NUMBER_TOKEN : bytes := %s.' % tf.nl(o['number_token']))
    L.append('')
    for key, nm in (('variant', 'VDE_VARIANT'), ('variant_ref', 'VDE_VARIANT_REF')):
        L.append('Definition %s_SEED : variant_seed_class := %s.' % (nm, o[key]['seed']))
        L.append('Definition %s : variant_table := [\n%s].' % (nm, ';\n'.join('  (va_%s, %s)' % (m, o[key][m]) for m in VA)))
    L.append('')
    for key, nm in (('seq_access', 'VDE_SEQ_ACCESS'), ('seq_access_ref', 'VDE_SEQ_ACCESS_REF'), ('map_access', 'VDE_MAP_ACCESS'), ('map_access_ref', 'VDE_MAP_ACCESS_REF')):
        L.append('Definition %s : access_table := %s.' % (nm, o[key]))
    L.append('')
    L.append('(* impl Deserializer for MapKeyDeserializer *)')
    L.append('Definition VDE_KEY : list (vmethod * vcfg * kclass) := [\n%s].' % ';\n'.join('  (d_%s, %s, %s)' % x for x in o['key']))
    L.append('Definition VDE_COW_ANY : cow_any_class := %s.' % o['cow_any'])
    L.append('')
    L.append('Definition VDE_SOURCE : vde_source :=\n  mkSource VDE_OWNED VDE_REF VDE_VISIT_ARRAY VDE_VISIT_ARRAY_REF VDE_MAP_ANY VDE_MAP_ANY_REF VDE_MAP_ENUM VDE_MAP_ENUM_REF VDE_RAW_TOKEN\n'
             '    VDE_VARIANT_SEED VDE_VARIANT_REF_SEED VDE_VARIANT VDE_VARIANT_REF VDE_SEQ_ACCESS VDE_SEQ_ACCESS_REF VDE_MAP_ACCESS VDE_MAP_ACCESS_REF VDE_KEY VDE_COW_ANY.')
    L.append('')
    return '\n'.join(L)

def main():
    ap = argparse.ArgumentParser()
    ap.add_argument('--repo', default='/repo')
    ap.add_argument('--out', default=os.path.join(os.path.dirname(os.path.abspath(__file__)), '..', 'coq', 'theories', 'Gen', 'VdeTables.v'))
    a = ap.parse_args()
    try:
        out, broken = translate(a.repo)
    except (Broken, ValueError, IndexError, OSError) as e:
        out, broken = None, [('vde:source', str(e))]
    for name, why in broken:
        print('BROKEN %s: %s' % (name, why))
    if broken:
        return 3
    text = emit(out)
    old = open(a.out).read() if os.path.exists(a.out) else None
    if old != text:
        with open(a.out, 'w') as f:
            f.write(text)
        print('UPDATED ' + os.path.relpath(a.out))
    return 0

if __name__ == '__main__':
    sys.exit(main())
