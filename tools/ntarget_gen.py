#!/usr/bin/env python3
"""ntarget_try.py — standalone correspondence run for `serde_json::Number` as a deserialization target.

Model side : /root/scratch/ntarget_ocaml/sjdriver_ntarget   (extracted from coq/theories/Extract/Extract_ntarget.v)
Impl side  : /root/scratch/ntarget_bin/sjh_ntarget_<cfg>    (harness/src/bin/sjh_ntarget.rs, one binary per feature set)

  python3 ntarget_try.py [--build] [--seed N] [--n N]

--build   (re)build both sides first:
            model: coqc Extract_ntarget.v in /root/scratch/ntarget_ocaml, ocamlfind ocamlopt with checks_wip/driver_ntarget.ml
            impl : cargo build --release --bin sjh_ntarget [--features ..] with CARGO_TARGET_DIR=/root/scratch/tgt_pnumber
Every generated document is run as
    nt <cfg> s|b|r1|r3|rx<k> <hex>        (text route; `s` only when the bytes are UTF-8)
    nv <cfg> <hex> <ftab>                 (Value route; <ftab> obtained from the harness op nvf in arbitrary_precision builds)
for the feature sets  -  f  a  fa  p  pa, and the two answers are compared line by line.
Documents that spell the private token "$serde_json::private::Number" are a separate family: on the `nv` op the VALUE the
model parses (Model/De.v) is an object where the crate builds a Number (known finding F23, not part of this model); those
lines are reported separately and not counted as disagreements of the Number-target model.
"""
import os
import random
import subprocess
import sys

SCRATCH = "/root/scratch"
OCAML_DIR = SCRATCH + "/ntarget_ocaml"
BIN_DIR = SCRATCH + "/ntarget_bin"
TGT = SCRATCH + "/tgt_pnumber"
HERE = os.path.dirname(os.path.abspath(__file__))
DRIVER = OCAML_DIR + "/sjdriver_ntarget"
TOKEN = b"$serde_json::private::Number"

CFGS = {            # tag -> cargo features
    "-": "",
    "f": "float_roundtrip",
    "a": "arbitrary_precision",
    "fa": "arbitrary_precision,float_roundtrip",
    "p": "preserve_order",
    "pa": "preserve_order,arbitrary_precision",
}
COQ_W = "-notation-overridden,-deprecated-hint-without-locality,-deprecated-instance-without-locality,-extraction"


def build():
    os.makedirs(OCAML_DIR, exist_ok=True)
    os.makedirs(BIN_DIR, exist_ok=True)
    subprocess.check_call(["cp", "/verif/coq/theories/Extract/Extract_ntarget.v", OCAML_DIR])
    subprocess.check_call(["timeout", "900", "coqc", "-Q", "/verif/coq/theories", "SJ", "-w", COQ_W, "Extract_ntarget.v"], cwd=OCAML_DIR)
    subprocess.check_call(["cp", HERE + "/driver_ntarget.ml", OCAML_DIR])
    subprocess.check_call(["ocamlfind", "ocamlopt", "-O2", "-w", "-a", "-I", ".", "sjmodel_ntarget.mli", "sjmodel_ntarget.ml",
                           "driver_ntarget.ml", "-o", "sjdriver_ntarget"], cwd=OCAML_DIR, stderr=subprocess.DEVNULL)
    env = dict(os.environ, CARGO_NET_OFFLINE="true", CARGO_TARGET_DIR=TGT)
    for tag, feats in CFGS.items():
        cmd = ["cargo", "build", "--release", "--bin", "sjh_ntarget"]
        if feats:
            cmd += ["--features", feats]
        subprocess.check_call(cmd, cwd="/verif/harness", env=env, stderr=subprocess.DEVNULL)
        subprocess.check_call(["cp", TGT + "/release/sjh_ntarget", BIN_DIR + "/sjh_ntarget_" + tag])


# ------------------------------------------------------------------------------------------------ generator
def gen_docs(rng, n_random):
    docs = []          # (family, bytes)

    def add(fam, s):
        docs.append((fam, s if isinstance(s, bytes) else s.encode()))

    U64 = 2 ** 64 - 1
    I64MIN = -(2 ** 63)
    I64MAX = 2 ** 63 - 1
    U128 = 2 ** 128 - 1
    I128MIN = -(2 ** 127)
    # integers at the boundaries
    for base in [0, 1, 9, 10, 255, 256, 65535, 2 ** 31 - 1, 2 ** 31, 2 ** 32 - 1, 2 ** 32, 2 ** 53, 2 ** 53 + 1, I64MAX, I64MAX + 1,
                 U64, U64 + 1, U64 * 10, U64 * 10 + 5, 2 ** 127 - 1, 2 ** 127, U128, U128 + 1, 10 ** 38, 10 ** 39, 10 ** 40, 10 ** 45]:
        for d in (-2, -1, 0, 1, 2):
            v = base + d
            add("int", str(v))
            add("int", str(-v))
    for v in [I64MIN, I64MIN - 1, I64MIN + 1, I128MIN, I128MIN - 1, I128MIN + 1]:
        add("int", str(v))
    add("int", "-0")
    add("int", "0")
    # leading zeros, signs
    for s in ["00", "01", "007", "-00", "-01", "-007", "+1", "+0", "--1", "-+1", "- 1", "-", "+", "0123456789", "-0123", "0e", "00.5", "-00.5", "01e5"]:
        add("malformed", s)
    # floats
    floats = ["0.0", "-0.0", "0.5", "1.0", "1.5", "100.0", "1e2", "1E2", "1e+2", "1e-2", "1.5e3", "1.5E+3", "-1.5e-3", "0e0", "-0e0", "0e-0", "0E+5",
              "0.0000001", "0.000001", "1e-7", "1e-6", "1e21", "1e22", "1e23", "123456789012345680000", "1e16", "1e15", "1.0e16",
              "9007199254740993", "9007199254740993.0", "9007199254740992.0", "0.1", "0.2", "0.30000000000000004", "2.2250738585072014e-308",
              "2.2250738585072011e-308", "4.9e-324", "5e-324", "2.4703282292062327e-324", "2.4703282292062328e-324", "1e-400", "1e400", "-1e400",
              "1.7976931348623157e308", "1.7976931348623158e308", "1.7976931348623159e308", "1.8e308", "17976931348623157" + "0" * 292,
              "1" + "0" * 308, "1" + "0" * 309, "0." + "0" * 400 + "1", "1e2147483647", "1e2147483648", "1e-2147483648", "1e99999999999999999999",
              "0e99999999999999999999", "0.0e-99999999999999999999", "1e-99999999999999999999", "123.456e789", "123.456e-789",
              "18446744073709551615.0", "18446744073709551616.0", "18446744073709551615e0", "1" + "0" * 40, "1" + "0" * 40 + ".0",
              "150000000000000000000", "1.5e20", "0.1e1", "10e-1", "1.00", "1.10", "1.0e0", "1e0", "1e00", "1e01", "3.141592653589793",
              "3.14159265358979323846264338327950288", "0.3333333333333333", "2e-1", "0.2e0", "12345678901234567890.123456789",
              "1234567890123456789012345678901234567890.5", "-18446744073709551616", "-9223372036854775809.0", "1e1", "1e-1", "1E-1",
              "4.35", "4.350000000000000", "1e23", "8.5e22", "9.999999999999999e22", "100000000000000000000000", "99999999999999991611392"]
    for s in floats:
        add("float", s)
        if not s.startswith("-"):
            add("float", "-" + s)
    for s in ["1.", "1.e5", ".5", "-.5", "1e", "1e+", "1e-", "1E", "1.5e", "1.5e+", "1e+-1", "1ee1", "1.2.3", "1e1.5", "1e1e1", "0x10", "1_000", "1f", "1d",
              "NaN", "nan", "Infinity", "-Infinity", "inf", "1 2", "1,", "1 ,", "1]", "1}", "1:", "1\"", "1a", "1 a", "1.0x", "1e5x", "1e5 x", "-x", "-x ", "- ",
              "1\x00", "\x001", "1\n2", "1 \n x", "\n\n1x", "\n 1 \n\n y", "1/", "1//", "1/*c*/", "1.5.", "0..1", "0.e1", "0.0e", "9" * 400, "-" + "9" * 400,
              "1" + "0" * 1000, "0." + "1" * 1000, "1e" + "9" * 50, "1e-" + "9" * 50, "1e+" + "0" * 50 + "1"]:
        add("malformed", s)
    # whitespace around numbers
    for ws1 in ["", " ", "\t", "\n", "\r", " \n\t\r ", "\n\n", "\x0b", "\x0c", "\xa0", "\ufeff"]:
        for ws2 in ["", " ", "\n", " \n \t", "\r\n", "\x0b", "x", " x", "\n}"]:
            for body in ["0", "-0", "12", "1.5", "1e3", "-7.25E-2", "18446744073709551616", "null", "\"s\"", "[1]", "{}"]:
                add("ws", ws1 + body + ws2)
    # non-number values
    nonnum = ["null", "true", "false", "nul", "nulL", "nulll", "tru", "truE", "fals", "falsE", "n", "t", "f", "nan", "none", "True", "NULL",
              "\"\"", "\"a\"", "\"abc\"", "\"1\"", "\"-0\"", "\"1.5\"", "\"a\\nb\"", "\"\\u0041\"", "\"\\ud83d\\ude00\"", "\"\\ud800\"", "\"\\x\"", "\"a", "\"", "\"a\\",
              "\"a\nb\"", "\"\x01\"", "\"é\"", "\"\\u00e9\"", "'a'",
              "[]", "[ ]", "[1]", "[1,2]", "[ 1 , 2 ]", "[", "[ ", "[1", "[1,", "[1,]", "[,]", "[,1]", "[1 2]", "[1]]", "[]]", "[] x", "[]x", "[1] ,", "[null]", "[[]]",
              "[[[[[]]]]]", "[\"a\"]", "[x", "[}", "[\n1\n,\n2\n]\n", "[\n", "[\n\n  x", "[,", "[ ,", "[, ]", "[,\n]", "[ , x", "[,,", "[1,2", "]", "[\"", "[1.", "[-",
              "{}", "{ }", "{\"a\":1}", "{\"a\":1,\"b\":2}", "{", "{ ", "{\"a\"", "{\"a\":", "{\"a\":1", "{\"a\":1,", "{\"a\":1,}", "{,}", "{1:2}", "{\"a\" 1}", "{\"a\":}",
              "{a:1}", "{} x", "{}}", "{}]", "{\n}", "{\n\"k\"\n:\n1\n}\n", "{\"\":0}", "{\"a\":{\"b\":[]}}", "{\"a\":1 \"b\":2}", "{x", "{]", "{ ,", "{\n\n ,", "{\"a\":1]",
              "{\"b\":1,\"a\":2}", "{\"a\":1,\"a\":2}", "{\"a\\u0062\":1}", "{\"a", "{\"a\\", "{\"\\x\":1}", "{ \"a\" : [1, 2, {\"b\": null}] }", "{\"a\":01}", "{\"a\":1.}",
              "}", ":", ",", "", " ", "\n", "\t\r\n ", "x", "#", "/", "\\", "\x00", b"\xff", b"\xc3", b"\xef\xbb\xbf1", b"1\xff", b"\"\xff\"", b"\"\xc3\xa9\"",
              "undefined", "-null", "-[", "-\"a\"", "- 1"]
    for s in nonnum:
        add("nonnum", s)
    # depth
    for d in [1, 2, 126, 127, 128, 129, 130, 200, 300]:
        add("deep", "[" * d)
        add("deep", "[" * d + "]" * d)
        add("deep", "[" * d + "1" + "]" * d)
        add("deep", "{\"a\":" * d + "1" + "}" * d)
        add("deep", "{\"a\":" * d)
        add("deep", "[{\"a\":" * (d // 2 + 1) + "1" + "}]" * (d // 2 + 1))
    # the private token (arbitrary_precision: NumberVisitor::visit_map)
    T = TOKEN.decode()
    for val in ["\"1\"", "\"123\"", "\"-0\"", "\"1.5\"", "\"1e5\"", "\"0.0000001\"", "\"1" + "0" * 40 + "\"", "\"18446744073709551616\"", "\"\"", "\"x\"", "\"1x\"", "\"01\"",
                "\" 1\"", "\"1 \"", "\"-\"", "\"1.\"", "\"1e\"", "\"\\n1x\"", "\"\\n\\n12\\nx\"", "\"1\\n\"", "\"+1\"", "\"1\\u0030\"", "\"\\u0031\"", "\"1e400\"", "\"NaN\"",
                "1", "1.5", "null", "true", "[]", "[1]", "{}", "{\"a\":1}", "\"1", "\"", "", "x", "\"1\\"]:
        for pre, mid, post in [("", "", ""), (" ", " ", " "), ("\n", "\n", "\n")]:
            add("token", "{" + pre + "\"" + T + "\"" + mid + ":" + mid + val + post + "}")
        add("token", "{\"" + T + "\":" + val)
        add("token", "{\"" + T + "\":" + val + ",")
        add("token", "{\"" + T + "\":" + val + ",}")
        add("token", "{\"" + T + "\":" + val + ",\"b\":2}")
        add("token", "{\"" + T + "\":" + val + "} x")
        add("token", "{\"" + T + "\":" + val + "]")
        add("token", "{\"a\":0,\"" + T + "\":" + val + "}")
        add("token", "{\"b\":0,\"" + T + "\":" + val + "}")
        add("token", "{\"" + T + "\":" + val + ",\"" + T + "\":\"7\"}")
        add("token", "[{\"" + T + "\":" + val + "}]")
    for s in ["{\"" + T + "\"}", "{\"" + T + "\"", "{\"" + T, "{\"" + T + "\" 1}", "{\"" + T[:-1] + "\":\"1\"}", "{\"" + T + "x\":\"1\"}", "{\"$serde_json::private::RawValue\":\"1\"}",
              "{\"\\u0024serde_json::private::Number\":\"12\"}", "{\"" + T + "\":\"1\"}{", "\"" + T + "\"", "{\"" + T.upper() + "\":\"1\"}"]:
        add("token", s)

    # random, mostly valid numbers
    def rand_digits(k, lead_nonzero=True):
        if k <= 0:
            return ""
        first = rng.choice("123456789") if lead_nonzero else rng.choice("0123456789")
        return first + "".join(rng.choice("0123456789") for _ in range(k - 1))

    def rand_number():
        r = rng.random()
        neg = "-" if rng.random() < 0.35 else ""
        if r < 0.30:
            k = rng.choice([1, 1, 2, 3, 5, 9, 10, 15, 16, 17, 18, 19, 19, 20, 20, 21, 25, 38, 39, 40, 41, 60])
            ip = "0" if rng.random() < 0.05 else rand_digits(k)
            return neg + ip
        if r < 0.40:
            # around the integer boundaries
            b = rng.choice([I64MAX, U64, -I64MIN, 2 ** 53, 10 ** 19, 10 ** 20, U128, 2 ** 127])
            v = b + rng.randint(-50, 50)
            return neg + str(abs(v))
        ip = "0" if rng.random() < 0.3 else rand_digits(rng.choice([1, 1, 2, 3, 7, 15, 17, 20, 25, 40]))
        s = neg + ip
        if rng.random() < 0.75:
            s += "." + rand_digits(rng.choice([1, 1, 2, 3, 6, 7, 8, 15, 17, 18, 25, 40]), lead_nonzero=False)
        if rng.random() < 0.55:
            e = rng.choice([0, 1, 2, 5, 7, 10, 15, 16, 17, 20, 21, 22, 23, 37, 38, 100, 300, 307, 308, 309, 310, 323, 324, 325, 400, 1000, 5000])
            s += rng.choice("eE") + rng.choice(["", "+", "-", "-"]) + (("0" * rng.randint(0, 2)) if rng.random() < 0.1 else "") + str(e)
        return s

    WS = [" ", "\t", "\n", "\r"]
    for _ in range(n_random):
        s = rand_number()
        r = rng.random()
        if r < 0.15:
            s = "".join(rng.choice(WS) for _ in range(rng.randint(1, 4))) + s
        if 0.10 < r < 0.25:
            s = s + "".join(rng.choice(WS) for _ in range(rng.randint(1, 4)))
        add("rand", s)
    # mutations of valid documents
    seeds = [d for (f, d) in docs if f in ("int", "float", "rand", "nonnum", "ws")]
    alphabet = b"0123456789-+.eE \n\t\"[]{}:,nulltruefalse\\x"
    for _ in range(max(1500, n_random // 3)):
        d = bytearray(rng.choice(seeds))
        for _ in range(rng.choice([1, 1, 1, 2, 3])):
            op = rng.random()
            pos = rng.randint(0, len(d))
            if op < 0.4 and len(d) > 0:
                del d[min(pos, len(d) - 1)]
            elif op < 0.8:
                d.insert(pos, rng.choice(alphabet))
            elif len(d) > 0:
                d[min(pos, len(d) - 1)] = rng.choice(alphabet)
        add("mut", bytes(d))
    # arrays / objects of numbers (non-number targets with numbers inside; Value route sees nested numbers in the ftab)
    for _ in range(300):
        k = rng.randint(0, 4)
        if rng.random() < 0.5:
            add("nonnum", "[" + ",".join(rand_number() for _ in range(k)) + "]")
        else:
            add("nonnum", "{" + ",".join("\"k%d\":%s" % (i, rand_number()) for i in range(k)) + "}")
    return docs


def hexs(b):
    return b.hex() if b else "-"


def is_utf8(b):
    try:
        b.decode("utf-8")
        return True
    except UnicodeDecodeError:
        return False


def run(cmd, lines):
    p = subprocess.run(cmd, input=("\n".join(lines) + "\n").encode(), stdout=subprocess.PIPE, check=True)
    out = p.stdout.decode().split("\n")
    if out and out[-1] == "":
        out.pop()
    if len(out) != len(lines):
        raise SystemExit("%s: %d answers for %d cases" % (cmd[0], len(out), len(lines)))
    return out


def main():
    args = sys.argv[1:]
    seed = 20260930
    n_random = 6000
    if "--seed" in args:
        seed = int(args[args.index("--seed") + 1])
    if "--n" in args:
        n_random = int(args[args.index("--n") + 1])
    if "--build" in args or not os.path.exists(DRIVER) or not all(os.path.exists(BIN_DIR + "/sjh_ntarget_" + t) for t in CFGS):
        build()
    rng = random.Random(seed)
    docs = gen_docs(rng, n_random)
    # de-duplicate, keep order
    seen = set()
    uniq = []
    for fam, d in docs:
        if d in seen:
            continue
        seen.add(d)
        uniq.append((fam, d))
    docs = uniq
    fams = {}
    for fam, _ in docs:
        fams[fam] = fams.get(fam, 0) + 1
    print("documents: %d  %s" % (len(docs), " ".join("%s=%d" % kv for kv in sorted(fams.items()))))

    total = 0
    bad = []          # unresolved disagreements
    f23 = []          # nv lines on token documents (Model/De.v does not model the token on the text route: F23)
    skipped = 0
    for tag in CFGS:
        harness = BIN_DIR + "/sjh_ntarget_" + tag
        got = subprocess.run([harness, "--features"], stdout=subprocess.PIPE, check=True).stdout.decode().strip()
        if sorted(got.replace("-", "")) != sorted(tag.replace("-", "")):
            raise SystemExit("binary %s reports features %s" % (harness, got))
        ap = "a" in tag
        # ftab pre-pass
        if ap:
            ftabs = run([harness], ["nvf " + hexs(d) for _, d in docs])
        else:
            ftabs = ["-"] * len(docs)
        cases = []     # (family, doc, op line)
        for i, (fam, d) in enumerate(docs):
            h = hexs(d)
            srcs = ["b", "r1"]
            if is_utf8(d):
                srcs.insert(0, "s")
            if i % 3 == 0:
                srcs.append("r3")
            if i % 5 == 0:
                srcs.append("rx%d" % (i % 7))
            for src in srcs:
                cases.append((fam, d, "nt %s %s %s" % (tag, src, h)))
            cases.append((fam, d, "nv %s %s %s" % (tag, h, ftabs[i])))
        lines = [c[2] for c in cases]
        impl = run([harness], lines)
        model = run([DRIVER], lines)
        n_ok = 0
        for (fam, d, line), a, b in zip(cases, impl, model):
            if a == "SKIP":
                skipped += 1
                continue
            total += 1
            if a == b:
                n_ok += 1
                continue
            if line.startswith("nv ") and ap and TOKEN in d:
                f23.append((tag, line, d, a, b))
                continue
            bad.append((tag, line, d, a, b))
        print("cfg %-3s cases %6d  agree %6d" % (tag, len(cases), n_ok))
    print("total compared: %d   skipped: %d   disagreements: %d   nv-on-token-documents (F23 family, model of the VALUE differs): %d"
          % (total, skipped, len(bad), len(f23)))
    for tag, line, d, a, b in bad[:60]:
        print("DISAGREE [%s] %s\n   doc   %r\n   impl  %s\n   model %s" % (tag, line[:120], d[:100], a, b))
    if "--show-f23" in args:
        for tag, line, d, a, b in f23[:40]:
            print("F23 [%s] doc %r\n   impl  %s\n   model %s" % (tag, d[:100], a, b))
    return 1 if bad else 0


if __name__ == "__main__":
    sys.exit(main())
