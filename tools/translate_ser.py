#!/usr/bin/env python3
"""translate_ser.py — regenerates coq/theories/Gen/SerTables.v from /repo/src/ser.rs (+ the two TOKEN constants of number.rs / raw.rs)
on every run.

A statement-level translator for the CONTROL LOGIC of the text serializer:

    ser      the 31 methods of `impl<'a, W, F> ser::Serializer for &'a mut Serializer<W, F>`
    seq / tuple / tuple_struct / tuple_variant / map / struct / struct_variant
             the 15 methods of the seven `impl<'a, W, F> ser::Serialize.. for Compound<'a, W, F>`
    number_emitter / raw_emitter
             `impl ser::Serializer for NumberStrEmitter / RawValueStrEmitter` (what `value.serialize(NumberStrEmitter(ser))` reaches),
             classified method by method by exact body text

Every body is parsed into the AST of Model/SerAst.v (`sstmt`); the subset (R = `self` in Serializer methods, `ser` where the enclosing
`Compound::.. { ser, .. }` pattern binds it):

    block ::= { item* }
    item  ::= tri!(RES);  |  *state = State::X;  |  let mut buf = [0; 4];  |  UNITMATCH  |  TAIL          (TAIL only last)
    RES   ::= R.formatter.M(&mut R.writer [, true | false | *state == State::X | value]).map_err(Error::io)
            | format_escaped_str(&mut self.writer, &mut self.formatter, value).map_err(Error::io)
            | value.serialize(self | &mut *self | &mut **ser | NumberStrEmitter(ser) | RawValueStrEmitter(ser))
            | key.serialize(MapKeySerializer { ser: *ser })
            | self.serialize_M(ARG, ..)  |  ser::SerializeT::M(self [, key] [, value])
    TAIL  ::= RES | Ok(()) | Ok(Compound::Map { ser: self, state: State::X, }) | Ok(Compound::Number { ser: self }) | Ok(Compound::RawValue { ser: self })
            | Err(f()) | unreachable!()
            | match self | *self { [#[cfg(feature = ".." )]] Compound::V { ser, state | ser, .. | ser | .. } => ARM, .. }
            | match state { State::X => ARM, _ => ARM }
            | match name { [#[cfg(..)]] crate::number::TOKEN | crate::raw::TOKEN | _ => ARM, .. }
            | match value.classify() { FpCategory::Nan | FpCategory::Infinite => ARM, _ => ARM }
            | if len == Some(N) block else block   |   if key == crate::number::TOKEN | crate::raw::TOKEN block else block
    ARM   ::= block | TAIL | tri!(RES)

with a small type discipline the interpreter relies on: a Result-valued expression stands under `tri!` or in tail position of a
Result-valued block; the arms of a match agree; `Ok(())` only in methods returning Result<()>, `Ok(Compound::..)` only in those returning
a Compound; `state` / `ser` only where the pattern binds them; every variable is a parameter of the method; `return` is outside the subset.
Sibling calls are bound to the callee's parameter NAMES (read from its signature).

A body outside the subset: `BROKEN ser:<impl>:<method>: <why>`, exit status 3; the previous file is NOT rewritten.
Pinned by exact (whitespace-squeezed) text, because the interpreter takes them as primitives or the protocol depends on them:
`enum State` (+ its derive), `enum Compound`, the seven `type Serialize.. = Compound<'a, W, F>;`, `struct MapKeySerializer`, the emitter
structs, the error constructors (`fn invalid_number() ..`), `Formatter::write_<int>` / write_f32 / write_f64 / write_number_str /
write_byte_array, `format_escaped_str`, the body of `Serializer::collect_str`, the `tri!` macro.

Usage: translate_ser.py [--repo /repo] [--out <file>]
"""
import re, sys, os, argparse
sys.path.insert(0, os.path.dirname(os.path.abspath(__file__)))
import translate_fmt as tf
Broken, squeeze, block_at, find_block, strip_comments = tf.Broken, tf.squeeze, tf.block_at, tf.find_block, tf.strip_comments

SER_METHODS = ['bool', 'i8', 'i16', 'i32', 'i64', 'i128', 'u8', 'u16', 'u32', 'u64', 'u128', 'f32', 'f64', 'char', 'str', 'bytes', 'unit',
               'unit_struct', 'unit_variant', 'newtype_struct', 'newtype_variant', 'none', 'some', 'seq', 'tuple', 'tuple_struct',
               'tuple_variant', 'map', 'struct', 'struct_variant', 'collect_str']
INTS = ['i8', 'i16', 'i32', 'i64', 'i128', 'u8', 'u16', 'u32', 'u64', 'u128']
# impl tag -> (trait name in the source, Coq ctrait, [(rust method, Coq cfn)])
COMPOUND = [
    ('seq', 'SerializeSeq', 'TSeq', [('serialize_element', 'Celement'), ('end', 'Cend')]),
    ('tuple', 'SerializeTuple', 'TTuple', [('serialize_element', 'Celement'), ('end', 'Cend')]),
    ('tuple_struct', 'SerializeTupleStruct', 'TTupleStruct', [('serialize_field', 'Cfield'), ('end', 'Cend')]),
    ('tuple_variant', 'SerializeTupleVariant', 'TTupleVariant', [('serialize_field', 'Cfield'), ('end', 'Cend')]),
    ('map', 'SerializeMap', 'TMap', [('serialize_key', 'Ckey'), ('serialize_value', 'Cvalue'), ('end', 'Cend')]),
    ('struct', 'SerializeStruct', 'TStruct', [('serialize_field', 'Cfield'), ('end', 'Cend')]),
    ('struct_variant', 'SerializeStructVariant', 'TStructVariant', [('serialize_field', 'Cfield'), ('end', 'Cend')]),
]
TRAITS = {t[1]: t for t in COMPOUND}
STATES = ['Empty', 'First', 'Rest']
PNAMES = {'value': 'PValue', 'key': 'PKey', 'variant': 'PVariant', 'name': 'PName', 'len': 'PLen'}
CFGS = {None: 'CfgAlways', 'arbitrary_precision': 'CfgAP', 'raw_value': 'CfgRV'}
VARIANT_CFG = {'Map': None, 'Number': 'arbitrary_precision', 'RawValue': 'raw_value'}
TOKENS = {'crate::number::TOKEN': ('TokNumber', 'arbitrary_precision'), 'crate::raw::TOKEN': ('TokRaw', 'raw_value')}
# the ErrorCode variants without payload = the argument-less constructors of `ecode` (Base/Bytes.v)
ECODES = ['EofWhileParsingList', 'EofWhileParsingObject', 'EofWhileParsingString', 'EofWhileParsingValue', 'ExpectedColon',
          'ExpectedListCommaOrEnd', 'ExpectedObjectCommaOrEnd', 'ExpectedSomeIdent', 'ExpectedSomeValue', 'ExpectedDoubleQuote',
          'InvalidEscape', 'InvalidNumber', 'NumberOutOfRange', 'InvalidUnicodeCodePoint', 'ControlCharacterWhileParsingString',
          'KeyMustBeAString', 'ExpectedNumericKey', 'FloatKeyMustBeFinite', 'LoneLeadingSurrogateInHexEscape', 'TrailingComma',
          'TrailingCharacters', 'UnexpectedEndOfHexEscape', 'RecursionLimitExceeded']

# formatter methods the bodies may call: name -> (Coq constructor, kind of the extra argument)
FMT = {'begin_array': ('FcBeginArray', None), 'end_array': ('FcEndArray', None), 'begin_array_value': ('FcBeginArrayValue', 'first'),
       'end_array_value': ('FcEndArrayValue', None), 'begin_object': ('FcBeginObject', None), 'end_object': ('FcEndObject', None),
       'begin_object_key': ('FcBeginObjectKey', 'first'), 'end_object_key': ('FcEndObjectKey', None),
       'begin_object_value': ('FcBeginObjectValue', None), 'end_object_value': ('FcEndObjectValue', None),
       'write_null': ('FcWriteNull', None), 'write_bool': ('FcWriteBool', 'value'), 'write_f32': ('FcWriteF32', 'value'),
       'write_f64': ('FcWriteF64', 'value'), 'write_byte_array': ('FcWriteByteArray', 'value')}
for _t in INTS:
    FMT['write_' + _t] = ('FcWriteInt %s' % _t.upper(), 'value')

ITOA = '{ let mut buffer = itoa::Buffer::new(); let s = buffer.format(value); writer.write_all(s.as_bytes()) }'
RYU = '{ let mut buffer = ryu::Buffer::new(); let s = buffer.format_finite(value); writer.write_all(s.as_bytes()) }'
PIN_FORMATTER = dict({'write_' + t: ITOA for t in INTS}, write_f32=RYU, write_f64=RYU,
                     write_number_str='{ writer.write_all(value.as_bytes()) }',
                     write_byte_array='{ tri!(self.begin_array(writer)); let mut first = true; for byte in value { tri!(self.begin_array_value(writer, first)); '
                                      'tri!(self.write_u8(writer, *byte)); tri!(self.end_array_value(writer)); first = false; } self.end_array(writer) }')
PIN_FORMAT_ESCAPED_STR = ('{ tri!(formatter.begin_string(writer)); tri!(format_escaped_str_contents(writer, formatter, value)); '
                          'formatter.end_string(writer) }')
PIN_COLLECT_STR = ("{ use self::fmt::Write; struct Adapter<'ser, W: 'ser, F: 'ser> { writer: &'ser mut W, formatter: &'ser mut F, error: Option<io::Error>, } "
                   "impl<'ser, W, F> Write for Adapter<'ser, W, F> where W: io::Write, F: Formatter, { fn write_str(&mut self, s: &str) -> fmt::Result { "
                   "debug_assert!(self.error.is_none()); match format_escaped_str_contents(self.writer, self.formatter, s) { Ok(()) => Ok(()), "
                   "Err(err) => { self.error = Some(err); Err(fmt::Error) } } } } "
                   "tri!(self.formatter.begin_string(&mut self.writer).map_err(Error::io)); "
                   "let mut adapter = Adapter { writer: &mut self.writer, formatter: &mut self.formatter, error: None, }; "
                   'match write!(adapter, "{}", value) { Ok(()) => debug_assert!(adapter.error.is_none()), '
                   'Err(fmt::Error) => { return Err(Error::io(adapter.error.expect("there should be an error"))); } } '
                   "self.formatter.end_string(&mut self.writer).map_err(Error::io) }")
PIN_STATE = '#[derive(Eq, PartialEq)] pub enum State { Empty, First, Rest, }'
PIN_COMPOUND = ("pub enum Compound<'a, W: 'a, F: 'a> { Map { ser: &'a mut Serializer<W, F>, state: State, }, "
                '#[cfg(feature = "arbitrary_precision")] Number { ser: &\'a mut Serializer<W, F> }, '
                '#[cfg(feature = "raw_value")] RawValue { ser: &\'a mut Serializer<W, F> }, }')
PIN_LINES = [   # (tag, text that must occur exactly once in the comment-free, squeezed source)
    ('struct MapKeySerializer', "struct MapKeySerializer<'a, W: 'a, F: 'a> { ser: &'a mut Serializer<W, F>, }"),
    ('struct NumberStrEmitter', '#[cfg(feature = "arbitrary_precision")] struct NumberStrEmitter<\'a, W: \'a + io::Write, F: \'a + Formatter>(&\'a mut Serializer<W, F>);'),
    ('struct RawValueStrEmitter', '#[cfg(feature = "raw_value")] struct RawValueStrEmitter<\'a, W: \'a + io::Write, F: \'a + Formatter>(&\'a mut Serializer<W, F>);'),
]
TRI = ('macro_rules! tri { ($e:expr $(,)?) => { match $e { core::result::Result::Ok(val) => val, '
       'core::result::Result::Err(err) => return core::result::Result::Err(err), } }; }')
ERRFNS = ['invalid_number', 'invalid_raw_value', 'key_must_be_a_string', 'float_key_must_be_finite']

def norm(s):
    """squeezed text with method chains that rustfmt split over lines joined again (`self .formatter .f(..)` -> `self.formatter.f(..)`)"""
    return re.sub(r' \.(?=[A-Za-z_])', '.', squeeze(s))

def methods_sig(block):
    """name -> (parameter names without the receiver, squeezed text between `)` and the body, normalised body) of every fn directly inside"""
    out = {}
    inner = block[1:-1]
    i = 0
    for m in re.finditer(r'\bfn (\w+)\s*(?:<[^>]*>)?\s*\(', inner):
        if m.start() < i:
            continue
        depth, j = 1, m.end()
        while depth:
            depth += {'(': 1, ')': -1}.get(inner[j], 0)
            j += 1
        params = [squeeze(p) for p in inner[m.end():j - 1].split(',') if squeeze(p)]
        k = inner.index('{', j)
        semi = inner.find(';', j)
        if semi != -1 and semi < k:
            i = semi + 1
            continue
        body, i = block_at(inner, k)
        names = []
        for p in params:
            if p in ('self', '&mut self', '&self', 'mut self'):
                continue
            pm = re.fullmatch(r'(\w+): (.+)', p)
            if not pm:
                raise Broken('parameter `%s` of %s' % (p, m.group(1)))
            names.append((pm.group(1), pm.group(2)))
        if m.group(1) in out:
            raise Broken('method %s defined twice' % m.group(1))
        out[m.group(1)] = (names, squeeze(inner[j:k]), norm(strip_comments(body)))
    return out

def ret_kind(after, who):
    m = re.match(r'-> Result<(\(\)|Self::Ok|Self::Serialize\w+)>', after)
    if not m:
        raise Broken('return type `%s`' % after[:60])
    return 'ru' if m.group(1) in ('()', 'Self::Ok') else 'rc'

# kinds: 'unit' ()   'ru' Result<()>   'rc' Result<Compound>   'rany' Err(..): any Result   'never' unreachable!()
def unify(a, b, what):
    if a == 'never': return b
    if b == 'never': return a
    if a == b: return a
    if a == 'rany' and b in ('ru', 'rc'): return b
    if b == 'rany' and a in ('ru', 'rc'): return a
    raise Broken('%s of different types (%s / %s)' % (what, a, b))

class SP(tf.P):
    """recursive descent over a normalised body; every parse function returns (list of Coq statements, kind)"""
    def __init__(self, s, ctx, params, ret, sigs, errs):
        tf.P.__init__(self, s)
        self.ctx, self.params, self.ret, self.sigs, self.errs = ctx, dict(params), ret, sigs, errs
        self.bound, self.variant = set(), None          # names bound by the enclosing Compound pattern, and its variant

    def peek(self, lit):
        self.ws()
        return self.s.startswith(lit, self.i)
    def here(self):
        return self.s[self.i:self.i + 50]
    def var(self, x):
        if x not in self.params:
            raise Broken('`%s` is not a parameter of the method' % x)
        return PNAMES[x]
    def recv(self, r):
        if self.ctx == 'ser':
            if r != 'self': raise Broken('receiver `%s` in a Serializer method' % r)
        elif r != 'ser' or 'ser' not in self.bound:
            raise Broken('receiver `%s` is not the `ser` bound by the enclosing Compound pattern' % r)
    def state(self):
        if 'state' not in self.bound or self.variant != 'Map':
            raise Broken('`state` used where no `Compound::Map { ser, state }` pattern binds it')

    # ---- Result-valued simple expressions ----
    def res(self):
        m = self.rx(r'(\w+)\.formatter\.(\w+)\(&mut (\w+)\.writer(?:, ([^()]*))?\)\.map_err\(Error::io\)')
        if m:
            self.recv(m.group(1)); self.recv(m.group(3))
            if m.group(2) not in FMT:
                raise Broken('formatter method `%s` is outside the subset' % m.group(2))
            con, kind = FMT[m.group(2)]
            arg = m.group(4)
            if kind is None:
                if arg is not None: raise Broken('%s takes no argument' % m.group(2))
                return ['XCall %s' % con], 'ru'
            if kind == 'value':
                if arg != 'value': raise Broken('argument `%s` of %s' % (arg, m.group(2)))
                self.var('value')
                return ['XCall %s' % (con if ' ' not in con else '(%s)' % con)], 'ru'
            if arg in ('true', 'false'):
                return ['XCall (%s (FEConst %s))' % (con, arg)], 'ru'
            fm = re.fullmatch(r'\*state == State::(\w+)', arg or '')
            if not fm or fm.group(1) not in STATES:
                raise Broken('first-flag `%s` of %s' % (arg, m.group(2)))
            self.state()
            return ['XCall (%s (FEStateIs %s))' % (con, fm.group(1))], 'ru'
        if self.eat('format_escaped_str(&mut self.writer, &mut self.formatter, value).map_err(Error::io)'):
            if self.ctx != 'ser': raise Broken('format_escaped_str on `self` outside a Serializer method')
            self.var('value')
            return ['XCall FcFormatEscapedStr'], 'ru'
        m = self.rx(r'(value|key)\.serialize\(')
        if m:
            x = self.var(m.group(1))
            if self.ctx == 'ser':
                if not (self.eat('&mut *self)') or self.eat('self)')):
                    raise Broken('serializer handed to the child: `%s`' % self.here())
                return ['XChild %s ViaSer' % x], 'ru'
            for lit, via, need in (('&mut **ser)', 'ViaSer', 'Map'), ('MapKeySerializer { ser: *ser })', 'ViaMapKey', 'Map'),
                                   ('NumberStrEmitter(ser))', 'ViaNumberEmitter', 'Number'), ('RawValueStrEmitter(ser))', 'ViaRawEmitter', 'RawValue')):
                if self.eat(lit):
                    if 'ser' not in self.bound or self.variant != need:
                        raise Broken('`%s` outside a `Compound::%s { ser, .. }` arm' % (lit[:-1], need))
                    return ['XChild %s %s' % (x, via)], 'ru'
            raise Broken('serializer handed to the child: `%s`' % self.here())
        m = self.rx(r'self\.(serialize_\w+|collect_str)\(')
        if m:
            if self.ctx != 'ser': raise Broken('`self.%s(..)` in a Compound method' % m.group(1))
            callee = m.group(1)
            short = callee[len('serialize_'):] if callee != 'collect_str' else callee
            if ('ser', callee) not in self.sigs:
                raise Broken('call of unknown method %s' % callee)
            args = []
            while not self.eat(')'):
                if args: self.need(',')
                if self.eat('Some(len)'):
                    self.var('len'); args.append('AESomeLen')
                elif self.eat('value.encode_utf8(&mut buf)'):
                    self.var('value'); args.append('AEEncodeUtf8')
                else:
                    a = self.rx(r'(value|key|variant)\b')
                    if not a: raise Broken('argument `%s` of %s' % (self.here(), callee))
                    args.append('AEVar %s' % self.var(a.group(1)))
            return [self.callm('MSer m_%s' % short, ('ser', callee), args)], self.sigs[('ser', callee)][1]
        m = self.rx(r'ser::(Serialize\w+)::(\w+)\(self((?:, (?:key|value))*)\)')
        if m:
            if self.ctx != 'comp': raise Broken('`ser::%s::%s(self, ..)` in a Serializer method' % (m.group(1), m.group(2)))
            if m.group(1) not in TRAITS: raise Broken('unknown trait %s' % m.group(1))
            tag, _, ctrait, fns = TRAITS[m.group(1)]
            args = ['AEVar %s' % self.var(a) for a in re.findall(r'\w+', m.group(3))]
            if (tag, m.group(2)) == ('map', 'serialize_entry'):      # serde's provided method (SerAst.default_entry)
                if m.group(3) != ', key, value': raise Broken('arguments of serialize_entry')
                return ['XCallM (MComp TMap Centry) [(PKey, AEVar PKey); (PValue, AEVar PValue)]'], 'ru'
            if m.group(2) not in dict(fns): raise Broken('%s has no method %s in the table' % (m.group(1), m.group(2)))
            return [self.callm('MComp %s %s' % (ctrait, dict(fns)[m.group(2)]), (tag, m.group(2)), args)], self.sigs[(tag, m.group(2))][1]
        return None

    def callm(self, coq, key, args):
        names = self.sigs[key][0]
        if len(names) != len(args):
            raise Broken('%s takes %d arguments, %d given' % (key[1], len(names), len(args)))
        binds = []
        for (n, _), a in zip(names, args):
            if n.startswith('_'):
                continue                    # the callee does not use it
            if n not in PNAMES: raise Broken('parameter `%s` of %s' % (n, key[1]))
            binds.append('(%s, %s)' % (PNAMES[n], a))
        return 'XCallM (%s) [%s]' % (coq, '; '.join(binds))

    # ---- expressions ----
    def expr(self):
        if self.eat('tri!('):
            r = self.res()
            if r is None: raise Broken('tri!(..) around `%s`' % self.here())
            if r[1] != 'ru': raise Broken('tri!(..) around an expression of type %s' % r[1])
            self.need(')')
            return r[0], 'unit'
        r = self.res()
        if r is not None:
            return r
        if self.eat('Ok(())'):
            return ['XOk'], 'ru'
        m = self.rx(r'Ok\(Compound::Map \{ ser: self, state: State::(\w+),? \}\)')
        if m:
            if self.ctx != 'ser' or m.group(1) not in STATES: raise Broken('Compound::Map constructor `%s`' % m.group(0))
            return ['XRetCompound (CEMap %s)' % m.group(1)], 'rc'
        m = self.rx(r'Ok\(Compound::(Number|RawValue) \{ ser: self,? \}\)')
        if m:
            if self.ctx != 'ser': raise Broken('Compound constructor in a Compound method')
            return ['XRetCompound CE%s' % m.group(1)], 'rc'
        m = self.rx(r'Err\((\w+)\(\)\)')
        if m:
            if m.group(1) not in self.errs: raise Broken('unknown error constructor %s' % m.group(1))
            return ['XErr %s' % self.errs[m.group(1)]], 'rany'
        if self.eat('unreachable!()'):
            return ['XUnreachable'], 'never'
        if self.peek('{'):
            return self.block()
        if self.eat('match self {') or self.eat('match *self {'):
            return self.match_self()
        if self.eat('match state {'):
            self.state()
            arms, kind = self.arms(lambda: (self.state_pat(), None), cfg=False)
            if [a[0] for a in arms][-1] != 'StPAny' and sorted(a[0] for a in arms) != sorted('StP ' + s for s in STATES):
                raise Broken('match state is not exhaustive')
            return ['XMatchState [%s]' % '; '.join('(%s, %s)' % (p if p == 'StPAny' else '(%s)' % p, lst(b)) for p, _, b in arms)], kind
        if self.eat('match name {'):
            self.var('name')
            arms, kind = self.arms(self.tok_pat, cfg=True)
            if arms[-1][0] != 'TokAny': raise Broken('match name without a final `_` arm')
            return ['XMatchName [%s]' % '; '.join('(%s, %s, %s)' % (CFGS[c], p, lst(b)) for p, c, b in arms)], kind
        if self.eat('match value.classify() {'):
            self.var('value')
            if not re.fullmatch(r'f(32|64)', self.params['value']): raise Broken('classify() on a `%s`' % self.params['value'])
            self.need('FpCategory::Nan | FpCategory::Infinite =>')
            a, ka = self.arm_body()
            self.need('_ =>')
            b, kb = self.arm_body()
            self.need('}')
            return ['XIfNonFinite %s %s' % (lst(a), lst(b))], unify(ka, kb, 'arms')
        m = self.rx(r'if len == Some\((\d+)\) (?=\{)')
        if m:
            self.var('len')
            a, ka = self.block(); self.need('else'); b, kb = self.block()
            return ['XIfLenIs %s%%nat %s %s' % (m.group(1), lst(a), lst(b))], unify(ka, kb, 'branches')
        m = self.rx(r'if key == (crate::\w+::TOKEN) (?=\{)')
        if m:
            self.var('key')
            if m.group(1) not in TOKENS: raise Broken('unknown token %s' % m.group(1))
            a, ka = self.block(); self.need('else'); b, kb = self.block()
            return ['XIfKeyIs %s %s %s' % (TOKENS[m.group(1)][0], lst(a), lst(b))], unify(ka, kb, 'branches')
        raise Broken('expression outside the subset: `%s`' % self.here())

    def state_pat(self):
        m = self.rx(r'State::(\w+)|_')
        if not m or (m.group(1) and m.group(1) not in STATES): raise Broken('State pattern `%s`' % self.here())
        return 'StP ' + m.group(1) if m.group(1) else 'StPAny'
    def tok_pat(self):
        m = self.rx(r'crate::\w+::TOKEN|_')
        if not m: raise Broken('pattern of match name: `%s`' % self.here())
        if m.group(0) == '_': return 'TokAny', None
        if m.group(0) not in TOKENS: raise Broken('unknown token %s' % m.group(0))
        return TOKENS[m.group(0)]

    def arm_body(self):
        """ARM [,]"""
        if self.peek('{'):
            r = self.block()
            self.eat(',')
            return r
        r = self.expr()
        if not self.eat(','):
            if not self.peek('}'): raise Broken('`,` expected after a match arm at `%s`' % self.here())
        return r

    def arms(self, pat, cfg):
        """[#[cfg(feature = "..")]] PAT => ARM, .. } : list of (pattern, cfg, body), common kind"""
        out, kind = [], 'never'
        while not self.eat('}'):
            m = self.rx(r'#\[cfg\(feature = "(\w+)"\)\]')
            got = m.group(1) if m else None
            if got is not None and (not cfg or got not in CFGS): raise Broken('attribute `%s` on a match arm' % m.group(0))
            p, want = pat()
            if cfg and got != want:
                raise Broken('arm `%s` is gated by %s, expected %s' % (p, got, want))
            self.need('=>')
            saved = (set(self.bound), self.variant)
            if isinstance(p, tuple):                 # a Compound pattern: (cpat, variant, bound names)
                self.bound, self.variant = set(p[2]), p[1]
                p = p[0]
            body, k = self.arm_body()
            self.bound, self.variant = saved
            kind = unify(kind, k, 'match arms')
            out.append((p, got, body))
        if not out: raise Broken('match without arms')
        return out, kind

    def match_self(self):
        if self.ctx != 'comp': raise Broken('match self in a Serializer method')
        def pat():
            m = self.rx(r'Compound::(\w+) \{ (ser, state|ser, \.\.|ser|\.\.) \}')
            if not m or m.group(1) not in VARIANT_CFG: raise Broken('Compound pattern `%s`' % self.here())
            names = [n for n in re.findall(r'\w+', m.group(2))]
            if 'state' in names and m.group(1) != 'Map': raise Broken('Compound::%s has no field `state`' % m.group(1))
            return ('CP' + m.group(1), m.group(1), names), VARIANT_CFG[m.group(1)]
        arms, kind = self.arms(pat, cfg=True)
        if [a[0] for a in arms] != ['CPMap', 'CPNumber', 'CPRawValue']:
            raise Broken('match self: arms are %s, expected Map, Number, RawValue' % [a[0] for a in arms])
        return ['XMatchSelf [%s]' % '; '.join('(%s, %s, %s)' % (CFGS[c], p, lst(b)) for p, c, b in arms)], kind

    def block(self):
        """{ item* } : statements, kind of the block"""
        self.need('{')
        out, kind = [], 'unit'
        while not self.eat('}'):
            if kind != 'unit':
                raise Broken('an expression of type %s is not in tail position: `%s` follows' % (kind, self.here()))
            m = self.rx(r'\*state = State::(\w+);')
            if m:
                if m.group(1) not in STATES: raise Broken('State::%s' % m.group(1))
                self.state()
                out.append('XSetState %s' % m.group(1)); continue
            if self.eat('let mut buf = [0; 4];'):
                if self.params.get('value') != 'char': raise Broken('`let mut buf` outside serialize_char')
                continue
            if self.peek('return'):
                raise Broken('`return` is outside the subset: `%s`' % self.here())
            ss, k = self.expr()
            if self.eat(';'):
                if k not in ('unit', 'never'): raise Broken('the value of an expression of type %s is dropped by `;`' % k)
                k = 'unit'
            out += ss
            kind = k
        return out, kind

def lst(ss):
    return '[' + '; '.join(ss) + ']'

def parse_method(body, ctx, params, ret, sigs, errs):
    p = SP(body, ctx, params, ret, sigs, errs)
    ss, kind = p.block()
    p.ws()
    if p.i != len(p.s): raise Broken('trailing text after the body')
    if kind == 'unit': raise Broken('the body has no value in tail position')
    unify(kind, ret, 'body and return type')
    return ss

def classify_emitter(which, m, entry):
    if entry is None:
        if m == 'collect_str': return 'EToStringThenStr'       # serde's default collect_str
        raise Broken('method missing (a default implementation of serde would apply)')
    body = entry[2]
    if m == 'collect_str' and body == '{ self.serialize_str(&value.to_string()) }': return 'EToStringThenStr'
    if which == 'number':
        if m == 'str' and body == '{ let NumberStrEmitter(serializer) = self; serializer.formatter.write_number_str(&mut serializer.writer, value).map_err(Error::io) }':
            return 'EWriteNumberStr'
        if body == '{ Err(invalid_number()) }': return 'EReject InvalidNumber'
    else:
        if m == 'str' and body == '{ let RawValueStrEmitter(serializer) = self; serializer.formatter.write_raw_fragment(&mut serializer.writer, value).map_err(Error::io) }':
            return 'EWriteRawFragment'
        if body == '{ Err(ser::Error::custom("expected RawValue")) }': return 'ERejectCustom'
    raise Broken('body of an unknown shape: `%s`' % body[:120])

def str_const(path, header_re):
    src = open(path, encoding='utf-8').read()
    ms = re.findall(header_re + r'\s*=\s*"((?:[^"\\])*)";', src)
    if len(ms) != 1: raise Broken('expected exactly one `%s`, found %d' % (header_re, len(ms)))
    if any(ord(c) > 127 for c in ms[0]): raise Broken('non-ASCII token')
    return [ord(c) for c in ms[0]]

WHERE = r"\s*where\s*W: io::Write,\s*F: Formatter,\s*\{"

def translate(repo):
    src = open(os.path.join(repo, 'src', 'ser.rs'), encoding='utf-8').read()
    src = '\n'.join('' if l.lstrip().startswith('//') else l for l in src.split('\n'))
    broken, out = [], {}
    # ---- blocks ----
    try:
        ser_block = find_block(src, r"\bimpl<'a, W, F> ser::Serializer for &'a mut Serializer<W, F>" + WHERE)
        impls = {'ser': methods_sig(ser_block)}
        for tag, trait, _, _ in COMPOUND:
            impls[tag] = methods_sig(find_block(src, r"\bimpl<'a, W, F> ser::%s for Compound<'a, W, F>" % trait + WHERE))
        number = methods_sig(find_block(src, r"\bimpl<'a, W: io::Write, F: Formatter> ser::Serializer for NumberStrEmitter<'a, W, F>\s*\{"))
        raw = methods_sig(find_block(src, r"\bimpl<'a, W: io::Write, F: Formatter> ser::Serializer for RawValueStrEmitter<'a, W, F>\s*\{"))
        trait = tf.methods_of(find_block(src, r'\bpub trait Formatter\s*\{'))
    except (Broken, ValueError, IndexError) as e:
        return None, [('ser:blocks', str(e))]
    # ---- error constructors ----
    errs = {}
    for f in ERRFNS:
        try:
            m = re.search(r'^fn %s\(\) -> Error\s*\{' % f, src, re.M)
            if not m: raise Broken('not found')
            body = squeeze(block_at(src, m.end() - 1)[0])
            em = re.fullmatch(r'\{ Error::syntax\(ErrorCode::(\w+), 0, 0\) \}', body)
            if not em or em.group(1) not in ECODES: raise Broken('body is `%s`' % body)
            errs[f] = em.group(1)
        except (Broken, ValueError, IndexError) as e:
            broken.append(('ser:pinned:' + f, str(e)))
    # ---- signatures: (impl, method) -> (parameter names, return kind) ----
    sigs = {}
    want = {'ser': [('serialize_' + m if m != 'collect_str' else m) for m in SER_METHODS]}
    for tag, _, _, fns in COMPOUND:
        want[tag] = [f for f, _ in fns]
    for tag, names in want.items():
        for n in names:
            try:
                if n not in impls[tag]:
                    raise Broken('method missing (a provided method of serde would apply)')
                params, after, _ = impls[tag][n]
                sigs[(tag, n)] = (params, ret_kind(after, n))
            except Broken as e:
                broken.append(('ser:%s:%s' % (tag, n), str(e)))
        extra = sorted(set(impls[tag]) - set(names))
        if extra:
            broken.append(('ser:%s:extra' % tag, 'methods outside the table (a provided method of serde is overridden, or a new helper): ' + ', '.join(extra)))
    if broken:
        return None, broken
    # ---- bodies ----
    for tag, names in want.items():
        for n in names:
            params, after, body = impls[tag][n]
            try:
                if (tag, n) == ('ser', 'collect_str'):
                    if body != norm(PIN_COLLECT_STR):
                        raise Broken('body differs from the pinned text the model `collect_str` was written from')
                    if [p for p, _ in params] != ['value']: raise Broken('parameters')
                    out[(tag, n)] = ['XCollectStr']
                    continue
                out[(tag, n)] = parse_method(body, 'ser' if tag == 'ser' else 'comp', params, sigs[(tag, n)][1], sigs, errs)
            except (Broken, ValueError, IndexError) as e:
                broken.append(('ser:%s:%s' % (tag, n), str(e)))
    # ---- emitters ----
    for which, ms in (('number', number), ('raw', raw)):
        for m in SER_METHODS:
            name = m if m == 'collect_str' else 'serialize_' + m
            try:
                out[(which + '_emitter', m)] = classify_emitter(which, m, ms.get(name))
            except Broken as e:
                broken.append(('ser:%s_emitter:%s' % (which, m), str(e)))
        extra = sorted(set(ms) - set((m if m == 'collect_str' else 'serialize_' + m) for m in SER_METHODS))
        if extra:
            broken.append(('ser:%s_emitter:extra' % which, 'methods outside the table: ' + ', '.join(extra)))
    # ---- pinned text ----
    flat = squeeze(strip_comments(src))
    def pin(tag, cond, why):
        if not cond: broken.append(('ser:pinned:' + tag, why))
    pin('enum State', flat.count(PIN_STATE) == 1 and len(re.findall(r'\benum State\b', flat)) == 1 and not re.search(r'\bimpl\b[^{;]*\bfor State\b', flat),
        'expected exactly `%s` and no hand-written impl for State' % PIN_STATE)
    pin('enum Compound', flat.count(PIN_COMPOUND) == 1 and len(re.findall(r'\benum Compound\b', flat)) == 1, 'expected exactly `%s`' % PIN_COMPOUND)
    for tag, text in PIN_LINES:
        pin(tag, flat.count(text) == 1, 'expected exactly one `%s`' % text)
    sq = squeeze(ser_block)
    for t in ['type Ok = ();', 'type Error = Error;'] + ["type %s = Compound<'a, W, F>;" % tr for _, tr, _, _ in COMPOUND]:
        pin('Serializer:' + t.split(' ')[1], sq.count(t) == 1 and len(re.findall(r'\btype %s\b' % t.split(' ')[1], sq)) == 1, 'expected `%s` in the Serializer impl' % t)
    for k, want_body in PIN_FORMATTER.items():
        pin('Formatter::' + k, trait.get(k) == want_body, 'body is `%s`, the interpreter assumes `%s`' % (trait.get(k), want_body))
    try:
        m = re.search(r'^fn format_escaped_str<W, F>\(writer: &mut W, formatter: &mut F, value: &str\) -> io::Result<\(\)>\s*where\s*W: \?Sized \+ io::Write,\s*F: \?Sized \+ Formatter,\s*\{', src, re.M)
        got = squeeze(block_at(src, m.end() - 1)[0]) if m else None
        pin('format_escaped_str', got == PIN_FORMAT_ESCAPED_STR, 'body is `%s`, the interpreter assumes `%s`' % (got, PIN_FORMAT_ESCAPED_STR))
        lib = open(os.path.join(repo, 'src', 'lib.rs'), encoding='utf-8').read()
        lib = '\n'.join('' if l.lstrip().startswith('//') else l for l in lib.split('\n'))
        m = re.search(r'^macro_rules! tri\s*\{', lib, re.M)
        got = squeeze('macro_rules! tri ' + block_at(lib, m.end() - 1)[0]) if m else None
        pin('tri!', got == TRI, 'macro is `%s`, the interpreter assumes `%s`' % (got, TRI))
    except (Broken, ValueError, IndexError, OSError) as e:
        broken.append(('ser:pinned', str(e)))
    # ---- tokens ----
    try:
        out['number_token'] = str_const(os.path.join(repo, 'src', 'number.rs'), r'\bpub\(crate\) const TOKEN: &str')
        out['raw_token'] = str_const(os.path.join(repo, 'src', 'raw.rs'), r'\bpub const TOKEN: &str')
    except (Broken, OSError) as e:
        broken.append(('ser:tokens', str(e)))
    return out, broken

def emit(out):
    L = ['(* Gen/SerTables.v — GENERATED by tools/translate_ser.py from /repo/src/ser.rs (tokens: number.rs, raw.rs) on every run. Do not edit.',
         '   The control logic of the text serializer, statement by statement (AST: Model/SerAst.v): the 31 methods of',
         "   `impl ser::Serializer for &'a mut Serializer<W, F>`, the 15 methods of the seven `impl ser::Serialize.. for Compound`,",
         '   and the classification of the methods of NumberStrEmitter / RawValueStrEmitter. *)',
         'From Coq Require Import List NArith.', 'From SJ Require Import Base.Bytes Model.Sval Model.Ser Model.KeyAst Model.SerAst.',
         'Import ListNotations.', 'Open Scope N_scope.', '']
    L.append('Definition SER_METHODS : list (smeth * list sstmt) := [')
    rows = []
    for m in SER_METHODS:
        n = m if m == 'collect_str' else 'serialize_' + m
        rows.append('  (* Serializer::%s *)\n  (MSer m_%s,\n    %s)' % (n, m, lst(out[('ser', n)])))
    for tag, trait, ctrait, fns in COMPOUND:
        for f, cfn in fns:
            rows.append('  (* <Compound as %s>::%s *)\n  (MComp %s %s,\n    %s)' % (trait, f, ctrait, cfn, lst(out[(tag, f)])))
    L.append(';\n'.join(rows))
    L.append('].')
    L.append('')
    for which, nm in (('number', 'SER_NUMBER_EMITTER'), ('raw', 'SER_RAW_EMITTER')):
        L.append('Definition %s : list (kmethod * eclass) :=\n  [%s].' % (nm, ';\n   '.join('(m_%s, %s)' % (m, out[(which + '_emitter', m)]) for m in SER_METHODS)))
        L.append('')
    L.append('(* number::TOKEN = "%s" *)' % ''.join(map(chr, out['number_token'])))
    L.append('Definition SER_NUMBER_TOKEN : bytes := %s.' % tf.nl(out['number_token']))
    L.append('(* raw::TOKEN = "%s" *)' % ''.join(map(chr, out['raw_token'])))
    L.append('Definition SER_RAW_TOKEN : bytes := %s.' % tf.nl(out['raw_token']))
    L.append('')
    L.append('Definition SER_SOURCE : ser_source := mkSrc SER_METHODS SER_NUMBER_TOKEN SER_RAW_TOKEN SER_NUMBER_EMITTER SER_RAW_EMITTER.')
    L.append('')
    return '\n'.join(L)

def main():
    ap = argparse.ArgumentParser()
    ap.add_argument('--repo', default='/repo')
    ap.add_argument('--out', default=os.path.join(os.path.dirname(os.path.abspath(__file__)), '..', 'coq', 'theories', 'Gen', 'SerTables.v'))
    a = ap.parse_args()
    out, broken = translate(a.repo)
    for name, why in broken:
        print('BROKEN %s: %s' % (name, why))
    if broken:
        return 3
    text = emit(out)
    old = open(a.out).read() if os.path.exists(a.out) else None
    if old != text:
        with open(a.out, 'w') as f:
            f.write(text)
        print('UPDATED ' + os.path.relpath(a.out))
    return 0

if __name__ == '__main__':
    sys.exit(main())
