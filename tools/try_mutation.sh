#!/bin/sh
# try_mutation.sh <patch.diff> <ID>...  — development-time: run checks against a scratch worktree of /repo with the patch applied.
# /repo itself is not touched; the worktree and its build output are removed afterwards.
set -e
PATCH="$(realpath "$1")"; shift
WT=/tmp/verif_mut_$$
git -C /repo worktree add -q --detach "$WT" HEAD
TAG=$(python3 -c "import hashlib,sys;print(hashlib.sha1(sys.argv[1].encode()).hexdigest()[:8])" "$WT")
trap 'git -C /repo worktree remove --force "$WT" 2>/dev/null; rm -rf "$WT"; rm -rf /verif/.cache/target-alt-$TAG /verif/.cache/harness-alt-$TAG; rm -f /verif/.cache/*-alt-$TAG.v' EXIT
git -C "$WT" apply "$PATCH"
cd /verif
for id in "$@"; do
  echo "=== $id against $(basename "$PATCH")"
  VERIF_REPO="$WT" ./check "$id" --tier quick 2>&1 | grep -E "VIOLATION|KNOWN|what:|AUDIT|evaluations|Traceback|Error" | head -10 || true
done
