#!/usr/bin/env python3
"""translate_str.py — regenerates coq/theories/Gen/StrTables.v from /repo/src/read.rs on every run.

A statement-level translator for the ESCAPE DECODING of src/read.rs — free functions, generic over `R: Read<'de>`, so written once for
SliceRead, StrRead and IoRead:

    parse_escape(read, validate, scratch) -> Result<()>            the match on the escape letter
    parse_unicode_escape(read, validate, scratch) -> Result<()>    \\uXXXX, the surrogate logic, the `loop` with `continue`
    push_wtf8_codepoint(n: u32, scratch)                           the 1/2/3/4-byte (W)UTF-8 encoder with its unsafe pointer writes
    ignore_escape(read) -> Result<()>                              the skip-scanner twin
    decode_four_hex_digits(a, b, c, d: u8) -> Option<u16>          the HEX0 / HEX1 table lookup with one sign check
and the data behind the two statics: the arms of `const fn decode_hex_val_slow` and `static HEXn: [i16; 256] = build_hex_table(shift)`.

The bodies are parsed into the AST of Model/StrAst.v; Proofs/StrSrc.v then proves that the hand-written models of Model/Str.v
(parse_escape, parse_unicode_escape / unicode_loop, push_wtf8, ignore_escape, decode_four_hex / hex_tab / hex_val) equal the interpretation
of the generated bodies.  The subset:

    item  ::= let [mut] x = tri!(RC);  |  tri!(RC);  |  let [mut] x = E;  |  x = E;
            | scratch.push(E);  |  read.discard();  |  push_wtf8_codepoint(E, scratch);
            | if C { item* } [else { item* } | else if ..]  |  if tri!(RC) CMP E { item* } else { item* }
            | match x { BP => ARM, .. }            ARM ::= { item* } | scratch.push(E) | return R
            | loop { item* }  |  continue;
            | return;  |  return R;  |  return if C { item* R } else { item* R };  |  R      (R only in tail position)
            | scratch.reserve(K); unsafe { <the pointer-write frame, see Model/StrAst.v SAppendEncoded> }
    RC    ::= next_or_eof(read) | peek_or_eof(read) | read.decode_hex_escape()
    R     ::= Ok(()) | error(read, ErrorCode::X) | parse_escape(read, validate, scratch) | parse_unicode_escape(read, validate, scratch)
            | Some(E) | None
    C     ::= C || C | C && C | validate | E CMP E                CMP ::= < <= > >= == !=
    E     ::= E `|` E  |  E & E  |  E << k  |  E >> k  |  E + E  |  E - E  |  E as T  |  ( E )  |  x  |  literal  |  b'c'  |  HEXn[E]
              with Rust's precedences (as > + - > << >> > & > | > comparisons > && > ||); every literal gets the type of the operand
              it meets (two different types, or none, is outside the subset); variable types are tracked through let / shadowing.
    BP    ::= b'x' | b'x'..=b'y' | BP | BP | _

Pinned by exact (whitespace-squeezed) text, because the interpreter takes them as primitives: the free functions next_or_eof, peek_or_eof,
error; the declarations of Read::{next, peek, discard, position, decode_hex_escape}; build_hex_table; the tri! macro; and the five
signatures.  Anything else: `BROKEN str:<what>: <why>`, exit status 3, the previous file is NOT rewritten.

Usage: translate_str.py [--repo /repo] [--out <file>]
"""
import re, sys, os, argparse
sys.path.insert(0, os.path.dirname(os.path.abspath(__file__)))
import translate_fmt as tf
Broken, block_at, squeeze, strip_comments = tf.Broken, tf.block_at, tf.squeeze, tf.strip_comments

# name -> (squeezed text between `fn name` and the body, value parameters [(name, type)], kind, takes validate)
SIGS = {
    'parse_escape': ("<'de, R: Read<'de>>( read: &mut R, validate: bool, scratch: &mut Vec<u8>, ) -> Result<()>", [], 'FResult', True),
    'parse_unicode_escape': ("<'de, R: Read<'de>>( read: &mut R, validate: bool, scratch: &mut Vec<u8>, ) -> Result<()>", [], 'FResult', True),
    'push_wtf8_codepoint': ('(n: u32, scratch: &mut Vec<u8>)', [('n', 'u32')], 'FUnit', False),
    'ignore_escape': ("<'de, R>(read: &mut R) -> Result<()> where R: ?Sized + Read<'de>,", [], 'FResult', False),
    'decode_four_hex_digits': ('(a: u8, b: u8, c: u8, d: u8) -> Option<u16>', [('a', 'u8'), ('b', 'u8'), ('c', 'u8'), ('d', 'u8')], 'FOption', False),
}
FNS = list(SIGS)
# does the function touch the reader / the scratch buffer (decides the argument list of a call)
CALL_ARGS = {'parse_escape': 'read, validate, scratch', 'parse_unicode_escape': 'read, validate, scratch', 'ignore_escape': 'read'}

PINNED_FNS = {   # free functions of read.rs the interpreter maps onto Model/Str.v next_or_eof / peek_or_eof and Model/Read.v error
    'next_or_eof': ("<'de, R>(read: &mut R) -> Result<u8> where R: ?Sized + Read<'de>,",
                    '{ match tri!(read.next()) { Some(b) => Ok(b), None => error(read, ErrorCode::EofWhileParsingString), } }'),
    'peek_or_eof': ("<'de, R>(read: &mut R) -> Result<u8> where R: ?Sized + Read<'de>,",
                    '{ match tri!(read.peek()) { Some(b) => Ok(b), None => error(read, ErrorCode::EofWhileParsingString), } }'),
    'error': ("<'de, R, T>(read: &R, reason: ErrorCode) -> Result<T> where R: ?Sized + Read<'de>,",
              '{ let position = read.position(); Err(Error::syntax(reason, position.line, position.column)) }'),
    'build_hex_table': ('(shift: usize) -> [i16; 256]',
                        '{ let mut table = [0; 256]; let mut ch = 0; while ch < 256 { table[ch] = match decode_hex_val_slow(ch as u8) '
                        '{ Some(val) => (val as i16) << shift, None => -1, }; ch += 1; } table }'),
}
TRAIT_DECLS = ['fn next(&mut self) -> Result<Option<u8>>;', 'fn peek(&mut self) -> Result<Option<u8>>;', 'fn discard(&mut self);',
               'fn position(&self) -> Position;', 'fn decode_hex_escape(&mut self) -> Result<u16>;']
TRI = ('macro_rules! tri { ($e:expr $(,)?) => { match $e { core::result::Result::Ok(val) => val, '
       'core::result::Result::Err(err) => return core::result::Result::Err(err), } }; }')
SLOW_SIG = '(val: u8) -> Option<u8>'

ECODES = ['EofWhileParsingList', 'EofWhileParsingObject', 'EofWhileParsingString', 'EofWhileParsingValue', 'ExpectedColon',
          'ExpectedListCommaOrEnd', 'ExpectedObjectCommaOrEnd', 'ExpectedSomeIdent', 'ExpectedSomeValue', 'ExpectedDoubleQuote',
          'InvalidEscape', 'InvalidNumber', 'NumberOutOfRange', 'InvalidUnicodeCodePoint', 'ControlCharacterWhileParsingString',
          'KeyMustBeAString', 'ExpectedNumericKey', 'FloatKeyMustBeFinite', 'LoneLeadingSurrogateInHexEscape', 'TrailingComma',
          'TrailingCharacters', 'UnexpectedEndOfHexEscape', 'RecursionLimitExceeded']

TYPES = {'u8': ('U8', 0, 2 ** 8 - 1), 'u16': ('U16', 0, 2 ** 16 - 1), 'u32': ('U32', 0, 2 ** 32 - 1), 'usize': ('Usize', 0, 2 ** 64 - 1),
         'i16': ('I16', -2 ** 15, 2 ** 15 - 1), 'i32': ('I32', -2 ** 31, 2 ** 31 - 1)}
BITS = {'u8': 8, 'u16': 16, 'u32': 32, 'usize': 64, 'i16': 16, 'i32': 32}

TOKEN = re.compile(r"\s*(b'(?:\\x[0-9a-fA-F]{2}|\\.|[^\\'])'|0x[0-9A-Fa-f_]+|0b[01_]+|[0-9][0-9_]*|[A-Za-z_][A-Za-z0-9_]*"
                   r"|\.\.=|\.\.|=>|::|==|!=|<=|>=|<<|>>|&&|\|\||[|&+\-<>(){}\[\],;!=.*:])")
ESC = {'n': 10, 't': 9, 'r': 13, '\\': 92, '"': 34, '0': 0, "'": 39}
IDENT = re.compile(r'[a-z_][a-z0-9_]*\Z')
NUMBER = re.compile(r'(0x[0-9A-Fa-f_]+|0b[01_]+|[0-9][0-9_]*)\Z')
KEYWORDS = {'_', 'self', 'let', 'mut', 'if', 'else', 'match', 'while', 'loop', 'return', 'as', 'true', 'false', 'fn', 'for', 'in', 'break',
            'continue', 'ref', 'move', 'unsafe', 'read', 'scratch', 'validate', 'tri'}
CMPS = {'<': 'CLt', '<=': 'CLe', '>': 'CGt', '>=': 'CGe', '==': 'CEq', '!=': 'CNe'}

def tokenize(s):
    out, i = [], 0
    s = s.strip()
    while i < len(s):
        m = TOKEN.match(s, i)
        if not m:
            raise Broken('token outside the subset at `%s`' % s[i:i + 40].strip())
        out.append(m.group(1))
        i = m.end()
    return out

def byte_value(tok):
    body = tok[2:-1]
    if body.startswith('\\x'):
        return int(body[2:], 16)
    if body.startswith('\\'):
        if body[1] not in ESC:
            raise Broken('escape in literal %s' % tok)
        return ESC[body[1]]
    if ord(body) > 127:
        raise Broken('non-ASCII literal %s' % tok)
    return ord(body)

def num_value(tok):
    t = tok.replace('_', '')
    if t.startswith('0x'): return int(t[2:], 16)
    if t.startswith('0b'): return int(t[2:], 2)
    return int(t)

def fix(e, ty):
    """give the untyped literal e the type ty"""
    assert e[0] == 'lit' and e[1] is None
    _, lo, hi = TYPES[ty]
    if not lo <= e[2] <= hi:
        raise Broken('literal %d does not fit %s' % (e[2], ty))
    return ('lit', ty, e[2])

class P:
    """recursive descent over the token list of one function body"""
    def __init__(self, toks, fn, statics):
        self.t, self.i, self.fn, self.statics = toks, 0, fn, statics
        self.kind, self.validate = SIGS[fn][2], SIGS[fn][3]
    def at(self, *lits):
        return self.t[self.i:self.i + len(lits)] == list(lits)
    def eat(self, *lits):
        if self.at(*lits):
            self.i += len(lits)
            return True
        return False
    def eats(self, text):
        return self.eat(*tokenize(text))
    def here(self):
        return ' '.join(self.t[self.i:self.i + 12])
    def need(self, *lits):
        if not self.eat(*lits):
            raise Broken('expected `%s` at `%s`' % (' '.join(lits), self.here()))
    def needs(self, text):
        self.need(*tokenize(text))
    def peek(self, k=0):
        return self.t[self.i + k] if self.i + k < len(self.t) else ''
    def is_ident(self, k=0):
        return bool(IDENT.match(self.peek(k))) and self.peek(k) not in KEYWORDS
    def ident(self):
        if self.is_ident():
            self.i += 1
            return self.t[self.i - 1]
        raise Broken('identifier expected at `%s`' % self.here())
    def number(self):
        if NUMBER.match(self.peek()):
            self.i += 1
            return num_value(self.t[self.i - 1])
        raise Broken('integer literal expected at `%s`' % self.here())

    # ---- expressions: (ast, type or None for a literal still untyped) ---------------------------------
    def unify(self, op, a, ta, b, tb):
        if ta is None and tb is None:
            raise Broken('operator between two untyped literals at `%s`' % self.here())
        if ta is None: a, ta = fix(a, tb), tb
        if tb is None: b, tb = fix(b, ta), ta
        if ta != tb:
            raise Broken('operands of different types %s / %s before `%s`' % (ta, tb, self.here()))
        return a, b, ta
    def binlevel(self, sub, ops):
        a, ta = sub()
        while self.peek() in ops:
            op = ops[self.peek()]; self.i += 1
            b, tb = sub()
            a, b, ta = self.unify(op, a, ta, b, tb)
            a = ('bin', op, a, b)
        return a, ta
    def e_or(self, scope):
        return self.binlevel(lambda: self.e_and(scope), {'|': 'OOr'})
    def e_and(self, scope):
        return self.binlevel(lambda: self.e_shift(scope), {'&': 'OAnd'})
    def e_shift(self, scope):
        a, ta = self.e_add(scope)
        while self.peek() in ('<<', '>>'):
            op = self.peek(); self.i += 1
            k = self.number()
            if ta is None:
                raise Broken('shift of an untyped literal')
            if k >= BITS[ta]:
                raise Broken('shift by %d in %s' % (k, ta))
            a = ('shl' if op == '<<' else 'shr', a, k)
        return a, ta
    def e_add(self, scope):
        return self.binlevel(lambda: self.e_cast(scope), {'+': 'OAdd', '-': 'OSub'})
    def e_cast(self, scope):
        a, ta = self.e_primary(scope)
        while self.eat('as'):
            ty = self.peek()
            if ty not in TYPES:
                raise Broken('cast to `%s`' % ty)
            self.i += 1
            if ta is None:
                raise Broken('cast of an untyped literal')
            a, ta = ('cast', a, ty), ty
        return a, ta
    def e_primary(self, scope):
        if self.eat('('):
            r = self.e_or(scope)
            self.need(')')
            return r
        if self.peek().startswith("b'"):
            self.i += 1
            return ('lit', 'u8', byte_value(self.t[self.i - 1])), 'u8'
        if NUMBER.match(self.peek()):
            return ('lit', None, self.number()), None
        if self.peek() in self.statics and self.peek(1) == '[':
            tab = self.peek(); self.i += 2
            e, te = self.e_or(scope)
            self.need(']')
            if te != 'usize':
                raise Broken('%s[..] indexed by %s, not usize' % (tab, te))
            return ('index', tab, e), 'i16'
        if self.is_ident():
            x = self.ident()
            if x not in scope:
                raise Broken('unknown variable `%s`' % x)
            return ('var', x), scope[x]
        raise Broken('expression outside the subset at `%s`' % self.here())
    def typed_expr(self, scope, want=None):
        e, te = self.e_or(scope)
        if te is None:
            if want is None:
                raise Broken('untyped literal before `%s`' % self.here())
            e, te = fix(e, want), want
        if want is not None and te != want:
            raise Broken('expression of type %s where %s is expected, before `%s`' % (te, want, self.here()))
        return e, te

    # ---- conditions -------------------------------------------------------------------------------------
    def c_or(self, scope):
        a = self.c_and(scope)
        while self.eat('||'):
            a = ('or', a, self.c_and(scope))
        return a
    def c_and(self, scope):
        a = self.c_atom(scope)
        while self.eat('&&'):
            a = ('and', a, self.c_atom(scope))
        return a
    def c_atom(self, scope):
        if self.eat('validate'):
            if not self.validate:
                raise Broken('`validate` in a function without that parameter')
            return ('validate',)
        a, ta = self.e_or(scope)
        if self.peek() not in CMPS:
            raise Broken('comparison expected at `%s`' % self.here())
        op = CMPS[self.peek()]; self.i += 1
        b, tb = self.e_or(scope)
        a, b, _ = self.unify(op, a, ta, b, tb)
        return ('cmp', op, a, b)

    # ---- reader calls / result expressions ----------------------------------------------------------------
    def at_tri(self):
        return self.at('tri', '!', '(')
    def rcall(self):
        self.need('tri', '!', '(')
        if self.eats('next_or_eof(read)'): r = ('CNextOrEof', 'u8')
        elif self.eats('peek_or_eof(read)'): r = ('CPeekOrEof', 'u8')
        elif self.eats('read.decode_hex_escape()'): r = ('CDecodeHex', 'u16')
        else: raise Broken('tri!(..) of something outside the subset at `%s`' % self.here())
        self.need(')')
        if self.fn not in CALL_ARGS:
            raise Broken('reader call in a function without `read`')
        return r
    def starts_rexpr(self):
        return self.at('Ok', '(') or self.at('error', '(') or self.at('Some', '(') or self.at('None') \
            or (self.peek() in CALL_ARGS and self.peek(1) == '(')
    def rexpr(self, scope):
        if self.eats('Ok(())'):
            if self.kind != 'FResult': raise Broken('Ok(()) in a function that does not return Result<()>')
            return ('ok',)
        if self.eats('error(read, ErrorCode::'):
            if self.kind != 'FResult' or self.fn not in CALL_ARGS: raise Broken('error(..) in a function that does not return Result<()>')
            c = self.peek(); self.i += 1
            if c not in ECODES:
                raise Broken('unknown ErrorCode::%s' % c)
            self.need(')')
            return ('err', c)
        if self.peek() in CALL_ARGS and self.peek(1) == '(':
            f = self.peek(); self.i += 1
            if self.kind != 'FResult': raise Broken('%s(..) as the result of a function that does not return Result<()>' % f)
            if CALL_ARGS[f] != CALL_ARGS.get(self.fn):
                raise Broken('%s called from a function with a different parameter list' % f)
            self.needs('(' + CALL_ARGS[f] + ')')
            return ('call', f)
        if self.eat('Some', '('):
            if self.kind != 'FOption': raise Broken('Some(..) in a function that does not return Option<u16>')
            e, _ = self.typed_expr(scope, 'u16')
            self.need(')')
            return ('some', e)
        if self.eat('None'):
            if self.kind != 'FOption': raise Broken('None in a function that does not return Option<u16>')
            return ('none',)
        raise Broken('result expression outside the subset at `%s`' % self.here())

    # ---- byte patterns -------------------------------------------------------------------------------------
    def bp_atom(self):
        if self.eat('('):
            p = self.bp()
            self.need(')')
            return p
        if self.eat('_'):
            return ('wild',)
        if self.peek().startswith("b'"):
            lo = byte_value(self.peek()); self.i += 1
            if self.eat('..='):
                if not self.peek().startswith("b'"):
                    raise Broken('byte literal expected after ..= at `%s`' % self.here())
                hi = byte_value(self.peek()); self.i += 1
                return ('range', lo, hi)
            return ('lit', lo)
        raise Broken('byte pattern outside the subset at `%s`' % self.here())
    def bp(self):
        p = self.bp_atom()
        while self.eat('|'):
            p = ('or', p, self.bp_atom())
        return p

    # ---- items ---------------------------------------------------------------------------------------------------
    def block(self, tail, scope):
        self.need('{')
        out = self.items(tail, dict(scope))
        self.need('}')
        return out
    def skip_block(self, j):
        if self.t[j:j + 1] != ['{']: raise Broken('`{` expected at `%s`' % ' '.join(self.t[j:j + 8]))
        depth = 0
        while True:
            if j >= len(self.t): raise Broken('unbalanced braces')
            depth += {'{': 1, '}': -1}.get(self.t[j], 0)
            j += 1
            if depth == 0: return j
    def if_extent(self):
        """self.at('if'): (index after the whole if / else-if / else chain, it has a final else)"""
        j = self.i
        while True:
            while self.t[j:j + 1] != ['{']:
                if j >= len(self.t): raise Broken('unbalanced if')
                j += 1
            j = self.skip_block(j)
            if self.t[j:j + 1] != ['else']: return j, False
            j += 1
            if self.t[j:j + 1] == ['if']: continue
            return self.skip_block(j), True
    def if_parse(self, tail, scope):
        self.need('if')
        if self.at_tri():
            rc, ty = self.rcall()
            if self.peek() not in CMPS:
                raise Broken('comparison expected after tri!(..) at `%s`' % self.here())
            op = CMPS[self.peek()]; self.i += 1
            rhs, _ = self.typed_expr(scope, ty)
            a = self.block(tail, scope)
            self.need('else')
            b = [self.if_parse(tail, scope)] if self.at('if') else self.block(tail, scope)
            return ('iftri', rc, op, rhs, a, b)
        c = self.c_or(scope)
        a = self.block(tail, scope)
        b = []
        if self.eat('else'):
            b = [self.if_parse(tail, scope)] if self.at('if') else self.block(tail, scope)
        return ('if', c, a, b)
    def arms(self, scope):
        out = []
        while not self.at('}'):
            p = self.bp()
            self.need('=>')
            if self.at('{'):
                body = self.block(False, scope)
                self.eat(',')
            else:
                if self.eat('return'):
                    body = [('ret', self.rexpr(scope))]
                elif self.eat('scratch', '.', 'push', '('):
                    e, _ = self.typed_expr(scope, 'u8')
                    self.need(')')
                    body = [('push', e)]
                else:
                    raise Broken('match arm outside the subset at `%s`' % self.here())
                if not self.at('}'):
                    self.need(',')
            out.append((p, body))
        if not out:
            raise Broken('match without arms')
        return out
    def unsafe_append(self, scope):
        """scratch.reserve(K); unsafe { let ptr = ..; let encoded_len = match x { .. }; ptr.add(encoded_len - 1).write(E); scratch.set_len(..); }"""
        self.needs('scratch.reserve(')
        reserve = self.number()
        self.needs('); unsafe { let ptr = scratch.as_mut_ptr().add(scratch.len()); let encoded_len = match')
        x = self.ident()
        if scope.get(x) not in ('u8', 'u16', 'u32'):
            raise Broken('match %s in the unsafe block: not an unsigned variable' % x)
        tx = scope[x]
        self.need('{')
        arms = []
        def bound():
            v = self.number()
            if not TYPES[tx][1] <= v <= TYPES[tx][2]: raise Broken('range bound %d does not fit %s' % (v, tx))
            return v
        while not self.at('}'):
            lo = bound()
            if self.eat('..='):
                up = ('closed', lo, bound())
            elif self.eat('..'):
                up = ('from', lo)
            else:
                raise Broken('range pattern expected at `%s`' % self.here())
            self.need('=>')
            if self.eats('unreachable!()'):
                arms.append((up, None))
                if not self.at('}'): self.need(',')
                continue
            self.need('{')
            ws = []
            while self.at('ptr'):
                self.need('ptr', '.')
                k = 0
                if self.eat('add', '('):
                    k = self.number()
                    self.need(')', '.')
                self.need('write', '(')
                e, _ = self.typed_expr(scope, 'u8')
                self.need(')', ';')
                ws.append((k, e))
            n = self.number()
            self.need('}')
            self.eat(',')
            arms.append((up, (ws, n)))
        self.needs('}; ptr.add(encoded_len - 1).write(')
        last, _ = self.typed_expr(scope, 'u8')
        self.needs('); scratch.set_len(scratch.len() + encoded_len); }')
        if 'encoded_len' in scope or 'ptr' in scope:
            raise Broken('`ptr` / `encoded_len` shadow a variable')
        return ('append', reserve, x, arms, last)
    def items(self, tail, scope):
        out, done = [], False
        while not self.at('}'):
            if self.i >= len(self.t):
                raise Broken('unexpected end of body')
            if done:
                raise Broken('item after a return / continue / tail expression: `%s`' % self.here())
            if self.at('let'):
                self.need('let'); self.eat('mut')
                x = self.ident(); self.need('=')
                if self.at_tri():
                    rc, ty = self.rcall()
                    self.need(';')
                    scope[x] = ty
                    out.append(('lettri', x, rc)); continue
                e, te = self.typed_expr(scope)
                self.need(';')
                scope[x] = te
                out.append(('let', x, e)); continue
            if self.at_tri():
                rc, _ = self.rcall()
                self.need(';')
                out.append(('tri', rc)); continue
            if self.is_ident() and self.peek(1) == '=':
                x = self.ident(); self.need('=')
                if x not in scope: raise Broken('assignment to unknown variable %s' % x)
                e, _ = self.typed_expr(scope, scope[x])
                self.need(';')
                out.append(('assign', x, e)); continue
            if self.at('scratch', '.', 'reserve'):
                if self.fn != 'push_wtf8_codepoint': raise Broken('unsafe append outside push_wtf8_codepoint')
                out.append(self.unsafe_append(scope)); continue
            if self.eat('scratch', '.', 'push', '('):
                if self.fn not in ('parse_escape', 'parse_unicode_escape', 'push_wtf8_codepoint'):
                    raise Broken('scratch in a function without that parameter')
                e, _ = self.typed_expr(scope, 'u8')
                self.need(')', ';')
                out.append(('push', e)); continue
            if self.eats('read.discard();'):
                if self.fn not in CALL_ARGS: raise Broken('read in a function without that parameter')
                out.append(('discard',)); continue
            if self.at('push_wtf8_codepoint', '('):
                if self.fn not in ('parse_escape', 'parse_unicode_escape'):
                    raise Broken('push_wtf8_codepoint called from a function without scratch')
                self.i += 2
                e, _ = self.typed_expr(scope, 'u32')
                self.needs(', scratch);')
                out.append(('callunit', 'push_wtf8_codepoint', [e])); continue
            if self.at('if'):
                end, has_else = self.if_extent()
                is_tail = tail and has_else and self.t[end:end + 1] == ['}']
                out.append(self.if_parse(is_tail, scope)); done = is_tail
                continue
            if self.eat('match'):
                x = self.ident()
                if scope.get(x) != 'u8': raise Broken('match %s: not a u8 variable' % x)
                self.need('{')
                arms = self.arms(scope)
                self.need('}')
                out.append(('match', x, arms)); continue
            if self.eat('loop'):
                out.append(('loop', self.block(False, scope))); done = True; continue
            if self.eats('continue;'):
                out.append(('continue',)); done = True; continue
            if self.eat('return'):
                if self.eat(';'):
                    if self.kind != 'FUnit': raise Broken('`return;` in a function that returns a value')
                    out.append(('ret', ('plain',))); done = True; continue
                if self.at('if'):
                    end, has_else = self.if_extent()
                    if not has_else: raise Broken('return if .. without else')
                    out.append(self.if_parse(True, scope))
                    self.need(';')
                    done = True; continue
                r = self.rexpr(scope)
                self.need(';')
                out.append(('ret', r)); done = True; continue
            if self.starts_rexpr():
                r = self.rexpr(scope)
                if not (tail and self.at('}')):
                    raise Broken('value expression outside tail position before `%s`' % self.here())
                out.append(('ret', r)); done = True; continue
            raise Broken('item outside the subset: `%s`' % self.here())
        if tail and not done and self.kind != 'FUnit':
            raise Broken('block in tail position ends without a value')
        return out

def parse_body(fn, body, statics):
    p = P(tokenize(body), fn, statics)
    scope = dict(SIGS[fn][1])
    ss = p.block(True, scope)
    if p.i != len(p.t):
        raise Broken('trailing text after body')
    return ss

# ---- source access -------------------------------------------------------------------------------------
def fn_source(src, fn, prefix=''):
    """(squeezed text between `fn <fn>` and the body, squeezed comment-free body) of the unique `[const] fn <fn>` of the file"""
    if len(re.findall(r'\bfn %s\b' % fn, src)) != 1:
        raise Broken('expected exactly one `fn %s`, found %d' % (fn, len(re.findall(r'\bfn %s\b' % fn, src))))
    m = re.search(r'^((?:#\[[^\n]*\]\n)*)%sfn %s\b' % (re.escape(prefix), fn), src, re.M)
    if not m:
        raise Broken('`%sfn %s` not found at the top level' % (prefix, fn))
    if 'cfg' in m.group(1):
        raise Broken('conditional compilation attribute `%s`' % squeeze(m.group(1)))
    j = src.index('{', m.end())
    return squeeze(src[m.end():j]), squeeze(strip_comments(block_at(src, j)[0]))

def hex_slow(src):
    """the arms of decode_hex_val_slow: [(lo, hi, base, add)] for `lo..=hi => Some(val - base [+ add])`"""
    head, body = fn_source(src, 'decode_hex_val_slow', 'const ')
    if head != SLOW_SIG:
        raise Broken('signature is `%s`, expected `%s`' % (head, SLOW_SIG))
    p = P(tokenize(body), 'decode_four_hex_digits', {})
    p.needs('{ match val {')
    arms = []
    while not p.at('_'):
        if not p.peek().startswith("b'"): raise Broken('byte range expected at `%s`' % p.here())
        lo = byte_value(p.peek()); p.i += 1
        p.need('..=')
        if not p.peek().startswith("b'"): raise Broken('byte range expected at `%s`' % p.here())
        hi = byte_value(p.peek()); p.i += 1
        p.needs('=> Some(val -')
        if not p.peek().startswith("b'"): raise Broken('byte literal expected at `%s`' % p.here())
        base = byte_value(p.peek()); p.i += 1
        add = 0
        if p.eat('+'):
            add = p.number()
        p.need(')', ',')
        arms.append((lo, hi, base, add))
    p.needs('_ => None, } }')
    if p.i != len(p.t): raise Broken('trailing text after body')
    return arms

def hex_statics(src):
    out = []
    for m in re.finditer(r'^static (\w+): ([^=]*)= ([^;]*);', src, re.M):
        mm = re.fullmatch(r'build_hex_table\((\d+)\)', m.group(3).strip())
        if not mm: continue
        if squeeze(m.group(2)) != '[i16; 256]':
            raise Broken('static %s has type `%s`, expected [i16; 256]' % (m.group(1), squeeze(m.group(2))))
        out.append((m.group(1), int(mm.group(1))))
    if len(set(n for n, _ in out)) != len(out):
        raise Broken('a hex table static is defined twice')
    for n, _ in out:
        if len(re.findall(r'\b(?:static|const|let)\s+(?:mut\s+)?%s\b' % n, src)) != 1:
            raise Broken('%s is defined more than once' % n)
    return out

def translate(repo):
    src = open(os.path.join(repo, 'src', 'read.rs'), encoding='utf-8').read()
    src = '\n'.join('' if l.lstrip().startswith('//') else l for l in src.split('\n'))
    broken, bodies, statics, slow = [], {}, [], []
    try:
        statics = hex_statics(src)
        if not statics: raise Broken('no `static ..: [i16; 256] = build_hex_table(..)`')
    except (Broken, ValueError, IndexError) as e:
        broken.append(('str:statics', str(e)))
    try:
        slow = hex_slow(src)
    except (Broken, ValueError, IndexError) as e:
        broken.append(('str:decode_hex_val_slow', str(e)))
    for fn in FNS:
        try:
            head, body = fn_source(src, fn)
            if head != SIGS[fn][0]:
                raise Broken('signature is `%s`, the interpreter assumes `%s`' % (head, SIGS[fn][0]))
            bodies[fn] = parse_body(fn, body, dict(statics))
        except (Broken, ValueError, IndexError) as e:
            broken.append(('str:' + fn, str(e)))
    for fn, (head_want, body_want) in PINNED_FNS.items():
        try:
            head, body = fn_source(src, fn, 'const ' if fn == 'build_hex_table' else '')
            if head != head_want:
                raise Broken('signature is `%s`, the interpreter assumes `%s`' % (head, head_want))
            if body != body_want:
                raise Broken('body is `%s`, the interpreter assumes `%s`' % (body, body_want))
        except (Broken, ValueError, IndexError) as e:
            broken.append(('str:pinned:' + fn, str(e)))
    try:
        m = list(re.finditer(r"^pub trait Read<'de>: private::Sealed\s*\{", src, re.M))
        if len(m) != 1: raise Broken("expected exactly one `pub trait Read<'de>: private::Sealed`")
        trait = block_at(src, m[0].end() - 1)[0]
        for d in TRAIT_DECLS:
            if len(re.findall(r'\n\s*' + re.escape(d), trait)) != 1:
                raise Broken('trait Read no longer declares `%s`' % d)
    except (Broken, ValueError, IndexError) as e:
        broken.append(('str:pinned:trait Read', str(e)))
    try:
        lib = open(os.path.join(repo, 'src', 'lib.rs'), encoding='utf-8').read()
        lib = '\n'.join('' if l.lstrip().startswith('//') else l for l in lib.split('\n'))
        m = re.search(r'^macro_rules! tri\s*\{', lib, re.M)
        if not m:
            raise Broken('macro not found')
        got = squeeze('macro_rules! tri ' + block_at(lib, m.end() - 1)[0])
        if got != TRI:
            raise Broken('macro is `%s`, the interpreter assumes `%s`' % (got, TRI))
    except (Broken, ValueError, IndexError, OSError) as e:
        broken.append(('str:pinned:tri!', str(e)))
    return bodies, statics, slow, broken

# ---- Coq output --------------------------------------------------------------------------------------------
def q(s):
    return '"%s"' % s
def z(v):
    return str(v) if v >= 0 else '(%d)' % v
def ty(t):
    return TYPES[t][0]
def coq_bp(p):
    k = p[0]
    if k == 'wild': return 'PWild'
    if k == 'lit': return '(PLit %d%%N)' % p[1]
    if k == 'range': return '(PRange %d%%N %d%%N)' % (p[1], p[2])
    return '(POr %s %s)' % (coq_bp(p[1]), coq_bp(p[2]))
def coq_expr(e):
    k = e[0]
    if k == 'lit': return '(ELit %s %s)' % (ty(e[1]), z(e[2]))
    if k == 'var': return '(EVar %s)' % q(e[1])
    if k == 'cast': return '(ECast %s %s)' % (coq_expr(e[1]), ty(e[2]))
    if k == 'bin': return '(EBin %s %s %s)' % (e[1], coq_expr(e[2]), coq_expr(e[3]))
    if k == 'shl': return '(EShl %s %d)' % (coq_expr(e[1]), e[2])
    if k == 'shr': return '(EShr %s %d)' % (coq_expr(e[1]), e[2])
    if k == 'index': return '(EIndex %s %s)' % (q(e[1]), coq_expr(e[2]))
    raise Broken('internal: expr ' + k)
def coq_cond(c):
    k = c[0]
    if k == 'validate': return 'CValidate'
    if k == 'cmp': return '(CCmp %s %s %s)' % (c[1], coq_expr(c[2]), coq_expr(c[3]))
    return '(%s %s %s)' % ('CAnd' if k == 'and' else 'COr', coq_cond(c[1]), coq_cond(c[2]))
def coq_rexpr(r):
    k = r[0]
    if k == 'ok': return 'ROk'
    if k == 'plain': return 'RPlain'
    if k == 'err': return '(RErrAt %s)' % r[1]
    if k == 'call': return '(RCallFn %s)' % q(r[1])
    if k == 'some': return '(RSome %s)' % coq_expr(r[1])
    return 'RNone'
def coq_stmt(s, ind):
    k = s[0]
    if k == 'lettri': return 'SLetTri %s %s' % (q(s[1]), s[2])
    if k == 'tri': return 'STri %s' % s[1]
    if k == 'let': return 'SLet %s %s' % (q(s[1]), coq_expr(s[2]))
    if k == 'assign': return 'SAssign %s %s' % (q(s[1]), coq_expr(s[2]))
    if k == 'push': return 'SPush %s' % coq_expr(s[1])
    if k == 'discard': return 'SDiscard'
    if k == 'callunit': return 'SCallUnit %s [%s]' % (q(s[1]), '; '.join(coq_expr(e) for e in s[2]))
    if k == 'if': return 'SIf %s %s %s' % (coq_cond(s[1]), coq_block(s[2], ind + 2), coq_block(s[3], ind + 2))
    if k == 'iftri': return 'SIfTri %s %s %s %s %s' % (s[1], s[2], coq_expr(s[3]), coq_block(s[4], ind + 2), coq_block(s[5], ind + 2))
    if k == 'loop': return 'SLoop %s' % coq_block(s[1], ind + 2)
    if k == 'continue': return 'SContinue'
    if k == 'ret': return 'SRet %s' % coq_rexpr(s[1])
    if k == 'match':
        pad = ' ' * (ind + 2)
        arms = (';\n' + pad).join('(%s, %s)' % (coq_bp(p), coq_block(b, ind + 4)) for p, b in s[2])
        return 'SMatchByte %s [\n%s%s]' % (q(s[1]), pad, arms)
    if k == 'append':
        pad = ' ' * (ind + 2)
        def up(u): return '(UClosed %d %d)' % (u[1], u[2]) if u[0] == 'closed' else '(UFrom %d)' % u[1]
        def arm(a):
            if a is None: return 'AUnreachable'
            return 'AWrites [%s] %d' % ('; '.join('(%d, %s)' % (kk, coq_expr(e)) for kk, e in a[0]), a[1])
        arms = (';\n' + pad).join('(%s, %s)' % (up(u), arm(a)) for u, a in s[3])
        return 'SAppendEncoded %d %s [\n%s%s]\n%s%s' % (s[1], q(s[2]), pad, arms, pad, coq_expr(s[4]))
    raise Broken('internal: ' + k)
def coq_block(ss, ind):
    if not ss: return '[]'
    if all(s[0] in ('push', 'discard', 'continue', 'ret', 'tri') for s in ss) and len(ss) <= 2:
        return '[' + '; '.join(coq_stmt(s, ind) for s in ss) + ']'
    pad = ' ' * ind
    return '[\n' + pad + (';\n' + pad).join(coq_stmt(s, ind) for s in ss) + ']'

def emit(bodies, statics, slow):
    L = ['(* Gen/StrTables.v — GENERATED by tools/translate_str.py from /repo/src/read.rs on every run. Do not edit.',
         '   The escape decoding of read.rs (parse_escape, parse_unicode_escape, push_wtf8_codepoint, ignore_escape, decode_four_hex_digits),',
         '   statement by statement (AST: Model/StrAst.v), the arms of decode_hex_val_slow and the shifts of the HEX statics. *)',
         'From Coq Require Import List NArith ZArith String.', 'From SJ Require Import Base.Bytes Model.StrAst.', 'Import ListNotations.',
         'Local Open Scope string_scope.', 'Local Open Scope Z_scope.', '']
    for fn in FNS:
        params = '[%s]' % '; '.join('(%s, %s)' % (q(x), ty(t)) for x, t in SIGS[fn][1])
        L.append('Definition STR_%s : fdef := mkFn %s %s %s.' % (fn, params, SIGS[fn][2], coq_block(bodies[fn], 2)))
        L.append('')
    L.append('(* decode_hex_val_slow: lo..=hi => Some(val - base + add) *)')
    L.append('Definition STR_HEX_SLOW : list (Z * Z * Z * Z) := [%s].' % '; '.join('(%d, %d, %d, %d)' % a for a in slow))
    L.append('(* static NAME: [i16; 256] = build_hex_table(shift) *)')
    L.append('Definition STR_STATICS : list (string * Z) := [%s].' % '; '.join('(%s, %d)' % (q(n), s) for n, s in statics))
    L.append('')
    L.append('Definition STR_PROG : prog := mkProg [')
    L.append(';\n'.join('  (%s, STR_%s)' % (q(fn), fn) for fn in FNS))
    L.append('] STR_STATICS STR_HEX_SLOW.')
    L.append('')
    return '\n'.join(L)

def main():
    ap = argparse.ArgumentParser()
    ap.add_argument('--repo', default='/repo')
    ap.add_argument('--out', default=os.path.join(os.path.dirname(os.path.abspath(__file__)), '..', 'coq', 'theories', 'Gen', 'StrTables.v'))
    a = ap.parse_args()
    bodies, statics, slow, broken = translate(a.repo)
    for name, why in broken:
        print('BROKEN %s: %s' % (name, why))
    if broken:
        return 3
    text = emit(bodies, statics, slow)
    old = open(a.out).read() if os.path.exists(a.out) else None
    if old != text:
        with open(a.out, 'w') as f:
            f.write(text)
        print('UPDATED ' + os.path.relpath(a.out))
    return 0

if __name__ == '__main__':
    sys.exit(main())
