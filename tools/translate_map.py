#!/usr/bin/env python3
"""translate_map.py — regenerates coq/theories/Gen/MapTables.v from /repo/src/map.rs on every run.

`serde_json::Map<String, Value>` is a wrapper: `pub struct Map<K, V> { map: MapImpl<K, V> }` with `MapImpl = BTreeMap` by default and
`IndexMap` under `cfg(feature = "preserve_order")`.  Every method body is a delegation to the backing value (the map, the inner entry, the inner
iterator), sometimes with a cfg-dependent CHOICE of backing operation.  For every method of

    impl Map<String, Value>, impl Entry / VacantEntry / OccupiedEntry,
    Default, Clone, PartialEq, Hash, Index, IndexMut, FromIterator, Extend, the three IntoIterator impls, the delegate_iterator! macro

the body is split into its two cfg variants (default build / preserve_order) and each variant is classified, by the exact whitespace-squeezed
text, into a `backing_call` of Model/MapAst.v:

    NotCompiled                      the method carries #[cfg(feature = "preserve_order")] and this is the default build
    NoOp                             the body is empty in this build
    Self_ m                          self.<m>(<own parameters>)                       another method of the same impl
    Call RMap s f                    self.map.<f>(<argument pattern>)                 s = the store `MapImpl` is in this build
    Call RVacant|ROccupied|RIter s f self.vacant|occupied|iter.<f>(<own parameters>)
    Call RStatic s f                 Map { map: MapImpl::new() | BTreeMap::new() | IndexMap::with_capacity(capacity) | FromIterator::from_iter(iter) }
    OnEntry vac occ                  match self { Entry::Vacant(e) => <arm>, Entry::Occupied(e) => <arm> }
    HashSortedByKey s                { let mut kv = Vec::from_iter(&self.map); kv.sort_unstable_by(|a, b| a.0.cmp(b.0)); kv.hash(state); }

The operation name `f` encodes the argument pattern and the wrapping where they are not "the method's own parameters, unwrapped":
    b_append        self.map.append(&mut other.map)
    b_extend_take   self.map.extend(mem::replace(&mut other.map, MapImpl::default()))   or   mem::take(&mut other.map)
    b_eq / b_clone_from  (&other.map) / (&source.map)
    b_get_mut_expect     self.map.get_mut(index).expect("no entry found for key")
    b_entry         self.map.entry(key.into()) re-wrapped arm by arm into Entry::Vacant(VacantEntry { vacant }) / Entry::Occupied(OccupiedEntry { occupied })
    b_iter ...      Iter { iter: self.map.iter() } ... (the wrapper struct of the same name);  b_clone: Map { map: self.map.clone() }
The stores are read off the `type MapImpl / VacantEntryImpl / ...` alias pairs (pinned by exact text).
Proofs/MapSrc.v proves that Model/MapM.v's `step` is the meaning of the table (Model/MapAst.v) and pins the choices property C17 talks about.
A body (or attribute, or alias) of another shape: `BROKEN map:<method>: <why>`, exit 3, the previous file is NOT rewritten.
Usage: translate_map.py [--repo /repo] [--out <file>]"""
import re, sys, os, argparse
sys.path.insert(0, os.path.dirname(os.path.abspath(__file__)))
import translate_fmt as tf
Broken = tf.Broken
squeeze = tf.squeeze

PO = '#[cfg(feature = "preserve_order")]'
DEF = '#[cfg(not(feature = "preserve_order"))]'
DOC = '#[cfg_attr(docsrs, doc(cfg(feature = "preserve_order")))]'

MAP_METHODS = ['new', 'with_capacity', 'clear', 'get', 'contains_key', 'get_mut', 'get_key_value', 'insert', 'shift_insert', 'remove', 'remove_entry',
               'swap_remove', 'swap_remove_entry', 'shift_remove', 'shift_remove_entry', 'append', 'entry', 'len', 'is_empty', 'iter', 'iter_mut',
               'keys', 'values', 'values_mut', 'into_values', 'retain', 'sort_keys']
ENTRY_METHODS = ['key', 'or_insert', 'or_insert_with', 'and_modify']
VACANT_METHODS = ['key', 'insert']
OCCUPIED_METHODS = ['key', 'get', 'get_mut', 'into_mut', 'insert', 'remove', 'swap_remove', 'shift_remove', 'remove_entry', 'swap_remove_entry',
                    'shift_remove_entry']
ITER_METHODS = ['next', 'size_hint', 'next_back', 'len']
BORROWQ = r"\s*where\s*String: Borrow<Q>,\s*Q: \?Sized \+ Ord \+ Eq \+ Hash,\s*\{"

# (tag, header regex, [(rust method name, Coq mmethod)], field of self the bodies delegate to)
IMPLS = [
    ('Map', r'\bimpl Map<String, Value>\s*\{', [(m, 'M_' + m) for m in MAP_METHODS], 'map'),
    ('Default', r'\bimpl Default for Map<String, Value>\s*\{', [('default', 'T_default')], 'map'),
    ('Clone', r'\bimpl Clone for Map<String, Value>\s*\{', [('clone', 'T_clone'), ('clone_from', 'T_clone_from')], 'map'),
    ('PartialEq', r'\bimpl PartialEq for Map<String, Value>\s*\{', [('eq', 'T_eq')], 'map'),
    ('Hash', r'\bimpl Hash for Map<String, Value>\s*\{', [('hash', 'T_hash')], 'map'),
    ('Index', r'\bimpl<Q> ops::Index<&Q> for Map<String, Value>' + BORROWQ, [('index', 'T_index')], 'map'),
    ('IndexMut', r'\bimpl<Q> ops::IndexMut<&Q> for Map<String, Value>' + BORROWQ, [('index_mut', 'T_index_mut')], 'map'),
    ('FromIterator', r'\bimpl FromIterator<\(String, Value\)> for Map<String, Value>\s*\{', [('from_iter', 'T_from_iter')], 'map'),
    ('Extend', r'\bimpl Extend<\(String, Value\)> for Map<String, Value>\s*\{', [('extend', 'T_extend')], 'map'),
    ('IntoIterator(&)', r"\bimpl<'a> IntoIterator for &'a Map<String, Value>\s*\{", [('into_iter', 'T_into_iter_ref')], 'map'),
    ('IntoIterator(&mut)', r"\bimpl<'a> IntoIterator for &'a mut Map<String, Value>\s*\{", [('into_iter', 'T_into_iter_mut')], 'map'),
    ('IntoIterator', r'\bimpl IntoIterator for Map<String, Value>\s*\{', [('into_iter', 'T_into_iter')], 'map'),
    ('Entry', r"\bimpl<'a> Entry<'a>\s*\{", [(m, 'E_' + m) for m in ENTRY_METHODS], None),
    ('VacantEntry', r"\bimpl<'a> VacantEntry<'a>\s*\{", [(m, 'V_' + m) for m in VACANT_METHODS], 'vacant'),
    ('OccupiedEntry', r"\bimpl<'a> OccupiedEntry<'a>\s*\{", [(m, 'O_' + m) for m in OCCUPIED_METHODS], 'occupied'),
    ('delegate_iterator', r'\bmacro_rules! delegate_iterator\s*\{', [(m, 'I_' + m) for m in ITER_METHODS], 'iter'),
]
RECV = {'map': 'RMap', 'vacant': 'RVacant', 'occupied': 'ROccupied', 'iter': 'RIter'}

# operations with "own parameters, unwrapped": receiver field -> Rust names accepted (b_<name> exists in Model/MapAst.v)
PLAIN = {
    'map': ['clear', 'get', 'contains_key', 'get_mut', 'get_key_value', 'insert', 'shift_insert', 'remove', 'remove_entry', 'swap_remove',
            'swap_remove_entry', 'shift_remove', 'shift_remove_entry', 'len', 'is_empty', 'retain', 'sort_unstable_keys', 'extend', 'hash', 'index'],
    'vacant': ['key', 'insert'],
    'occupied': ['key', 'get', 'get_mut', 'into_mut', 'insert', 'remove', 'swap_remove', 'shift_remove', 'remove_entry', 'swap_remove_entry',
                 'shift_remove_entry'],
    'iter': ['next', 'size_hint', 'next_back', 'len'],
}
# wrapper struct each iterator-producing call of self.map must be wrapped in
WRAP = {'iter': 'Iter', 'iter_mut': 'IterMut', 'keys': 'Keys', 'values': 'Values', 'values_mut': 'ValuesMut', 'into_values': 'IntoValues',
        'into_iter': 'IntoIter'}

# ---------------------------------------------------------------------------------------------- type aliases: which store each build uses
ALIASES = [   # (alias with its generics, default-build target, preserve_order target)
    ('MapImpl<K, V>', 'BTreeMap<K, V>', 'IndexMap<K, V>'),
    ("VacantEntryImpl<'a>", "btree_map::VacantEntry<'a, String, Value>", "indexmap::map::VacantEntry<'a, String, Value>"),
    ("OccupiedEntryImpl<'a>", "btree_map::OccupiedEntry<'a, String, Value>", "indexmap::map::OccupiedEntry<'a, String, Value>"),
    ("IterImpl<'a>", "btree_map::Iter<'a, String, Value>", "indexmap::map::Iter<'a, String, Value>"),
    ("IterMutImpl<'a>", "btree_map::IterMut<'a, String, Value>", "indexmap::map::IterMut<'a, String, Value>"),
    ('IntoIterImpl', 'btree_map::IntoIter<String, Value>', 'indexmap::map::IntoIter<String, Value>'),
    ("KeysImpl<'a>", "btree_map::Keys<'a, String, Value>", "indexmap::map::Keys<'a, String, Value>"),
    ("ValuesImpl<'a>", "btree_map::Values<'a, String, Value>", "indexmap::map::Values<'a, String, Value>"),
    ("ValuesMutImpl<'a>", "btree_map::ValuesMut<'a, String, Value>", "indexmap::map::ValuesMut<'a, String, Value>"),
    ('IntoValuesImpl', 'btree_map::IntoValues<String, Value>', 'indexmap::map::IntoValues<String, Value>'),
]
STRUCTS = [
    'pub struct Map<K, V> { map: MapImpl<K, V>, }',
    "pub enum Entry<'a> { Vacant(VacantEntry<'a>), Occupied(OccupiedEntry<'a>), }",
    "pub struct VacantEntry<'a> { vacant: VacantEntryImpl<'a>, }",
    "pub struct OccupiedEntry<'a> { occupied: OccupiedEntryImpl<'a>, }",
    "pub struct Iter<'a> { iter: IterImpl<'a>, }", "delegate_iterator!((Iter<'a>) => (&'a String, &'a Value));",
    "pub struct IterMut<'a> { iter: IterMutImpl<'a>, }", "delegate_iterator!((IterMut<'a>) => (&'a String, &'a mut Value));",
    'pub struct IntoIter { iter: IntoIterImpl, }', 'delegate_iterator!((IntoIter) => (String, Value));',
    "pub struct Keys<'a> { iter: KeysImpl<'a>, }", "delegate_iterator!((Keys<'a>) => &'a String);",
    "pub struct Values<'a> { iter: ValuesImpl<'a>, }", "delegate_iterator!((Values<'a>) => &'a Value);",
    "pub struct ValuesMut<'a> { iter: ValuesMutImpl<'a>, }", "delegate_iterator!((ValuesMut<'a>) => &'a mut Value);",
    'pub struct IntoValues { iter: IntoValuesImpl, }', 'delegate_iterator!((IntoValues) => Value);',
]

def check_types(src):
    """the alias pairs and wrapper structs, by exact text; returns the (default, preserve_order) stores"""
    s = squeeze(src)
    for al, d, p in ALIASES:
        want = '%s type %s = %s; %s type %s = %s;' % (DEF, al, d, PO, al, p)
        name = re.match(r'\w+', al).group(0)
        if want not in s:
            raise Broken('the alias pair `type %s` is not `%s` (default) / `%s` (preserve_order), each under its cfg' % (name, d, p))
        if len(re.findall(r'\btype %s\b' % name, s)) != 2:
            raise Broken('`type %s` is not defined exactly twice' % name)
    for st in STRUCTS:
        if s.count(st) != 1:
            raise Broken('expected exactly one `%s`' % st)
    return ('Bt', 'Ix')          # BTreeMap / btree_map::*  in the default build, IndexMap / indexmap::map::* under preserve_order (just checked)

# ---------------------------------------------------------------------------------------------- signatures and attributes
SIG = re.compile(r'((?:#\[[^\]]*\]\s*)*)(?:pub\s+)?fn\s+(\w+)\s*(?:<[^>]*>)?\s*\(([^()]*)\)')

def signatures(block):
    """name -> (po_only, [parameter names]) for the fns of the block"""
    out = {}
    for m in SIG.finditer(block):
        attrs = re.findall(r'#\[[^\]]*\]', m.group(1))
        name = m.group(2)
        if name in out:
            raise Broken('fn %s found twice' % name)
        po_only = False
        for a in attrs:
            a = squeeze(a)
            if a == PO:
                po_only = True
            elif a not in ('#[inline]', DOC):
                raise Broken('fn %s carries the attribute `%s`' % (name, a))
        if (DOC in [squeeze(a) for a in attrs]) != po_only:
            raise Broken('fn %s: doc(cfg) attribute without the cfg itself (or the converse)' % name)
        ps = []
        for p in m.group(3).split(','):
            p = p.strip()
            if p in ('', 'self', '&self', '&mut self', 'mut self'):
                continue
            if ':' not in p:
                raise Broken('fn %s: parameter `%s`' % (name, p))
            n = p.split(':')[0].strip()
            if n.startswith('mut '):
                n = n[4:].strip()
            if not re.fullmatch(r'\w+', n):
                raise Broken('fn %s: parameter pattern `%s`' % (name, n))
            ps.append(n)
        out[name] = (po_only, ps)
    return out

# ---------------------------------------------------------------------------------------------- the two cfg variants of a body
def item_end(body, j):
    """body[j:] starts an attributed item: a block, or a statement / struct field up to its `;` / `,` at depth 0"""
    if body[j] == '{':
        return tf.block_at(body, j)[1]
    depth, n = 0, len(body)
    while j < n:
        ch = body[j]
        if ch == '"':
            j += 1
            while j < n and body[j] != '"':
                j += 2 if body[j] == '\\' else 1
        elif ch in '([{':
            depth += 1
        elif ch in ')]}':
            depth -= 1
            if depth < 0:
                raise Broken('an attributed item without terminator')
        elif ch in ';,' and depth == 0:
            return j + 1
        j += 1
    raise Broken('an attributed item without terminator')

def cfg_split(body):
    """(default-build text, preserve_order text) of a squeezed body"""
    d, p, i, n = [], [], 0, len(body)
    while i < n:
        if body.startswith('#[', i):
            if body.startswith(PO, i):
                which, j = p, i + len(PO)
            elif body.startswith(DEF, i):
                which, j = d, i + len(DEF)
            else:
                raise Broken('attribute `%s` inside a body' % body[i:body.index(']', i) + 1])
            while body[j] == ' ':
                j += 1
            k = item_end(body, j)
            item = body[j:k]
            if '#[' in item:
                raise Broken('nested attributes')
            which.append(' ' + item + ' ')
            i = k
        else:
            d.append(body[i]); p.append(body[i])
            i += 1
    return squeeze(''.join(d)), squeeze(''.join(p))

def normal(body):
    """strip the braces (also of a body that is one block), a `return`, the final `;` of a single statement; `x .f()` -> `x.f()`"""
    b = body.strip()
    while b.startswith('{') and tf.block_at(b, 0)[1] == len(b):
        b = b[1:-1].strip()
    b = b.replace(' .', '.')
    if b.startswith('return ') and b.endswith(';') and b.count(';') == 1:
        b = b[len('return '):-1].strip()
    elif b.endswith(';') and b.count(';') == 1 and '{' not in b:
        b = b[:-1].strip()
    return b

def single_call(t):
    """t = HEAD(ARGS) with the parenthesis opened after HEAD closing at the very end: (HEAD, ARGS), else None"""
    i = t.find('(')
    if i <= 0 or not t.endswith(')'):
        return None
    depth = 0
    for j in range(i, len(t)):
        if t[j] == '(':
            depth += 1
        elif t[j] == ')':
            depth -= 1
            if depth == 0 and j != len(t) - 1:
                return None
    return (t[:i], t[i + 1:-1]) if depth == 0 else None

def arg_pattern(args, params):
    if args == ', '.join(params):
        return 'plain'
    if len(params) == 1:
        p = params[0]
        if args == '&mut %s.map' % p: return 'other_mut'
        if args in ('mem::replace(&mut %s.map, MapImpl::default())' % p, 'mem::take(&mut %s.map)' % p): return 'other_take'
        if args == '&%s.map' % p: return 'other_ref'
    raise Broken('arguments `%s` are neither the own parameters (%s) nor a known pattern' % (args, ', '.join(params)))

SPECIAL = {('append', 'other_mut'): 'b_append', ('extend', 'other_take'): 'b_extend_take', ('eq', 'other_ref'): 'b_eq',
           ('clone_from', 'other_ref'): 'b_clone_from'}

ENTRY_BODY = ('match self.map.entry(key.into()) { EntryImpl::Vacant(vacant) => Entry::Vacant(VacantEntry { vacant }), '
              'EntryImpl::Occupied(occupied) => Entry::Occupied(OccupiedEntry { occupied }), }')
ENTRY_USE = {'Bt': 'use alloc::collections::btree_map::Entry as EntryImpl; ', 'Ix': 'use indexmap::map::Entry as EntryImpl; '}
HASH_SORTED = 'let mut kv = Vec::from_iter(&self.map); kv.sort_unstable_by(|a, b| a.0.cmp(b.0)); kv.hash(state);'

def entry_arms(t, params):
    """match self { Entry::Vacant(x) => ARM, Entry::Occupied(y) => ARM, } -> OnEntry vac occ"""
    if not (t.startswith('match self { ') and t.endswith(' }')):
        raise Broken('not a `match self { .. }`: `%s`' % t[:120])
    parts = re.split(r'Entry::(Vacant|Occupied)\((?:mut )?(\w+)\) => ', t[len('match self { '):-2])
    if len(parts) != 7 or parts[0].strip() != '' or {parts[1], parts[4]} != {'Vacant', 'Occupied'}:
        raise Broken('the match does not have exactly the arms Entry::Vacant(..) and Entry::Occupied(..)')
    arms = {}
    for kind, var, arm in ((parts[1], parts[2], parts[3]), (parts[4], parts[5], parts[6])):
        arm = arm.strip()
        if arm.endswith(','):
            arm = arm[:-1].strip()
        pre, allowed = ('V_', VACANT_METHODS) if kind == 'Vacant' else ('O_', OCCUPIED_METHODS)
        def meth(m):
            if m not in allowed:
                raise Broken('arm %s calls `%s`, not a method of %sEntry' % (kind, m, kind))
            return pre + m
        m0 = re.fullmatch(r'%s\.(\w+)\(\)' % var, arm)
        m1 = re.fullmatch(r'%s\.(\w+)\((\w+)\)' % var, arm)
        m2 = re.fullmatch(r'%s\.(\w+)\((\w+)\(\)\)' % var, arm)
        m3 = re.fullmatch(r'\{ (\w+)\(%s\.(\w+)\(\)\); Entry::%s\(%s\) \}' % (var, kind, var), arm)
        if m0:
            arms[kind] = 'ArmCall ' + meth(m0.group(1))
        elif m1 and [m1.group(2)] == params:
            arms[kind] = 'ArmCallP ' + meth(m1.group(1))
        elif m2 and [m2.group(2)] == params:
            arms[kind] = 'ArmCallThunk ' + meth(m2.group(1))
        elif m3 and [m3.group(1)] == params:
            arms[kind] = 'ArmApplyKeep ' + meth(m3.group(2))
        elif arm == 'Entry::%s(%s)' % (kind, var):
            arms[kind] = 'ArmKeep'
        else:
            raise Broken('arm %s of an unknown shape: `%s`' % (kind, arm[:120]))
    return 'OnEntry (%s) (%s)' % (arms['Vacant'], arms['Occupied'])

def classify(tag, field, name, params, body, store, names, coq_of):
    t = normal(body)
    if t == '':
        return 'NoOp'
    if tag == 'Entry':
        return entry_arms(t, params)
    if tag == 'Map' and name == 'entry':
        if t == ENTRY_USE[store] + ENTRY_BODY and params == ['key']:
            return 'Call RMap %s b_entry' % store
        raise Broken('entry: not the pinned re-wrapping of self.map.entry(key.into()) for this store: `%s`' % t[:160])
    if t == HASH_SORTED and params == ['state'] and field == 'map':
        return 'HashSortedByKey ' + store
    # wrapped in a struct literal
    w = re.fullmatch(r'(\w+) \{ (\w+): (.+?),? \}', t)
    if w and field == 'map':
        S, fld, e = w.group(1), w.group(2), w.group(3).strip()
        if S == 'Map' and fld == 'map':
            if e == 'MapImpl::new()' and params == []: return 'Call RStatic %s b_new' % store
            if e == '{ let _ = capacity; BTreeMap::new() }' and params == ['capacity'] and store == 'Bt': return 'Call RStatic Bt b_new'
            if e == 'IndexMap::with_capacity(capacity)' and params == ['capacity'] and store == 'Ix': return 'Call RStatic Ix b_with_capacity'
            if e == 'FromIterator::from_iter(iter)' and params == ['iter']: return 'Call RStatic %s b_from_iter' % store
            if e == 'self.map.clone()' and params == []: return 'Call RMap %s b_clone' % store
        if fld == 'iter' and params == []:
            c = single_call(e)
            if c and c[1] == '' and c[0].startswith('self.map.') and WRAP.get(c[0][len('self.map.'):]) == S:
                return 'Call RMap %s b_%s' % (store, c[0][len('self.map.'):])
        raise Broken('struct literal of an unknown shape: `%s`' % t[:160])
    expect = False
    if t.endswith('.expect("no entry found for key")'):
        t, expect = t[:-len('.expect("no entry found for key")')], True
    c = single_call(t)
    if not c:
        raise Broken('body of an unknown shape: `%s`' % t[:160])
    head, args = c
    m = re.fullmatch(r'self\.(\w+)\.(\w+)', head)
    if m:
        if m.group(1) != field:
            raise Broken('delegates to self.%s, expected self.%s' % (m.group(1), field))
        f, ap = m.group(2), arg_pattern(args, params)
        if expect:
            if (f, ap) == ('get_mut', 'plain') and field == 'map': return 'Call RMap %s b_get_mut_expect' % store
            raise Broken('.expect(..) after `%s`' % head)
        if ap == 'plain' and f in PLAIN[field]:
            return 'Call %s %s b_%s' % (RECV[field], store, f)
        if field == 'map' and (f, ap) in SPECIAL:
            return 'Call RMap %s %s' % (store, SPECIAL[(f, ap)])
        raise Broken('self.%s.%s(%s): not a known backing operation / argument pattern' % (field, f, args))
    m = re.fullmatch(r'self\.(\w+)', head)
    if m and not expect:
        if m.group(1) in names and args == ', '.join(params):
            return 'Self_ ' + coq_of[m.group(1)]
        raise Broken('self.%s(%s): not a method of the same impl called with the own parameters' % (m.group(1), args))
    raise Broken('body of an unknown shape: `%s`' % t[:160])

def translate(repo):
    src = open(os.path.join(repo, 'src/map.rs'), encoding='utf-8').read()
    src = '\n'.join('' if l.lstrip().startswith('//') else l for l in src.split('\n'))
    broken, rows = [], []
    stores = None
    try:
        stores = check_types(src)
    except (Broken, ValueError) as e:
        broken.append(('map:types', str(e)))
        stores = ('Bt', 'Ix')
    for tag, header, methods, field in IMPLS:
        try:
            hm = list(re.finditer(header, src))
            block = tf.find_block(src, header)
            before = src[:hm[0].start()].rstrip().split('\n')[-1].strip()
            if before.startswith('#[cfg'):
                raise Broken('the impl itself is conditional: `%s`' % before)
            bodies = tf.methods_of(block)
            sigs = signatures(block)
        except (Broken, ValueError) as e:
            broken.append(('map:%s' % tag, str(e)))
            continue
        names = [m for m, _ in methods]
        coq_of = dict(methods)
        extra = sorted(set(bodies) - set(names))
        if extra:
            broken.append(('map:%s:extra' % tag, 'methods outside the table: ' + ', '.join(extra)))
        for m, coq in methods:
            label = 'map:%s' % m if tag == 'Map' else 'map:%s::%s' % (tag, m)
            try:
                if m not in bodies or m not in sigs:
                    raise Broken('method missing')
                po_only, params = sigs[m]
                bd, bp = cfg_split(bodies[m])
                cd = 'NotCompiled' if po_only else classify(tag, field, m, params, bd, stores[0], names, coq_of)
                cp = classify(tag, field, m, params, bp, stores[1], names, coq_of)
                rows.append((coq, cd, cp))
            except (Broken, ValueError) as e:
                broken.append((label, str(e)))
    return stores, rows, broken

def main():
    ap = argparse.ArgumentParser()
    ap.add_argument('--repo', default='/repo')
    ap.add_argument('--out', default=os.path.join(os.path.dirname(os.path.abspath(__file__)), '..', 'coq', 'theories', 'Gen', 'MapTables.v'))
    a = ap.parse_args()
    try:
        stores, rows, broken = translate(a.repo)
    except (Broken, ValueError, OSError) as e:
        stores, rows, broken = None, [], [('map:source', str(e))]
    for n, w in broken:
        print('BROKEN %s: %s' % (n, w))
    if broken:
        return 3
    L = ['(* Gen/MapTables.v — GENERATED by tools/translate_map.py from /repo/src/map.rs on every run. Do not edit.',
         '   For every method of the Map<String, Value> wrapper, of its entry types, trait impls and iterator macro: the call on the backing',
         '   value its body makes in the default build (first component) and under preserve_order (second component).',
         '   MAP_STORES: what `MapImpl` (and the entry / iterator aliases) are in the two builds. *)',
         'From SJ Require Import Model.MapAst.', 'From Coq Require Import List.', 'Import ListNotations.', '',
         'Definition MAP_STORES : store * store := (%s, %s).' % stores, '',
         'Definition MAP_TABLE : list (mmethod * (backing_call * backing_call)) :=\n  [%s].'
         % ';\n   '.join('(%s, (%s, %s))' % r for r in rows), '']
    text = '\n'.join(L)
    old = open(a.out).read() if os.path.exists(a.out) else None
    if old != text:
        open(a.out, 'w').write(text)
        print('UPDATED ' + os.path.relpath(a.out))
    return 0

if __name__ == '__main__':
    sys.exit(main())
