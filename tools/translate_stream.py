#!/usr/bin/env python3
"""translate_stream.py — regenerates coq/theories/Gen/StreamTables.v from /repo/src/de.rs and /repo/src/read.rs on every run.

A statement-level translator for `StreamDeserializer` (property C12) into the AST of Model/StreamAst.v (grammar in that file's header):

    de.rs    <StreamDeserializer as Iterator>::next                                         -> NEXT_BODY      (nexpr / nstmt)
             Deserializer::new, Deserializer::into_iter, StreamDeserializer::new,
             StreamDeserializer::byte_offset                                                -> CTOR_TABLE     (cexpr: lets + struct literals / T::new calls)
             impl FusedIterator for StreamDeserializer: is `R` bounded by `Fused`?          -> FUSED_BOUND
    read.rs  `const should_early_return_if_failed` and `fn set_failed` of the impls of
             Read for IoRead, SliceRead, StrRead and `&mut R`                               -> READER_IMPLS   (early_rhs / sfstmt)
             `impl Fused for X {}` markers                                                  -> FUSED_READERS

The callees of `next` are NOT translated here: parse_whitespace and peek_end_of_value are run from Gen/CursorTables.v (tools/translate_cursor.py),
`T::deserialize(&mut self.de)` is the abstract item parser, `Read::byte_offset` is tied to the source by tools/translate_read.py.
Proofs/StreamSrc.v proves Model/Stream.v's stream_next / set_failed / stream_init equal to the interpretation of the generated bodies.

Anything outside the subset is reported as `BROKEN stream:<what>: <why>` (exit status 3; the previous file is NOT rewritten).  Pinned by exact
(whitespace-squeezed) text: the impl headers and every signature / attribute line, the struct definitions (Deserializer, StreamDeserializer,
SliceRead, StrRead: field names, types and cfg guards), the two declarations in `trait Read` (no default bodies), `Error::is_io`, the
`Fused` trait line, and the number of `impl Read for ..` blocks (a fifth reader would be outside the translation).

Usage: translate_stream.py [--repo /repo] [--out <file>]        (--repo defaults to $VERIF_REPO, then /repo)
"""
import re, sys, os, argparse
sys.path.insert(0, os.path.dirname(os.path.abspath(__file__)))
import translate_scan as ts
import translate_fmt as tf
Broken, squeeze, block_at, strip_comments = ts.Broken, ts.squeeze, tf.block_at, tf.strip_comments

TOKEN = re.compile(r"\s*(\"(?:[^\"\\]|\\.)*\"|b'(?:\\x[0-9a-fA-F]{2}|\\.|[^\\'])'|[A-Za-z_][A-Za-z0-9_]*|[0-9]+|\.\.=|\.\.|=>|::|&&|\|\||==|!=|[@|(){}\[\],;!=.*&<>:#+\-])")

def tokenize(s):
    out, i = [], 0
    s = s.strip()
    while i < len(s):
        m = TOKEN.match(s, i)
        if not m:
            raise Broken('token outside the subset at `%s`' % s[i:i + 40].strip())
        out.append(m.group(1))
        i = m.end()
    return out

IDENT = re.compile(r'[a-z_][a-z0-9_]*\Z')
TYIDENT = re.compile(r'[A-Z][A-Za-z0-9]*\Z')
KEYWORDS = {'_', 'self', 'let', 'mut', 'if', 'else', 'match', 'while', 'loop', 'return', 'as', 'true', 'false', 'fn', 'for', 'in', 'break',
            'continue', 'ref', 'move'}

class Base(ts.P):
    """token cursor; the byte patterns (bp) are translate_scan's"""
    def __init__(self, toks):
        self.t, self.i = toks, 0
    def ident(self):
        if self.i < len(self.t) and IDENT.match(self.t[self.i]) and self.t[self.i] not in KEYWORDS:
            self.i += 1
            return self.t[self.i - 1]
        raise Broken('identifier expected at `%s`' % self.here())
    def is_ident(self, k=0):
        return self.i + k < len(self.t) and bool(IDENT.match(self.t[self.i + k])) and self.t[self.i + k] not in KEYWORDS
    def eats(self, text):
        return self.eat(*tokenize(text))
    def ats(self, text):
        return self.at(*tokenize(text))
    def needs(self, text):
        self.need(*tokenize(text))
    def end(self):
        if self.i != len(self.t): raise Broken('trailing text `%s`' % self.here())

# ---- <StreamDeserializer as Iterator>::next ------------------------------------------------------------------------------------------
BLOCKY = ('match', 'if', 'block')

class N(Base):
    def npat(self):
        if self.eat('_'): return ('wild',)
        if self.eat('(', ')'): return ('unit',)
        if self.eat('None'): return ('none',)
        for ctor, tag in (('Some', 'some'), ('Ok', 'ok'), ('Err', 'err')):
            if self.eat(ctor, '('):
                p = self.npat(); self.need(')')
                return (tag, p)
        if self.is_ident(): return ('var', self.ident())
        raise Broken('pattern outside the subset at `%s`' % self.here())
    def atom(self):
        if self.eat('!'): return ('not', self.atom())
        if self.eat('('):
            e = self.cond(); self.need(')')
            return e
        if self.eat('None'): return ('none',)
        for ctor, tag in (('Some', 'some'), ('Ok', 'ok'), ('Err', 'err')):
            if self.eat(ctor, '('):
                e = self.expr(); self.need(')')
                return (tag, e)
        if self.eat('true'): return ('bool', True)
        if self.eat('false'): return ('bool', False)
        if self.eats('self.de.parse_whitespace()'): return ('call', 'KParseWs')
        if self.eats('self.peek_end_of_value()'): return ('call', 'KPeekEnd')
        if self.eats('de::Deserialize::deserialize(&mut self.de)'): return ('call', 'KItem')
        if self.eats('R::should_early_return_if_failed'): return ('early',)
        if self.eats('self.failed'): return ('failed',)
        if self.is_ident():
            x = self.ident()
            if self.eats('.is_io()'): return ('isio', x)
            if self.at('.') or self.at('('): raise Broken('`%s%s..`: call / field access outside the subset' % (x, self.t[self.i]))
            return ('var', x)
        raise Broken('expression outside the subset at `%s`' % self.here())
    def cond(self):
        e = self.atom()
        while self.eat('&&'):
            e = ('and', e, self.atom())
        if self.at('||'): raise Broken('`||` is outside the subset')
        return e
    def expr(self):
        if self.at('{'): return self.block()
        if self.eat('match'): return self.match_()
        if self.eat('if'):
            c = self.cond()
            a = self.block()
            if not self.eat('else'): raise Broken('`if` without `else` used as a value')
            if self.at('if'): raise Broken('else if')
            return ('if', c, a, self.block())
        return self.cond()
    def match_(self):
        if self.is_ident() and self.t[self.i + 1:self.i + 2] == ['{'] and self.t[self.i + 2:self.i + 3] and \
           (self.t[self.i + 2].startswith("b'")):
            x = self.ident(); self.need('{')
            arms = []
            while not self.at('}'):
                p = self.bp(); self.need('=>')
                arms.append((p, self.arm()))
            self.need('}')
            return ('matchbyte', x, arms)
        e = self.cond()
        self.need('{')
        arms = []
        while not self.at('}'):
            p = self.npat(); self.need('=>')
            arms.append((p, self.arm()))
        self.need('}')
        return ('match', e, arms)
    def arm(self):
        e = self.expr()
        if e[0] in BLOCKY: self.eat(',')
        elif not self.at('}'): self.need(',')
        return e
    def block(self):
        self.need('{')
        ss, tail = self.items()
        self.need('}')
        return ('block', ss, tail if tail is not None else ('unit',))
    def stmts_block(self):
        self.need('{')
        ss, tail = self.items()
        self.need('}')
        if tail is not None: raise Broken('a value at the end of an `if` body without `else`')
        return ss
    def items(self):
        out = []
        while not self.at('}'):
            if self.i >= len(self.t): raise Broken('unexpected end of body')
            if out and out[-1][0] == 'return': raise Broken('item after a return: `%s`' % self.here())
            if self.eats('self.offset = self.de.read.byte_offset();'):
                out.append(('setoffset',)); continue
            if self.eats('self.de.read.set_failed(&mut self.failed);'):
                out.append(('setfailed',)); continue
            if self.at('self', '.', 'offset', '=') or self.ats('self.de.read.set_failed'):
                raise Broken('`%s`: not the form the translation knows' % self.here())
            if self.eat('return'):
                e = self.expr(); self.need(';')
                out.append(('return', e)); continue
            if self.eat('let'):
                if self.eat('mut'): raise Broken('let mut')
                x = self.ident(); self.need('=')
                e = self.expr(); self.need(';')
                out.append(('let', x, e)); continue
            if self.at('if'):
                save = self.i
                self.i += 1
                c = self.cond()
                close = self.skip_block(self.i)
                if self.t[close:close + 1] != ['else']:
                    out.append(('sif', c, self.stmts_block())); continue
                self.i = save
            e = self.expr()
            if not self.at('}'): raise Broken('expression outside tail position before `%s`' % self.here())
            return out, e
        return out, None

def parse_next(body):
    p = N(tokenize(body))
    e = p.block()
    p.end()
    return e

# ---- constructors --------------------------------------------------------------------------------------------------------------------
class C(Base):
    def cfg(self):
        if self.eat('#', '[', 'cfg', '('):
            neg = self.eat('not', '(')
            self.need('feature', '=')
            f = self.t[self.i]; self.i += 1
            if not f.startswith('"'): raise Broken('cfg attribute outside the subset')
            if neg: self.need(')')
            self.need(')', ']')
            return ('notfeature' if neg else 'feature', f[1:-1])
        if self.at('#'): raise Broken('attribute outside the subset at `%s`' % self.here())
        return ('always',)
    def primary(self):
        if self.eat('PhantomData'): return ('phantom',)
        if self.eats('Vec::new()'): return ('vecnew',)
        if self.eat('true'): return ('bool', True)
        if self.eat('false'): return ('bool', False)
        if self.i < len(self.t) and re.fullmatch(r'[0-9]+', self.t[self.i]):
            self.i += 1
            return ('num', int(self.t[self.i - 1]))
        if self.i < len(self.t) and TYIDENT.match(self.t[self.i]):
            ty = self.t[self.i]; self.i += 1
            if self.eat('::', 'new', '('):
                args = []
                while not self.at(')'):
                    args.append(self.expr())
                    if not self.at(')'): self.need(',')
                self.need(')')
                return ('new', ty, args)
            if self.eat('{'):
                fs = []
                while not self.at('}'):
                    g = self.cfg()
                    name = self.ident()
                    e = self.expr() if self.eat(':') else ('var', name)
                    fs.append((g, name, e))
                    if not self.at('}'): self.need(',')
                self.need('}')
                if len(set(f[1] for f in fs)) != len(fs): raise Broken('struct literal %s names a field twice' % ty)
                return ('struct', ty, fs)
            raise Broken('`%s` is neither `%s::new(..)` nor a struct literal' % (ty, ty))
        if self.eat('self'): return ('var', 'self')
        if self.is_ident(): return ('var', self.ident())
        raise Broken('expression outside the subset at `%s`' % self.here())
    def expr(self):
        e = self.primary()
        while self.eat('.'):
            f = self.ident()
            if self.eat('(', ')'):
                if f != 'byte_offset': raise Broken('method call .%s() outside the subset' % f)
                e = ('byteoffset', e)
            else:
                e = ('field', e, f)
        return e

def parse_ctor(params, body):
    p = C(tokenize(body))
    p.need('{')
    lets = []
    while p.eat('let'):
        x = p.ident(); p.need('=')
        e = p.expr(); p.need(';')
        lets.append((x, e))
    res = p.expr()
    p.need('}')
    p.end()
    return (params, lets, res)

# ---- the readers' hooks --------------------------------------------------------------------------------------------------------------
def parse_set_failed(param, body, delegate_ty):
    p = Base(tokenize(body))
    p.need('{')
    out = []
    while not p.at('}'):
        if p.eat('*', param, '='):
            if p.eat('true'): v = True
            elif p.eat('false'): v = False
            else: raise Broken('`*%s = ..`: not a bool literal' % param)
            p.need(';')
            out.append(('flag', v)); continue
        if p.eats('self.slice = &self.slice[..self.index'):
            k = 0
            if p.eat('+'):
                if not re.fullmatch(r'[0-9]+', p.t[p.i]): raise Broken('slice bound outside the subset')
                k = int(p.t[p.i]); p.i += 1
            p.need(']', ';')
            out.append(('trunc', k)); continue
        if p.eat('self', '.', 'delegate', '.', 'set_failed', '(', param, ')', ';'):
            if delegate_ty is None: raise Broken('self.delegate.set_failed: the struct has no field `delegate`')
            out.append(('delegate', delegate_ty)); continue
        if p.eat('R', '::', 'set_failed', '(', 'self', ',', param, ')', ';'):
            out.append(('forward',)); continue
        raise Broken('statement outside the subset at `%s`' % p.here())
    p.need('}')
    p.end()
    return out

# ---- source extraction ---------------------------------------------------------------------------------------------------------------
def load(repo, name):
    src = open(os.path.join(repo, 'src', name), encoding='utf-8').read()
    return '\n'.join('' if l.lstrip().startswith('//') else l for l in src.split('\n'))

def impl_block(src, header):
    ms = list(re.finditer(header, src, re.M))
    if len(ms) != 1: raise Broken('expected exactly one `%s`, found %d' % (header, len(ms)))
    return block_at(src, ms[0].end() - 1)[0]

def fns_of(block):
    """name -> [(attribute lines, header after `fn name`, body)] for every fn directly inside the impl block"""
    inner, out, i = block[1:-1], {}, 0
    for m in re.finditer(r'\bfn ([A-Za-z_][A-Za-z0-9_]*)', inner):
        if m.start() < i: continue
        j = inner.index('{', m.end())
        body, end = block_at(inner, j)
        pre = inner[i:m.start()]
        am = re.search(r'((?:#\[[^\n]*\]\s*)*)((?:pub(?:\(crate\))?\s+)?)\Z', pre)
        out.setdefault(m.group(1), []).append((squeeze(am.group(1)), squeeze(am.group(2) + 'fn ' + m.group(1) + inner[m.end():j]), squeeze(strip_comments(body))))
        i = end
    return out

def one_fn(fns, name, attr, header):
    if name not in fns: raise Broken('fn %s not found' % name)
    if len(fns[name]) != 1: raise Broken('%d definitions of fn %s' % (len(fns[name]), name))
    gattr, gheader, body = fns[name][0]
    if gattr != attr: raise Broken('attribute lines are `%s`, expected `%s`' % (gattr, attr))
    if gheader != header: raise Broken('signature is `%s`, the interpreter assumes `%s`' % (gheader, header))
    return body

DE_IMPLS = {
    'new_impl':    r"^impl<'de, R> Deserializer<R>\nwhere\n    R: read::Read<'de>,\n\{",
    'inherent':    r"^impl<'de, R: Read<'de>> Deserializer<R>\s*\{",
    'stream_impl': r"^impl<'de, R, T> StreamDeserializer<'de, R, T>\nwhere\n    R: read::Read<'de>,\n    T: de::Deserialize<'de>,\n\{",
    'iterator':    r"^impl<'de, R, T> Iterator for StreamDeserializer<'de, R, T>\nwhere\n    R: Read<'de>,\n    T: de::Deserialize<'de>,\n\{",
}
STRUCTS = {   # file, header regex, squeezed block
    'Deserializer': ('de.rs', r"^pub struct Deserializer<R>\s*\{",
                     '{ read: R, scratch: Vec<u8>, remaining_depth: u8, #[cfg(feature = "float_roundtrip")] single_precision: bool, '
                     '#[cfg(feature = "unbounded_depth")] disable_recursion_limit: bool, }'),
    'StreamDeserializer': ('de.rs', r"^pub struct StreamDeserializer<'de, R, T>\s*\{",
                           "{ de: Deserializer<R>, offset: usize, failed: bool, output: PhantomData<T>, lifetime: PhantomData<&'de ()>, }"),
    'SliceRead': ('read.rs', r"^pub struct SliceRead<'a>\s*\{",
                  "{ slice: &'a [u8], index: usize, #[cfg(feature = \"raw_value\")] raw_buffering_start_index: usize, }"),
    'StrRead': ('read.rs', r"^pub struct StrRead<'a>\s*\{", "{ delegate: SliceRead<'a>, #[cfg(feature = \"raw_value\")] data: &'a str, }"),
}
READ_IMPLS = [   # table key, header regex, struct whose field `delegate` a delegation goes through, attribute lines of set_failed, is the forwarder
    ('IoRead',    r"^impl<'de, R> Read<'de> for IoRead<R>\nwhere\n    R: io::Read,\n\{", None, '#[inline] #[cold]', False),
    ('SliceRead', r"^impl<'a> Read<'a> for SliceRead<'a>\s*\{", None, '#[inline] #[cold]', False),
    ('StrRead',   r"^impl<'a> Read<'a> for StrRead<'a>\s*\{", 'SliceRead', '#[inline] #[cold]', False),
    ('&mut R',    r"^impl<'de, R> Read<'de> for &mut R\nwhere\n    R: Read<'de>,\n\{", None, '', True),
]

def top_level(block):
    """the impl block with the bodies of its fns blanked out"""
    inner, spans, i = block[1:-1], [], 0
    for m in re.finditer(r'\bfn ([A-Za-z_][A-Za-z0-9_]*)', inner):
        if m.start() < i: continue
        k = min([x for x in (inner.find('{', m.end()), inner.find(';', m.end())) if x >= 0])
        if inner[k] == ';':          # a declaration without body (trait)
            i = k + 1; continue
        i = block_at(inner, k)[1]
        spans.append((k, i))
    for a, b in reversed(spans):
        inner = inner[:a] + inner[b:]
    return strip_comments(inner)

def translate(repo):
    broken, out = [], {}
    try:
        de, rd, er = load(repo, 'de.rs'), load(repo, 'read.rs'), load(repo, 'error.rs')
    except OSError as e:
        return out, [('stream:source', str(e))]
    files = {'de.rs': de, 'read.rs': rd}
    def attempt(tag, f):
        try:
            f()
        except (Broken, ValueError, IndexError) as e:
            broken.append(('stream:' + tag, str(e)))

    # -- struct definitions
    for name, (fname, header, want) in STRUCTS.items():
        def chk(name=name, fname=fname, header=header, want=want):
            ms = list(re.finditer(header, files[fname], re.M))
            if len(ms) != 1: raise Broken('expected exactly one `%s`, found %d' % (header, len(ms)))
            got = squeeze(strip_comments(block_at(files[fname], ms[0].end() - 1)[0]))
            if got != want: raise Broken('fields are `%s`, the translation assumes `%s`' % (got, want))
        attempt('struct:' + name, chk)

    # -- de.rs
    blocks = {}
    for tag, header in DE_IMPLS.items():
        attempt('impl:' + tag, lambda tag=tag, header=header: blocks.__setitem__(tag, impl_block(de, header)))
    if len(blocks) != len(DE_IMPLS): return out, broken
    found = {tag: fns_of(blocks[tag]) for tag in blocks}
    ctors = {}
    def ctor(key, tag, name, attr, header, params):
        def go():
            ctors[key] = parse_ctor(params, one_fn(found[tag], name, attr, header))
        attempt(key, go)
    ctor('Deserializer::new', 'new_impl', 'new', '', 'pub fn new(read: R) -> Self', ['read'])
    ctor('Deserializer::into_iter', 'inherent', 'into_iter', '',
         "pub fn into_iter<T>(self) -> StreamDeserializer<'de, R, T> where T: de::Deserialize<'de>,", ['self'])
    ctor('StreamDeserializer::new', 'stream_impl', 'new', '', 'pub fn new(read: R) -> Self', ['read'])
    ctor('StreamDeserializer::byte_offset', 'stream_impl', 'byte_offset', '', 'pub fn byte_offset(&self) -> usize', ['self'])
    def shape():
        if sorted(found['new_impl']) != ['new']: raise Broken('the impl holds %s, expected only `new`' % sorted(found['new_impl']))
        if sorted(found['stream_impl']) != ['byte_offset', 'new', 'peek_end_of_value']:
            raise Broken('the inherent impl of StreamDeserializer holds %s' % sorted(found['stream_impl']))
        one_fn(found['stream_impl'], 'peek_end_of_value', '', 'fn peek_end_of_value(&mut self) -> Result<()>')
        if sorted(found['iterator']) != ['next']: raise Broken('the Iterator impl holds %s' % sorted(found['iterator']))
        if squeeze(top_level(blocks['iterator'])) != 'type Item = Result<T>; fn next(&mut self) -> Option<Result<T>>':
            raise Broken('items of the Iterator impl are `%s`' % squeeze(top_level(blocks['iterator'])))
    attempt('impl:shape', shape)
    def nxt():
        out['next'] = parse_next(one_fn(found['iterator'], 'next', '', 'fn next(&mut self) -> Option<Result<T>>'))
    attempt('next', nxt)
    def fused_bound():
        ms = list(re.finditer(r"^impl<'de, R, T> FusedIterator for StreamDeserializer<'de, R, T>\nwhere\n    R: Read<'de>( \+ Fused)?,\n    T: de::Deserialize<'de>,\n\{\s*\}", de, re.M))
        if len(ms) != 1: raise Broken('the FusedIterator impl is not of the form the translation knows (found %d)' % len(ms))
        if len(re.findall(r'\bFusedIterator for\b', de)) != 1: raise Broken('several FusedIterator impls')
        out['fused_bound'] = ms[0].group(1) is not None
    attempt('FusedIterator', fused_bound)
    def is_io():
        ms = list(re.finditer(r'^[ \t]*pub fn is_io\(&self\) -> bool\s*\{', er, re.M))
        if len(ms) != 1: raise Broken('expected exactly one `pub fn is_io(&self) -> bool`')
        got = squeeze(strip_comments(block_at(er, ms[0].end() - 1)[0]))
        if got != '{ self.classify() == Category::Io }': raise Broken('body is `%s`, the interpreter assumes `{ self.classify() == Category::Io }`' % got)
    attempt('pinned:Error::is_io', is_io)

    # -- read.rs
    def trait():
        blk = impl_block(rd, r"^pub trait Read<'de>: private::Sealed\s*\{")
        top = squeeze(top_level(blk))
        for decl in ('const should_early_return_if_failed: bool;', 'fn set_failed(&mut self, failed: &mut bool);'):
            if top.count(decl) != 1: raise Broken('`%s` is not declared exactly so (without default) in trait Read' % decl)
        if len(re.findall(r'should_early_return_if_failed', top)) != 1 or len(re.findall(r'\bset_failed\b', top)) != 1:
            raise Broken('trait Read mentions the hooks more than once')
    attempt('trait Read', trait)
    def count_impls():
        n = len(re.findall(r"^impl<[^\n]*> Read<'\w+> for ", rd, re.M))
        if n != len(READ_IMPLS): raise Broken('%d impls of Read in read.rs, the translation knows %d' % (n, len(READ_IMPLS)))
    attempt('impls of Read', count_impls)
    readers = {}
    for key, header, deleg, attr, is_fwd in READ_IMPLS:
        def go(key=key, header=header, deleg=deleg, attr=attr, is_fwd=is_fwd):
            blk = impl_block(rd, header)
            top = top_level(blk)
            ms = re.findall(r'const should_early_return_if_failed: bool = ([^;]*);', top)
            if len(ms) != 1 or len(re.findall(r'const\s+should_early_return_if_failed', top)) != 1:
                raise Broken('expected exactly one `const should_early_return_if_failed: bool = ..;`')
            rhs = squeeze(ms[0])
            if rhs in ('true', 'false'): early = ('lit', rhs == 'true')
            elif rhs == 'R::should_early_return_if_failed' and is_fwd: early = ('ofr',)
            else: raise Broken('should_early_return_if_failed = `%s` is outside the subset' % rhs)
            fns = fns_of(blk)
            if 'set_failed' not in fns or len(fns['set_failed']) != 1: raise Broken('expected exactly one fn set_failed')
            gattr, gheader, body = fns['set_failed'][0]
            if gattr != attr: raise Broken('attribute lines of set_failed are `%s`, expected `%s`' % (gattr, attr))
            m = re.fullmatch(r'fn set_failed\(&mut self, (_?[a-z][a-z0-9_]*): &mut bool\)', gheader)
            if not m: raise Broken('signature `%s` is not `fn set_failed(&mut self, <name>: &mut bool)`' % gheader)
            readers[key] = (early, parse_set_failed(m.group(1), body, deleg))
        attempt(key, go)
    def fused():
        if len(re.findall(r'^pub trait Fused: private::Sealed \{\}$', rd, re.M)) != 1: raise Broken('`pub trait Fused: private::Sealed {}` not found')
        names = re.findall(r"^impl(?:<[^>\n]*>)? Fused for ([A-Za-z]+)(?:<[^>\n]*>)? \{\}$", rd, re.M)
        if len(names) != len(re.findall(r'\bFused for\b', rd)): raise Broken('an `impl Fused for ..` outside the subset')
        out['fused_readers'] = names
    attempt('Fused', fused)
    out['ctors'], out['readers'] = ctors, readers
    return out, broken

# ---- Coq output ------------------------------------------------------------------------------------------------------------------------
q, coq_bp = ts.q, ts.coq_bp
def b(v): return 'true' if v else 'false'
def coq_npat(p):
    k = p[0]
    if k == 'wild': return 'NpWild'
    if k == 'unit': return 'NpUnit'
    if k == 'none': return 'NpNone'
    if k == 'var': return '(NpVar %s)' % q(p[1])
    return '(%s %s)' % ({'some': 'NpSome', 'ok': 'NpOk', 'err': 'NpErr'}[k], coq_npat(p[1]))
def coq_nexpr(e, ind):
    k = e[0]
    pad = ' ' * (ind + 2)
    if k == 'unit': return 'NUnitE'
    if k == 'none': return 'NNoneE'
    if k in ('some', 'ok', 'err'): return '(%s %s)' % ({'some': 'NSomeE', 'ok': 'NOkE', 'err': 'NErrE'}[k], coq_nexpr(e[1], ind))
    if k == 'bool': return '(NBoolE %s)' % b(e[1])
    if k == 'var': return '(NVar %s)' % q(e[1])
    if k == 'failed': return 'NFailed'
    if k == 'early': return 'NEarly'
    if k == 'and': return '(NAnd %s %s)' % (coq_nexpr(e[1], ind), coq_nexpr(e[2], ind))
    if k == 'not': return '(NNot %s)' % coq_nexpr(e[1], ind)
    if k == 'isio': return '(NIsIo %s)' % q(e[1])
    if k == 'call': return '(NCall %s)' % e[1]
    if k == 'if': return '(NIf %s\n%s%s\n%s%s)' % (coq_nexpr(e[1], ind), pad, coq_nexpr(e[2], ind + 2), pad, coq_nexpr(e[3], ind + 2))
    if k == 'match':
        return '(NMatch %s [\n%s%s])' % (coq_nexpr(e[1], ind), pad,
                                         (';\n' + pad).join('(%s, %s)' % (coq_npat(p), coq_nexpr(x, ind + 2)) for p, x in e[2]))
    if k == 'matchbyte':
        return '(NMatchByte %s [\n%s%s])' % (q(e[1]), pad, (';\n' + pad).join('(%s, %s)' % (coq_bp(p), coq_nexpr(x, ind + 2)) for p, x in e[2]))
    if k == 'block':
        if not e[1]: return '(NBlock [] %s)' % coq_nexpr(e[2], ind)
        return '(NBlock [\n%s%s]\n%s%s)' % (pad, (';\n' + pad).join(coq_nstmt(s, ind + 2) for s in e[1]), pad, coq_nexpr(e[2], ind + 2))
    raise Broken('internal: ' + k)
def coq_nstmt(s, ind):
    k = s[0]
    pad = ' ' * (ind + 2)
    if k == 'let': return 'NsLet %s %s' % (q(s[1]), coq_nexpr(s[2], ind + 2))
    if k == 'setoffset': return 'NsSetOffset'
    if k == 'setfailed': return 'NsSetFailed'
    if k == 'return': return 'NsReturn %s' % coq_nexpr(s[1], ind + 2)
    if k == 'sif': return 'NsIf %s [%s]' % (coq_nexpr(s[1], ind + 2), '; '.join(coq_nstmt(x, ind + 2) for x in s[2]))
    raise Broken('internal: ' + k)
def coq_cfg(g):
    if g[0] == 'always': return 'CfgAlways'
    return '(%s %s)' % ('CfgFeature' if g[0] == 'feature' else 'CfgNotFeature', q(g[1]))
def coq_cexpr(e, ind):
    k = e[0]
    if k == 'var': return '(CVar %s)' % q(e[1])
    if k == 'field': return '(CField %s %s)' % (coq_cexpr(e[1], ind), q(e[2]))
    if k == 'byteoffset': return '(CByteOffset %s)' % coq_cexpr(e[1], ind)
    if k == 'num': return '(CNum %d)' % e[1]
    if k == 'bool': return '(CBool %s)' % b(e[1])
    if k == 'phantom': return 'CPhantom'
    if k == 'vecnew': return 'CVecNew'
    if k == 'new': return '(CNew %s [%s])' % (q(e[1]), '; '.join(coq_cexpr(a, ind) for a in e[2]))
    if k == 'struct':
        pad = ' ' * (ind + 2)
        return '(CStruct %s [\n%s%s])' % (q(e[1]), pad, (';\n' + pad).join('(%s, %s, %s)' % (coq_cfg(g), q(n), coq_cexpr(x, ind + 2)) for g, n, x in e[2]))
    raise Broken('internal: ' + k)
def coq_sf(s):
    if s[0] == 'flag': return 'SfSetFlag %s' % b(s[1])
    if s[0] == 'trunc': return 'SfTruncate %d' % s[1]
    if s[0] == 'delegate': return 'SfDelegate %s' % q(s[1])
    return 'SfForward'

CTOR_ORDER = ['Deserializer::new', 'Deserializer::into_iter', 'StreamDeserializer::new', 'StreamDeserializer::byte_offset']
def cname(key): return 'CTOR_' + key.replace('::', '_')
def rname(key): return 'RD_' + {'&mut R': 'MutRef'}.get(key, key)

def emit(out):
    L = ['(* Gen/StreamTables.v — GENERATED by tools/translate_stream.py from /repo/src/de.rs and /repo/src/read.rs on every run. Do not edit.',
         '   <StreamDeserializer as Iterator>::next, the constructors (Deserializer::new / into_iter, StreamDeserializer::new / byte_offset), the fusing',
         '   hooks of the readers (should_early_return_if_failed, set_failed) and the Fused markers (AST and meaning: Model/StreamAst.v). *)',
         'From Coq Require Import List NArith String.', 'From SJ Require Import Base.Bytes Model.ReadAst Model.ScanAst Model.StreamAst.', 'Import ListNotations.',
         'Local Open Scope string_scope.', 'Local Open Scope N_scope.', '']
    L.append('(* ---- de.rs   fn next(&mut self) -> Option<Result<T>> *)')
    L.append('Definition NEXT_BODY : nexpr :=\n  %s.' % coq_nexpr(out['next'], 2))
    L.append('')
    for key in CTOR_ORDER:
        params, lets, res = out['ctors'][key]
        L.append('(* ---- de.rs   %s *)' % key)
        L.append('Definition %s : cfn := mkC [%s] [%s]\n  %s.' % (cname(key), '; '.join(q(p) for p in params),
                 '; '.join('(%s, %s)' % (q(x), coq_cexpr(e, 2)) for x, e in lets), coq_cexpr(res, 2)))
        L.append('')
    L.append('Definition CTOR_TABLE : ctable := [\n%s].' % ';\n'.join('  (%s, %s)' % (q(k), cname(k)) for k in CTOR_ORDER))
    L.append('')
    L.append("(* ---- de.rs   impl FusedIterator for StreamDeserializer<'de, R, T>: is R bounded by `Fused`? *)")
    L.append('Definition FUSED_BOUND : bool := %s.' % b(out['fused_bound']))
    L.append('')
    L.append('(* ---- read.rs   const should_early_return_if_failed / fn set_failed of every impl of Read *)')
    for key, _, _, _, _ in READ_IMPLS:
        early, body = out['readers'][key]
        L.append('Definition %s : rimpl := mkRI %s [%s].' % (rname(key), '(EarlyLit %s)' % b(early[1]) if early[0] == 'lit' else 'EarlyOfR',
                                                               '; '.join(coq_sf(s) for s in body)))
    L.append('')
    L.append('Definition READER_IMPLS : rtable := [\n%s].' % ';\n'.join('  (%s, %s)' % (q(k[0]), rname(k[0])) for k in READ_IMPLS))
    L.append('')
    L.append('(* ---- read.rs   impl Fused for .. {} *)')
    L.append('Definition FUSED_READERS : list string := [%s].' % '; '.join(q(n) for n in out['fused_readers']))
    L.append('')
    return '\n'.join(L)

def main():
    ap = argparse.ArgumentParser()
    ap.add_argument('--repo', default=os.environ.get('VERIF_REPO', '/repo'))
    ap.add_argument('--out', default=os.path.join(os.path.dirname(os.path.abspath(__file__)), '..', 'coq', 'theories', 'Gen', 'StreamTables.v'))
    a = ap.parse_args()
    out, broken = translate(a.repo)
    for name, why in broken:
        print('BROKEN %s: %s' % (name, why))
    if broken:
        return 3
    text = emit(out)
    old = open(a.out).read() if os.path.exists(a.out) else None
    if old != text:
        with open(a.out, 'w') as f:
            f.write(text)
        print('UPDATED ' + os.path.relpath(a.out))
    return 0

if __name__ == '__main__':
    sys.exit(main())
