// pv pi pr io st ps is — parsing into Value / IgnoredAny / RawValue, streams, direct Read::parse_str
use crate::canon::*;
use crate::rw::ChunkReader;
use serde::de::IgnoredAny;
use serde_json::de::Read as JRead;
use serde_json::Value;

fn res_value(r: Result<Value, serde_json::Error>) -> String {
    match r {
        Ok(v) => format!("ok {}", show_value(&v)),
        Err(e) => show_err(&e),
    }
}

fn res_unit<T>(r: Result<T, serde_json::Error>) -> String {
    match r {
        Ok(_) => "ok".into(),
        Err(e) => show_err(&e),
    }
}

#[cfg(feature = "unbounded_depth")]
fn parse_unlimited<'de, R: JRead<'de>, T: serde::Deserialize<'de>>(read: R) -> Result<T, serde_json::Error> {
    let mut de = serde_json::Deserializer::new(read);
    de.disable_recursion_limit();
    let v = T::deserialize(&mut de)?;
    de.end()?;
    Ok(v)
}

fn parse_src<T: serde::de::DeserializeOwned>(cfg: &str, src: &str, data: &[u8]) -> Option<Result<T, serde_json::Error>> {
    let unlimited = cfg.contains('u');
    if unlimited {
        #[cfg(feature = "unbounded_depth")]
        {
            return Some(if src.starts_with('s') {
                let s = std::str::from_utf8(data).ok()?;
                parse_unlimited(serde_json::de::StrRead::new(s))
            } else if src.starts_with('b') {
                parse_unlimited(serde_json::de::SliceRead::new(data))
            } else {
                parse_unlimited(serde_json::de::IoRead::new(ChunkReader::from_spec(data, src)))
            });
        }
        #[cfg(not(feature = "unbounded_depth"))]
        {
            return None;
        }
    }
    if src.contains("+m") {
        // the reader stays with the caller and is lent as `&mut R` (the forwarding `impl Read for &mut R`): Deserializer::new(&mut read), then end()
        fn lent<'de, R: JRead<'de>, T: serde::Deserialize<'de>>(mut read: R) -> Result<T, serde_json::Error> {
            let mut de = serde_json::Deserializer::new(&mut read);
            let v = T::deserialize(&mut de)?;
            de.end()?;
            Ok(v)
        }
        let base = src.split('+').next().unwrap_or(src);
        return Some(if base.starts_with('s') {
            let s = std::str::from_utf8(data).ok()?;
            lent(serde_json::de::StrRead::new(s))
        } else if base.starts_with('b') {
            lent(serde_json::de::SliceRead::new(data))
        } else {
            lent(serde_json::de::IoRead::new(ChunkReader::from_spec(data, base)))
        });
    }
    Some(if src.starts_with('s') {
        let s = std::str::from_utf8(data).ok()?;
        serde_json::from_str(s)
    } else if src.starts_with('b') {
        serde_json::from_slice(data)
    } else {
        serde_json::from_reader(ChunkReader::from_spec(data, src))
    })
}

pub fn run(f: &[&str]) -> String {
    match f[0] {
        "pv" if f.len() == 4 => {
            let data = match unhex(f[3]) { Some(d) => d, None => return "BADCASE".into() };
            match parse_src::<Value>(f[1], f[2], &data) {
                Some(r) => res_value(r),
                None => "SKIP".into(),
            }
        }
        "pi" if f.len() == 4 => {
            let data = match unhex(f[3]) { Some(d) => d, None => return "BADCASE".into() };
            match parse_src::<IgnoredAny>(f[1], f[2], &data) {
                Some(r) => res_unit(r),
                None => "SKIP".into(),
            }
        }
        "pr" if f.len() == 4 => {
            #[cfg(feature = "raw_value")]
            {
                let data = match unhex(f[3]) { Some(d) => d, None => return "BADCASE".into() };
                match parse_src::<Box<serde_json::value::RawValue>>(f[1], f[2], &data) {
                    Some(Ok(r)) => format!("ok {}", hex(r.get().as_bytes())),
                    Some(Err(e)) => show_err(&e),
                    None => "SKIP".into(),
                }
            }
            #[cfg(not(feature = "raw_value"))]
            {
                "SKIP".into()
            }
        }
        "rf" if f.len() == 2 => {
            // RawValue::from_string(<utf8 text>) -> ok <hex of get()> <hex of to_string(&raw)> <hex of to_string(&to_value(&raw))>
            #[cfg(feature = "raw_value")]
            {
                let data = match unhex(f[1]) { Some(d) => d, None => return "BADCASE".into() };
                let s = match String::from_utf8(data) { Ok(s) => s, Err(_) => return "SKIP".into() };
                match serde_json::value::RawValue::from_string(s) {
                    Ok(r) => {
                        let ts = serde_json::to_string(&r).map(|x| hex(x.as_bytes())).unwrap_or_else(|e| format!("ERR:{}", e));
                        // through to_value the VALUE must be the one the raw text denotes (a Value cannot keep whitespace or spellings)
                        let tv = match (serde_json::to_value(&r), serde_json::from_str::<Value>(r.get())) {
                            (Ok(a), Ok(b)) => if show_value(&a) == show_value(&b) { "same".to_string() } else { format!("DIFF:{}:{}", show_value(&a), show_value(&b)) },
                            (Err(_), Err(_)) => "same".to_string(),   // text the scanner accepts but full parsing rejects (lone surrogate, range, depth)
                            (a, b) => format!("ERR:{:?}:{:?}", a.map(|x| show_value(&x)).map_err(|e| e.to_string()), b.map(|x| show_value(&x)).map_err(|e| e.to_string())),
                        };
                        format!("ok {} {} {}", hex(r.get().as_bytes()), ts, tv)
                    }
                    Err(e) => show_err(&e),
                }
            }
            #[cfg(not(feature = "raw_value"))]
            {
                "SKIP".into()
            }
        }
        "io" if f.len() == 6 => {
            // io <cfg> <target> <k> <kind> <hex>
            let data = match unhex(f[5]) { Some(d) => d, None => return "BADCASE".into() };
            let k: usize = f[3].parse().unwrap_or(0);
            let kind: u32 = f[4].parse().unwrap_or(1);
            let mut outs = vec![];
            // several chunkings must all give the same outcome; print the first, flag disagreement
            // ... persistent failures, and ONE-SHOT failures (suffix '!': the reader fails once, then delivers the remaining bytes — io::Bytes does not
            // latch errors, so a parser that drops an Err somewhere goes on and returns a value or a different error)
            for spec in ["r1", "r3", "r64", "rx7", "r1!", "r5!"] {
                let mut rd = ChunkReader::from_spec(&data, spec.trim_end_matches('!'));
                rd.fail_at = Some(k.min(data.len()));
                rd.fail_kind = kind_of(kind);
                rd.one_shot = spec.ends_with('!');
                let s = if f[2].starts_with('i') {
                    res_unit(serde_json::from_reader::<_, IgnoredAny>(rd))
                } else {
                    res_value(serde_json::from_reader::<_, Value>(rd))
                };
                outs.push(s);
            }
            if outs.iter().all(|s| *s == outs[0]) {
                outs[0].clone()
            } else {
                format!("SCHEDULE-DEPENDENT {}", outs.join(" | "))
            }
        }
        "st" if f.len() == 6 => {
            // st <cfg> <item> <src> <n> <hex>
            let data = match unhex(f[5]) { Some(d) => d, None => return "BADCASE".into() };
            let n: usize = f[4].parse().unwrap_or(1);
            let ign = f[2].starts_with('i');
            let src = f[3];
            // construction route of the iterator (all must behave the same):
            //   default          Deserializer::new(read).into_iter()
            //   src has "+n"     StreamDeserializer::new(read)
            //   src has "+m"     the reader is passed as `&mut R` (the forwarding `impl Read for &mut R`)
            //   cfg has 'u'      (unbounded_depth builds) disable_recursion_limit() is called on the Deserializer before into_iter()
            fn run_hist<'de, R: JRead<'de>, T: serde::Deserialize<'de>>(mut st: serde_json::StreamDeserializer<'de, R, T>, n: usize, show: fn(&T) -> String) -> String {
                let mut parts = vec![];
                for _ in 0..n {
                    let it = st.next();
                    let s = match it {
                        None => "N".to_string(),
                        Some(Ok(v)) => format!("V{}", show(&v)),
                        Some(Err(e)) => show_err_item(&e),
                    };
                    parts.push(format!("{}@{}", s, st.byte_offset()));
                }
                parts.join(" ")
            }
            fn hist1<'de, R: JRead<'de>, T: serde::Deserialize<'de>>(read: R, n: usize, show: fn(&T) -> String, via_new: bool, unlimited: bool) -> String {
                if via_new && !unlimited {
                    return run_hist(serde_json::StreamDeserializer::new(read), n, show);
                }
                #[allow(unused_mut)]
                let mut de = serde_json::Deserializer::new(read);
                if unlimited {
                    #[cfg(feature = "unbounded_depth")]
                    de.disable_recursion_limit();
                    #[cfg(not(feature = "unbounded_depth"))]
                    return "SKIP".into();
                }
                run_hist(de.into_iter::<T>(), n, show)
            }
            fn hist<'de, R: JRead<'de>, T: serde::Deserialize<'de>>(mut read: R, n: usize, show: fn(&T) -> String, src: &str, unlimited: bool) -> String {
                let via_new = src.contains("+n");
                if src.contains("+m") {
                    hist1::<&mut R, T>(&mut read, n, show, via_new, unlimited)
                } else {
                    hist1::<R, T>(read, n, show, via_new, unlimited)
                }
            }
            fn sv(v: &Value) -> String { show_value(v) }
            fn si(_: &IgnoredAny) -> String { "n".into() }
            let unl = f[1].contains('u');
            let base_src = src.split('+').next().unwrap_or(src);
            if src.starts_with('s') {
                let s = match std::str::from_utf8(&data) { Ok(s) => s, Err(_) => return "SKIP".into() };
                if ign { hist::<_, IgnoredAny>(serde_json::de::StrRead::new(s), n, si, src, unl) } else { hist::<_, Value>(serde_json::de::StrRead::new(s), n, sv, src, unl) }
            } else if src.starts_with('b') {
                if ign { hist::<_, IgnoredAny>(serde_json::de::SliceRead::new(&data), n, si, src, unl) } else { hist::<_, Value>(serde_json::de::SliceRead::new(&data), n, sv, src, unl) }
            } else {
                let rd = serde_json::de::IoRead::new(ChunkReader::from_spec(&data, base_src));
                if ign { hist::<_, IgnoredAny>(rd, n, si, src, unl) } else { hist::<_, Value>(rd, n, sv, src, unl) }
            }
        }
        "ps" if f.len() == 4 => {
            // ps <mode> <src> <hex>
            let data = match unhex(f[3]) { Some(d) => d, None => return "BADCASE".into() };
            let raw = f[1].starts_with('r');
            fn go<'de, R: JRead<'de>>(mut rd: R, raw: bool, base: *const u8, len: usize) -> String {
                let mut scratch = Vec::new();
                let (r, is_borrowed) = if raw {
                    match rd.parse_str_raw(&mut scratch) {
                        Ok(b) => { let p = b.as_ptr(); let l = b.len(); (Ok(b.to_vec()), inside(p, l, base, len)) }
                        Err(e) => (Err(e), false),
                    }
                } else {
                    match rd.parse_str(&mut scratch) {
                        Ok(s) => { let p = s.as_ptr(); let l = s.len(); (Ok(s.as_bytes().to_vec()), inside(p, l, base, len)) }
                        Err(e) => (Err(e), false),
                    }
                };
                match r {
                    Ok(v) => format!("ok {} {} {}", if is_borrowed { "b" } else { "c" }, hex(&v), rd.byte_offset()),
                    Err(e) => show_err(&e),
                }
            }
            fn inside(p: *const u8, l: usize, base: *const u8, len: usize) -> bool {
                let (p, b) = (p as usize, base as usize);
                // an empty borrowed str still points into the input
                p >= b && p + l <= b + len
            }
            let src = f[2];
            if src.starts_with('s') {
                let s = match std::str::from_utf8(&data) { Ok(s) => s, Err(_) => return "SKIP".into() };
                go(serde_json::de::StrRead::new(s), raw, data.as_ptr(), data.len())
            } else if src.starts_with('b') {
                go(serde_json::de::SliceRead::new(&data), raw, data.as_ptr(), data.len())
            } else {
                go(serde_json::de::IoRead::new(ChunkReader::from_spec(&data, src)), raw, data.as_ptr(), 0)
            }
        }
        "is" if f.len() == 3 => {
            let data = match unhex(f[2]) { Some(d) => d, None => return "BADCASE".into() };
            fn go<'de, R: JRead<'de>>(mut rd: R) -> String {
                match rd.ignore_str() {
                    Ok(()) => format!("ok {}", rd.byte_offset()),
                    Err(e) => show_err(&e),
                }
            }
            let src = f[1];
            if src.starts_with('s') {
                let s = match std::str::from_utf8(&data) { Ok(s) => s, Err(_) => return "SKIP".into() };
                go(serde_json::de::StrRead::new(s))
            } else if src.starts_with('b') {
                go(serde_json::de::SliceRead::new(&data))
            } else {
                go(serde_json::de::IoRead::new(ChunkReader::from_spec(&data, src)))
            }
        }
        _ => "BADCASE".into(),
    }
}
