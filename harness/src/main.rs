// sjh — runs serde_json (path dependency on /repo, rebuilt from the working tree) on the case
// files of the correspondence check and prints one canonical outcome line per case.
// Protocol: see /verif/coq/theories/Extract/Driver.v (the model side) — same input, same output format.
#![allow(clippy::all)]

mod canon;
mod rw;
mod ops_parse;
mod ops_ser;
mod ops_typed;
mod ops_misc;

use std::io::{BufRead, Write};
use std::panic::{catch_unwind, AssertUnwindSafe};

fn main() {
    let args: Vec<String> = std::env::args().collect();
    if args.len() > 1 && args[1] == "--features" {
        println!("{}", features());
        return;
    }
    std::panic::set_hook(Box::new(|_| {}));
    let stdin = std::io::stdin();
    let input: Box<dyn BufRead> = if args.len() > 1 {
        Box::new(std::io::BufReader::new(std::fs::File::open(&args[1]).expect("case file")))
    } else {
        Box::new(stdin.lock())
    };
    let stdout = std::io::stdout();
    let mut out = std::io::BufWriter::new(stdout.lock());
    for line in input.lines() {
        let line = line.expect("read line");
        let fields: Vec<&str> = line.split(' ').filter(|s| !s.is_empty()).collect();
        let r = catch_unwind(AssertUnwindSafe(|| dispatch(&fields)));
        match r {
            Ok(s) => writeln!(out, "{}", s).unwrap(),
            Err(_) => writeln!(out, "PANIC").unwrap(),
        }
    }
    out.flush().unwrap();
}

pub fn features() -> String {
    let mut v = String::new();
    if cfg!(feature = "preserve_order") {
        v.push('p');
    }
    if cfg!(feature = "float_roundtrip") {
        v.push('f');
    }
    if cfg!(feature = "arbitrary_precision") {
        v.push('a');
    }
    if cfg!(feature = "raw_value") {
        v.push('r');
    }
    if cfg!(feature = "unbounded_depth") {
        v.push('U');
    }
    if v.is_empty() {
        v.push('-');
    }
    v
}

fn dispatch(f: &[&str]) -> String {
    if f.is_empty() {
        return "BADCASE".into();
    }
    match f[0] {
        "pv" | "pi" | "pr" | "rf" | "io" | "st" | "ps" | "is" => ops_parse::run(f),
        "se" | "sv" | "wf" => ops_ser::run(f),
        "pt" | "tv" | "fv" | "rt" => ops_typed::run(f),
        _ => ops_misc::run(f),
    }
}
