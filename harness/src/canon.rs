// canonical printers shared by all ops
use serde_json::{Number, Value};

pub fn hex(b: &[u8]) -> String {
    if b.is_empty() {
        return "-".into();
    }
    let mut s = String::with_capacity(b.len() * 2);
    for x in b {
        s.push_str(&format!("{:02x}", x));
    }
    s
}

pub fn unhex(s: &str) -> Option<Vec<u8>> {
    if s == "-" {
        return Some(Vec::new());
    }
    if s.len() % 2 != 0 {
        return None;
    }
    let b = s.as_bytes();
    let mut v = Vec::with_capacity(b.len() / 2);
    for i in (0..b.len()).step_by(2) {
        let h = (b[i] as char).to_digit(16)?;
        let l = (b[i + 1] as char).to_digit(16)?;
        v.push((h * 16 + l) as u8);
    }
    Some(v)
}

pub fn show_number(n: &Number) -> String {
    #[cfg(feature = "arbitrary_precision")]
    {
        return format!("l{}", hex(n.as_str().as_bytes()));
    }
    #[cfg(not(feature = "arbitrary_precision"))]
    {
        if let Some(u) = n.as_u64() {
            format!("u{}", u)
        } else if let Some(i) = n.as_i64() {
            format!("i{}", i)
        } else {
            format!("d{:016x}", n.as_f64().unwrap().to_bits())
        }
    }
}

pub fn show_value(v: &Value) -> String {
    let mut s = String::new();
    show_value_into(v, &mut s);
    s
}

fn show_value_into(v: &Value, s: &mut String) {
    match v {
        Value::Null => s.push('n'),
        Value::Bool(true) => s.push('t'),
        Value::Bool(false) => s.push('f'),
        Value::Number(n) => s.push_str(&show_number(n)),
        Value::String(x) => {
            s.push('s');
            s.push_str(&hex(x.as_bytes()));
        }
        Value::Array(a) => {
            s.push_str("a(");
            for (i, x) in a.iter().enumerate() {
                if i > 0 {
                    s.push(',');
                }
                show_value_into(x, s);
            }
            s.push(')');
        }
        Value::Object(m) => {
            s.push_str("o(");
            for (i, (k, x)) in m.iter().enumerate() {
                if i > 0 {
                    s.push(',');
                }
                s.push_str(&hex(k.as_bytes()));
                s.push(':');
                show_value_into(x, s);
            }
            s.push(')');
        }
    }
}

pub const KINDS: [(std::io::ErrorKind, u32); 6] = [
    (std::io::ErrorKind::Other, 1),
    (std::io::ErrorKind::TimedOut, 2),
    (std::io::ErrorKind::BrokenPipe, 3),
    (std::io::ErrorKind::UnexpectedEof, 4),
    (std::io::ErrorKind::PermissionDenied, 5),
    (std::io::ErrorKind::WouldBlock, 6),
];

pub fn kind_of(n: u32) -> std::io::ErrorKind {
    for (k, i) in KINDS.iter() {
        if *i == n {
            return *k;
        }
    }
    std::io::ErrorKind::Other
}

pub fn kind_id(k: std::io::ErrorKind) -> u32 {
    for (kk, i) in KINDS.iter() {
        if *kk == k {
            return *i;
        }
    }
    0
}

// ErrorCode name recovered from the message (messages are unique per variant; table mirrors error.rs Display)
const MSGS: [(&str, &str); 23] = [
    ("EOF while parsing a list", "EofList"),
    ("EOF while parsing an object", "EofObject"),
    ("EOF while parsing a string", "EofString"),
    ("EOF while parsing a value", "EofValue"),
    ("expected `:`", "ExpColon"),
    ("expected `,` or `]`", "ExpListCommaOrEnd"),
    ("expected `,` or `}`", "ExpObjCommaOrEnd"),
    ("expected ident", "ExpIdent"),
    ("expected value", "ExpValue"),
    ("expected `\"`", "ExpQuote"),
    ("invalid escape", "InvEscape"),
    ("invalid number", "InvNumber"),
    ("number out of range", "NumRange"),
    ("invalid unicode code point", "InvUnicode"),
    ("control character (\\u0000-\\u001F) found while parsing a string", "CtrlChar"),
    ("key must be a string", "KeyString"),
    ("invalid value: expected key to be a number in quotes", "ExpNumKey"),
    ("float key must be finite (got NaN or +/-inf)", "FloatKey"),
    ("lone leading surrogate in hex escape", "LoneSurr"),
    ("trailing comma", "TrailComma"),
    ("trailing characters", "TrailChars"),
    ("unexpected end of hex escape", "EndHexEsc"),
    ("recursion limit exceeded", "RecLimit"),
];

pub fn cat_name(e: &serde_json::Error) -> &'static str {
    // the four is_* predicates (what callers of C10 / C12 / C13 actually use) must say exactly what classify() says
    let flags = (e.is_io(), e.is_syntax(), e.is_data(), e.is_eof());
    let want = match e.classify() {
        serde_json::error::Category::Io => (true, false, false, false),
        serde_json::error::Category::Syntax => (false, true, false, false),
        serde_json::error::Category::Data => (false, false, true, false),
        serde_json::error::Category::Eof => (false, false, false, true),
    };
    if flags != want {
        return "IS-PREDICATES-DISAGREE-WITH-CLASSIFY";
    }
    match e.classify() {
        serde_json::error::Category::Io => "io",
        serde_json::error::Category::Syntax => "syntax",
        serde_json::error::Category::Data => "data",
        serde_json::error::Category::Eof => "eof",
    }
}

pub fn code_name(e: &serde_json::Error) -> String {
    if e.is_io() {
        return "Io".into();
    }
    let full = e.to_string();
    let suffix = format!(" at line {} column {}", e.line(), e.column());
    let msg = full.strip_suffix(&suffix).unwrap_or(&full);
    if !e.is_data() {
        for (m, n) in MSGS.iter() {
            if *m == msg {
                return (*n).into();
            }
        }
        return format!("?{}", hex(msg.as_bytes()));
    }
    "Message".into()
}

// coarse class of a serde data error message
pub fn msg_class(e: &serde_json::Error) -> &'static str {
    let s = e.to_string();
    if s.starts_with("invalid type") {
        "invalid_type"
    } else if s.starts_with("invalid value") {
        "invalid_value"
    } else if s.starts_with("invalid length") {
        "invalid_length"
    } else if s.starts_with("unknown variant") {
        "unknown_variant"
    } else if s.starts_with("unknown field") {
        "unknown_field"
    } else if s.starts_with("missing field") {
        "missing_field"
    } else if s.starts_with("duplicate field") {
        "duplicate_field"
    } else {
        "custom"
    }
}

pub fn show_err(e: &serde_json::Error) -> String {
    if e.is_io() {
        let k = e.io_error_kind().map(kind_id).unwrap_or(0);
        return format!("err Io io {}", k);
    }
    format!("err {} {} {} {}", code_name(e), cat_name(e), e.line(), e.column())
}

pub fn show_err_item(e: &serde_json::Error) -> String {
    if e.is_io() {
        let k = e.io_error_kind().map(kind_id).unwrap_or(0);
        return format!("EIo/io/{}", k);
    }
    format!("E{}/{}/{}/{}", code_name(e), cat_name(e), e.line(), e.column())
}
