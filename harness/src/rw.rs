// readers and writers with controlled chunking and fault injection
use std::io::{self, Read, Write};

/// Reader delivering `data` in chunks given by a schedule; optionally interleaves Interrupted
/// results; optionally fails (persistently) with `fail_kind` once `fail_at` bytes have been delivered.
pub struct ChunkReader<'a> {
    pub data: &'a [u8],
    pub pos: usize,
    pub chunk: usize,          // fixed chunk size (>= 1) when `sched` is empty
    pub sched: Vec<usize>,     // otherwise: cyclic schedule; 0 = deliver an Interrupted error
    pub si: usize,
    pub fail_at: Option<usize>,
    pub fail_kind: io::ErrorKind,
    pub one_shot: bool,        // the failure at `fail_at` happens exactly once; later reads deliver the remaining bytes
    pub fired: bool,
}

impl<'a> ChunkReader<'a> {
    pub fn new(data: &'a [u8], chunk: usize) -> Self {
        ChunkReader { data, pos: 0, chunk: chunk.max(1), sched: vec![], si: 0, fail_at: None, fail_kind: io::ErrorKind::Other, one_shot: false, fired: false }
    }
    pub fn with_sched(data: &'a [u8], sched: Vec<usize>) -> Self {
        ChunkReader { data, pos: 0, chunk: 1, sched, si: 0, fail_at: None, fail_kind: io::ErrorKind::Other, one_shot: false, fired: false }
    }
    /// src spec: "r<k>" fixed chunk k; "rx<seed>" pseudo-random schedule with interrupts
    pub fn from_spec(data: &'a [u8], spec: &str) -> Self {
        let t = &spec[1..];
        if let Some(seed) = t.strip_prefix('x') {
            let mut x: u64 = seed.parse::<u64>().unwrap_or(1).wrapping_mul(6364136223846793005).wrapping_add(1442695040888963407);
            let mut sched = vec![];
            for _ in 0..37 {
                x = x.wrapping_mul(6364136223846793005).wrapping_add(1442695040888963407);
                let r = (x >> 33) % 12;
                sched.push(if r >= 10 { 0 } else { (r + 1) as usize });
            }
            ChunkReader::with_sched(data, sched)
        } else {
            ChunkReader::new(data, t.parse::<usize>().unwrap_or(1))
        }
    }
}

impl<'a> Read for ChunkReader<'a> {
    fn read(&mut self, buf: &mut [u8]) -> io::Result<usize> {
        if buf.is_empty() {
            return Ok(0);
        }
        let mut want = if self.sched.is_empty() {
            self.chunk
        } else {
            let w = self.sched[self.si % self.sched.len()];
            self.si += 1;
            if w == 0 {
                return Err(io::Error::new(io::ErrorKind::Interrupted, "interrupted"));
            }
            w
        };
        if let Some(k) = self.fail_at {
            if !(self.one_shot && self.fired) {
                if self.pos >= k {
                    self.fired = true;
                    return Err(io::Error::new(self.fail_kind, "injected"));
                }
                want = want.min(k - self.pos);
            }
        }
        let n = want.min(buf.len()).min(self.data.len() - self.pos);
        buf[..n].copy_from_slice(&self.data[self.pos..self.pos + n]);
        self.pos += n;
        Ok(n)
    }
}

/// Writer accepting at most `chunk` bytes per write call (short writes), recording every buffer
/// handed to it, optionally interleaving Interrupted, failing once `fail_at` bytes were accepted.
pub struct ChunkWriter {
    pub accepted: Vec<u8>,
    pub buffers: Vec<Vec<u8>>,   // each buffer as handed to write()
    pub chunk: usize,            // 0 = accept everything
    pub sched: Vec<usize>,
    pub si: usize,
    pub fail_at: Option<usize>,
    pub fail_kind: io::ErrorKind,
    pub one_shot: bool,          // the failure at `fail_at` happens exactly once; later calls are served again
    pub fired: bool,
    pub cap: Option<usize>,      // all-or-nothing bounded sink: a buffer that does not fit entirely is refused (fail_kind), smaller ones still fit
    pub calls_after_failure: usize,
}

impl ChunkWriter {
    pub fn new(chunk: usize) -> Self {
        ChunkWriter { accepted: vec![], buffers: vec![], chunk, sched: vec![], si: 0, fail_at: None, fail_kind: io::ErrorKind::Other, one_shot: false, fired: false, cap: None, calls_after_failure: 0 }
    }
}

impl Write for ChunkWriter {
    fn write(&mut self, buf: &[u8]) -> io::Result<usize> {
        self.buffers.push(buf.to_vec());
        if self.fired {
            self.calls_after_failure += 1;
        }
        if let Some(c) = self.cap {
            if self.accepted.len() + buf.len() > c {
                self.fired = true;
                return Err(io::Error::new(self.fail_kind, "sink full"));
            }
            self.accepted.extend_from_slice(buf);
            return Ok(buf.len());
        }
        let mut want = if self.sched.is_empty() {
            if self.chunk == 0 { buf.len() } else { self.chunk }
        } else {
            let w = self.sched[self.si % self.sched.len()];
            self.si += 1;
            if w == 0 {
                return Err(io::Error::new(io::ErrorKind::Interrupted, "interrupted"));
            }
            w
        };
        if let Some(k) = self.fail_at {
            if !(self.one_shot && self.fired) {
                if self.accepted.len() >= k {
                    self.fired = true;
                    return Err(io::Error::new(self.fail_kind, "injected"));
                }
                want = want.min(k - self.accepted.len());
            }
        }
        let n = want.min(buf.len());
        self.accepted.extend_from_slice(&buf[..n]);
        Ok(n)
    }
    fn flush(&mut self) -> io::Result<()> {
        Ok(())
    }
}
