// ops_misc — small direct relations between public entry points that should be the same thing (implementation vs implementation):
//   ie <k|-> <kind> <hex>   serde_json::Error -> std::io::Error conversion and source(): for the error of from_reader::<Value> and ::<(u8,)> over a reader
//                           failing with <kind> once k bytes were delivered ("-" = never): category, the io::ErrorKind of io::Error::from(e)
//                           (Eof -> UnexpectedEof, Syntax / Data -> InvalidData, Io -> the reader's own kind), whether source() is Some
//   eq <hex>                entry points that must agree on one text: from_str::<Value>, str::parse::<Value>, Map<String,Value> as target (objects only),
//                           T::deserialize(v.into_deserializer()), Value::from(int) vs to_value(int), FromIterator for Value
use crate::canon::*;
use crate::rw::ChunkReader;
use serde::de::IntoDeserializer;
use serde::Deserialize;
use serde_json::{Map, Value};
use std::io;

fn io_kind_name(k: io::ErrorKind) -> String {
    match k {
        io::ErrorKind::UnexpectedEof => "UnexpectedEof".into(),
        io::ErrorKind::InvalidData => "InvalidData".into(),
        other => format!("kind{}", kind_id(other)),
    }
}

fn conv(e: serde_json::Error) -> String {
    let cat = cat_name(&e).to_string();
    let src = std::error::Error::source(&e).is_some();
    let ioe: io::Error = e.into();
    format!("{}>{}:{}", cat, io_kind_name(ioe.kind()), if src { "src" } else { "nosrc" })
}

pub fn run(f: &[&str]) -> String {
    match f[0] {
        "ie" if f.len() == 4 => {
            let data = match unhex(f[3]) { Some(d) => d, None => return "BADCASE".into() };
            let kind = kind_of(f[2].parse().unwrap_or(1));
            let mk = |d: &'static [u8]| d;
            let _ = mk;
            let mut out = vec![];
            for typed in [false, true] {
                let mut rd = ChunkReader::new(&data, 2);
                if f[1] != "-" {
                    rd.fail_at = Some(f[1].parse().unwrap_or(0));
                    rd.fail_kind = kind;
                }
                let r: Result<(), serde_json::Error> = if typed {
                    serde_json::from_reader::<_, (u8,)>(rd).map(|_| ())
                } else {
                    serde_json::from_reader::<_, Value>(rd).map(|_| ())
                };
                out.push(match r { Ok(()) => "ok".to_string(), Err(e) => conv(e) });
            }
            out.join(" ")
        }
        "eq" if f.len() == 2 => {
            let data = match unhex(f[1]) { Some(d) => d, None => return "BADCASE".into() };
            let s = match std::str::from_utf8(&data) { Ok(s) => s, Err(_) => return "SKIP".into() };
            let base = serde_json::from_str::<Value>(s);
            let show = |r: &Result<Value, serde_json::Error>| match r { Ok(v) => format!("ok {}", show_value(v)), Err(e) => show_err(e) };
            let b = show(&base);
            let mut diffs = vec![];
            if show(&s.parse::<Value>()) != b { diffs.push("FromStr"); }
            // Map<String, Value> as a target: accepts exactly the objects, with the same contents
            let m = serde_json::from_str::<Map<String, Value>>(s);
            match (&base, &m) {
                (Ok(Value::Object(o)), Ok(m2)) if o == m2 => {}
                (Ok(Value::Object(_)), _) => diffs.push("Map-target-object"),
                (Ok(_), Ok(_)) => diffs.push("Map-target-accepts-non-object"),
                (Err(e1), Err(e2)) if e1.classify() == e2.classify() || e2.is_data() => {}
                (Err(_), Ok(_)) => diffs.push("Map-target-accepts-rejected-text"),
                _ => {}
            }
            if let Ok(v) = &base {
                // IntoDeserializer for Value / Map: the same as from_value
                // (compared with from_value itself; with the text route only outside arbitrary_precision, where from_value::<Value> re-spells
                // number literals: known finding F19, decided by C16)
                let fv = show(&serde_json::from_value::<Value>(v.clone()));
                let ap = cfg!(feature = "arbitrary_precision");
                let a = Value::deserialize(v.clone().into_deserializer()).map_err(|e: serde_json::Error| e);
                if show(&a) != fv || (!ap && fv != b) { diffs.push("IntoDeserializer-Value"); }
                if let Value::Object(o) = v {
                    let a = Value::deserialize(o.clone().into_deserializer());
                    if show(&a) != fv { diffs.push("IntoDeserializer-Map"); }
                    let c: Value = o.clone().into_iter().collect();
                    if &c != v { diffs.push("FromIterator-pairs"); }
                }
                // Map<String, Value> as a target on the Value routes: exactly the objects, by value and by reference
                {
                    let byv = serde_json::from_value::<Map<String, Value>>(v.clone());
                    let byr = Map::<String, Value>::deserialize(v);
                    match (v, &byv, &byr) {
                        // (under arbitrary_precision from_value re-spells number literals: known finding F19, decided by C16's own family; only acceptance is compared there)
                        (Value::Object(o), Ok(a), Ok(b)) if cfg!(feature = "arbitrary_precision") || (a == o && b == o) => {}
                        (Value::Object(_), _, _) => diffs.push("Map-target-from-Value"),
                        (_, Err(_), Err(_)) => {}
                        _ => diffs.push("Map-target-from-Value-accepts-non-object"),
                    }
                    // the same one level down (array elements)
                    let w = Value::Array(vec![v.clone()]);
                    let byv = serde_json::from_value::<Vec<Map<String, Value>>>(w.clone()).is_ok();
                    let byr = Vec::<Map<String, Value>>::deserialize(&w).is_ok();
                    if byv != v.is_object() || byr != v.is_object() { diffs.push("Map-target-nested-from-Value"); }
                }
                if let Value::Array(a) = v {
                    let c: Value = a.clone().into_iter().collect();
                    if &c != v { diffs.push("FromIterator-seq"); }
                }
                if let Some(i) = v.as_i64() {
                    if Value::from(i) != serde_json::to_value(i).unwrap() || (!ap && v.is_u64() && Value::from(i as u64) != *v) { diffs.push("From-int"); }
                }
                if let Some(u) = v.as_u64() {
                    if Value::from(u) != serde_json::to_value(u).unwrap() || (!ap && Value::from(u) != *v) { diffs.push("From-u64"); }
                }
                if let Some(x) = v.as_f64() {
                    if v.is_f64() && (Value::from(x) != serde_json::to_value(x).unwrap() || (!ap && Value::from(x) != *v)) { diffs.push("From-f64"); }
                    let y = x as f32;
                    if Value::from(y) != serde_json::to_value(y).unwrap() { diffs.push("From-f32"); }
                }
                // the remaining `From<..> for Value` constructors are what to_value builds from the same datum; Value::default() is Null
                {
                    use std::borrow::Cow;
                    let tv = |x: &dyn Fn() -> Value, y: Result<Value, serde_json::Error>| y.map(|y| y == x()).unwrap_or(false);
                    match v {
                        Value::Bool(b) => { if !tv(&|| Value::from(*b), serde_json::to_value(b)) { diffs.push("From-bool"); } }
                        Value::String(st) => {
                            if !tv(&|| Value::from(st.clone()), serde_json::to_value(st)) || Value::from(st.as_str()) != *v
                                || Value::from(Cow::Borrowed(st.as_str())) != *v || Value::from(Cow::<str>::Owned(st.clone())) != *v { diffs.push("From-str"); }
                        }
                        Value::Number(n) => { if Value::from(n.clone()) != *v || !tv(&|| Value::from(n.clone()), serde_json::to_value(n)) { diffs.push("From-Number"); } }
                        Value::Array(a) => {
                            if Value::from(a.clone()) != *v || Value::from(&a[..]) != *v || !tv(&|| Value::from(a.clone()), serde_json::to_value(a)) { diffs.push("From-Vec"); }
                            if a.len() == 2 && Value::from([a[0].clone(), a[1].clone()]) != *v { diffs.push("From-array"); }
                        }
                        Value::Object(o) => { if Value::from(o.clone()) != *v || !tv(&|| Value::from(o.clone()), serde_json::to_value(o)) { diffs.push("From-Map"); } }
                        Value::Null => { if Value::from(()) != *v || Value::from(None::<bool>) != *v || Value::default() != *v { diffs.push("From-unit"); } }
                    }
                    if Value::from(Some(v.clone())) != *v { diffs.push("From-Option"); }
                    let dbg = format!("{:?}", v);
                    if dbg.is_empty() || format!("{:?}", v.clone()) != dbg { diffs.push("Debug-unstable"); }
                }
                // non-finite floats become Null through every conversion
                for nf in [f64::NAN, f64::INFINITY, f64::NEG_INFINITY] {
                    if Value::from(nf) != Value::Null || serde_json::to_value(nf).unwrap() != Value::Null || Value::from(nf as f32) != Value::Null
                        || serde_json::Number::from_f64(nf).is_some() || serde_json::to_string(&nf).unwrap() != "null" { diffs.push("non-finite"); break; }
                }
                // the twelve is_* / as_* accessors of Value agree with each other and with the variant
                let kinds = [v.is_null(), v.is_boolean(), v.is_number(), v.is_string(), v.is_array(), v.is_object()];
                if kinds.iter().filter(|x| **x).count() != 1 { diffs.push("is_x-not-exclusive"); }
                if v.is_null() != v.as_null().is_some() || v.is_boolean() != v.as_bool().is_some() || v.is_number() != v.as_number().is_some()
                    || v.is_string() != v.as_str().is_some() || v.is_array() != v.as_array().is_some() || v.is_object() != v.as_object().is_some() {
                    diffs.push("is_x-vs-as_x");
                }
                let mut w = v.clone();
                if w.as_array_mut().is_some() != v.is_array() || w.as_object_mut().is_some() != v.is_object() { diffs.push("as_x_mut"); }
                if let Value::Number(n) = v {
                    if v.is_i64() != n.is_i64() || v.is_u64() != n.is_u64() || v.is_f64() != n.is_f64() || v.as_i64() != n.as_i64() || v.as_u64() != n.as_u64() { diffs.push("Value-vs-Number-accessors"); }
                }
            }
            if diffs.is_empty() { format!("same {}", b.split(' ').next().unwrap_or("")) } else { format!("DIFF-{}", diffs.join(",")) }
        }
        // mk <hex message> : <serde_json::Error as serde::de::Error>::custom(msg) -> "<line> <col> <hex kept message>"   (model: Model/ErrMsg.v make_error)
        // ms <hex message> : the Display text of that error
        "mk" | "ms" if f.len() == 2 => {
            let data = match unhex(f[1]) { Some(d) => d, None => return "BADCASE".into() };
            let msg = match String::from_utf8(data) { Ok(s) => s, Err(_) => return "SKIP".into() };
            let e = <serde_json::Error as serde::de::Error>::custom(&msg);
            let full = e.to_string();
            if f[0] == "ms" {
                return if full.is_empty() { "-".into() } else { hex(full.as_bytes()) };
            }
            let suffix = format!(" at line {} column {}", e.line(), e.column());
            let kept = if e.line() != 0 { full.strip_suffix(&suffix).unwrap_or("STRIP-FAILED").to_string() } else { full.clone() };
            // the serializer-side custom goes through the same make_error
            let e2 = <serde_json::Error as serde::ser::Error>::custom(&msg);
            if e2.to_string() != full || e2.line() != e.line() || e2.column() != e.column() { return "SER-DE-CUSTOM-DIFFER".into(); }
            format!("{} {} {}", e.line(), e.column(), if kept.is_empty() { "-".to_string() } else { hex(kept.as_bytes()) })
        }
        // dq <src b|s|r> <types> <hex text>: ONE Deserializer over the text, read step by step with the target type of each letter of <types>
        //   v Value  s String  d f64  f f32  u u8  b bool  i IgnoredAny  n ()        a failing step is swallowed and the next one continues
        //   -> per step `ok:<canonical>` | `err:<Code>` joined by ','   (state isolation: what a step yields must not depend on the TYPES asked before)
        "dq" if f.len() == 4 => {
            let data = match unhex(f[3]) { Some(d) => d, None => return "BADCASE".into() };
            fn drive<'de, R: serde_json::de::Read<'de>>(mut de: serde_json::Deserializer<R>, types: &str) -> String {
                use serde::de::IgnoredAny;
                let mut out = vec![];
                for t in types.chars() {
                    let r: Result<String, serde_json::Error> = match t {
                        'v' => Value::deserialize(&mut de).map(|v| show_value(&v)),
                        's' => String::deserialize(&mut de).map(|v| format!("s{}", hex(v.as_bytes()))),
                        'd' => f64::deserialize(&mut de).map(|v| format!("d{:016x}", v.to_bits())),
                        'f' => f32::deserialize(&mut de).map(|v| format!("f{:08x}", v.to_bits())),
                        'u' => u8::deserialize(&mut de).map(|v| format!("u{}", v)),
                        'b' => bool::deserialize(&mut de).map(|v| format!("b{}", v)),
                        'i' => IgnoredAny::deserialize(&mut de).map(|_| "i".to_string()),
                        'n' => <()>::deserialize(&mut de).map(|_| "n".to_string()),
                        #[cfg(feature = "raw_value")]
                        'w' => <Box<serde_json::value::RawValue>>::deserialize(&mut de).map(|v| format!("w{}", hex(v.get().as_bytes()))),
                        'l' => i64::deserialize(&mut de).map(|v| format!("z{}", v)),
                        'L' => u64::deserialize(&mut de).map(|v| format!("z{}", v)),
                        'I' => i128::deserialize(&mut de).map(|v| format!("z{}", v)),
                        'U' => u128::deserialize(&mut de).map(|v| format!("z{}", v)),
                        'h' => i16::deserialize(&mut de).map(|v| format!("z{}", v)),
                        'B' => u8::deserialize(&mut de).map(|v| format!("z{}", v)),
                        _ => return "BADCASE".into(),
                    };
                    out.push(match r { Ok(s) => format!("ok:{}", s), Err(e) => format!("err:{}", code_name(&e)) });
                }
                out.join(",")
            }
            if f[1].starts_with('s') {
                match std::str::from_utf8(&data) { Ok(t) => drive(serde_json::Deserializer::from_str(t), f[2]), Err(_) => "SKIP".into() }
            } else if f[1].starts_with('b') {
                drive(serde_json::Deserializer::from_slice(&data), f[2])
            } else {
                drive(serde_json::Deserializer::from_reader(ChunkReader::new(&data, 1)), f[2])
            }
        }
        _ => "BADCASE".into(),
    }
}
