pub fn run(_f: &[&str]) -> String {
    "BADCASE".into()
}
