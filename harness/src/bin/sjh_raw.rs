// sjh_raw — implementation side of the RawValue correspondence (C19; model Model/RawM.v, driver Extract/Driver_raw.v).
//   rfs [<cfg>] <hex>            RawValue::from_string                       -> ok <hex span> | err <code> <cat> <line> <col> <cls>
//   rtop <cfg> <src> <hex>       from_{str,slice,reader}::<Box<RawValue>>    -> ok <hex span> | err ...
//   rnest [<cfg> <src>] <hex>    Vec<Box<RawValue>>                          -> ok <hex>,<hex>,... | err ...
//   robj [<cfg> <src>] <hex>     map String -> Box<RawValue>, entries in arrival order (duplicates kept) -> ok <hexkey>:<hexspan>,...
//   rser c|p<hexindent> <hex>,<hex>,...   serialise a Vec of RawValues       -> ok <hex output>
// On every successful capture the direct C19 relations are evaluated as well (suffix DIFF-<what> when one fails):
//   borrowed &RawValue (str / slice sources) captures the same span; to_string(raw) = span; to_value(raw) = from_str::<Value>(span).
#![allow(clippy::all)]
#![allow(dead_code)]

#[path = "../canon.rs"]
mod canon;
#[path = "../rw.rs"]
mod rw;

use canon::{cat_name, code_name, hex, kind_id, msg_class, unhex};
use std::io::{BufRead, Write};
use std::panic::{catch_unwind, AssertUnwindSafe};

fn show_terr(e: &serde_json::Error) -> String {
    if e.is_io() {
        let k = e.io_error_kind().map(kind_id).unwrap_or(0);
        return format!("err Io io {}", k);
    }
    let cls = if e.is_data() { msg_class(e) } else { "-" };
    format!("err {} {} {} {} {}", code_name(e), cat_name(e), e.line(), e.column(), cls)
}

fn hex_or_dash(b: &[u8]) -> String {
    if b.is_empty() { "-".to_string() } else { hex(b) }
}

#[cfg(feature = "raw_value")]
mod imp {
    use super::*;
    use serde::de::{Deserialize, Deserializer, MapAccess, Visitor};
    use serde_json::value::RawValue;
    use serde_json::Value;

    pub struct Pairs(pub Vec<(String, Box<RawValue>)>);
    impl<'de> Deserialize<'de> for Pairs {
        fn deserialize<D: Deserializer<'de>>(d: D) -> Result<Self, D::Error> {
            struct V;
            impl<'de> Visitor<'de> for V {
                type Value = Pairs;
                fn expecting(&self, f: &mut std::fmt::Formatter) -> std::fmt::Result { f.write_str("a map") }
                fn visit_map<A: MapAccess<'de>>(self, mut a: A) -> Result<Pairs, A::Error> {
                    let mut v = vec![];
                    while let Some(k) = a.next_key::<String>()? {
                        let x = a.next_value::<Box<RawValue>>()?;
                        v.push((k, x));
                    }
                    Ok(Pairs(v))
                }
            }
            d.deserialize_map(V)
        }
    }

    fn from_src<T: serde::de::DeserializeOwned>(src: &str, data: &[u8]) -> Option<Result<T, serde_json::Error>> {
        Some(if src.starts_with('s') {
            serde_json::from_str(std::str::from_utf8(data).ok()?)
        } else if src.starts_with('b') {
            serde_json::from_slice(data)
        } else {
            serde_json::from_reader(rw::ChunkReader::from_spec(data, if src.len() > 1 { src } else { "r1" }))
        })
    }

    // the direct relations on one captured value
    fn relations(span: &str) -> String {
        let mut out = String::new();
        let raw = match RawValue::from_string(span.to_owned()) { Ok(r) => r, Err(_) => return " DIFF-span-not-accepted-by-from_string".into() };
        if raw.get() != span { out.push_str(" DIFF-from_string-of-span"); }
        match serde_json::to_string(&raw) { Ok(s) if s == span => {}, _ => out.push_str(" DIFF-to_string") }
        match serde_json::to_string_pretty(&raw) { Ok(s) if s == span => {}, _ => out.push_str(" DIFF-to_string_pretty") }
        match serde_json::to_vec(&vec![&raw, &raw]) { Ok(s) if s == format!("[{},{}]", span, span).into_bytes() => {}, _ => out.push_str(" DIFF-in-array") }
        let tv = serde_json::to_value(&raw);
        let pv = serde_json::from_str::<Value>(span);
        match (tv, pv) {
            (Ok(a), Ok(b)) if a == b => {}
            (Err(_), Err(_)) => {}
            _ => out.push_str(" DIFF-to_value"),
        }
        if raw.to_string() != span { out.push_str(" DIFF-display"); }
        if format!("{:?}", raw) != format!("RawValue({})", span) { out.push_str(" DIFF-debug"); }
        if raw.clone().get() != span || raw.to_owned().get() != span { out.push_str(" DIFF-clone"); }
        if &*Box::<str>::from(raw.clone()) != span { out.push_str(" DIFF-into-box-str"); }
        // `impl Deserializer for &RawValue`: reading a type out of a captured value is reading it out of the captured text
        fn same<T: serde::de::DeserializeOwned + PartialEq + std::fmt::Debug>(raw: &RawValue, span: &str) -> bool {
            let a = T::deserialize(raw);
            let b = serde_json::from_str::<T>(span);
            match (a, b) {
                (Ok(x), Ok(y)) => x == y,
                (Err(e1), Err(e2)) => e1.classify() == e2.classify() && e1.line() == e2.line() && e1.column() == e2.column(),
                _ => false,
            }
        }
        if !same::<Value>(&raw, span) { out.push_str(" DIFF-deserializer-Value"); }
        if !same::<Vec<Value>>(&raw, span) { out.push_str(" DIFF-deserializer-Vec"); }
        if !same::<u8>(&raw, span) { out.push_str(" DIFF-deserializer-u8"); }
        if !same::<String>(&raw, span) { out.push_str(" DIFF-deserializer-String"); }
        if !same::<Option<(bool, f64)>>(&raw, span) { out.push_str(" DIFF-deserializer-Option-tuple"); }
        if !same::<std::collections::BTreeMap<String, Value>>(&raw, span) { out.push_str(" DIFF-deserializer-Map"); }
        if !same::<Box<RawValue2>>(&raw, span) { out.push_str(" DIFF-deserializer-Raw"); }
        if <Box<RawValue>>::default().get() != "null" { out.push_str(" DIFF-default"); }
        // a user Formatter sees a RawValue exactly once, whole, through write_raw_fragment and never through write_string_fragment (one Serializer, three documents)
        {
            #[derive(Default)]
            struct Rec { raws: Vec<String>, strs: Vec<String> }
            struct F<'a>(&'a std::cell::RefCell<Rec>);
            impl<'a> serde_json::ser::Formatter for F<'a> {
                fn write_raw_fragment<W: ?Sized + std::io::Write>(&mut self, w: &mut W, fragment: &str) -> std::io::Result<()> {
                    self.0.borrow_mut().raws.push(fragment.to_owned());
                    w.write_all(fragment.as_bytes())
                }
                fn write_string_fragment<W: ?Sized + std::io::Write>(&mut self, w: &mut W, fragment: &str) -> std::io::Result<()> {
                    self.0.borrow_mut().strs.push(fragment.to_owned());
                    w.write_all(fragment.as_bytes())
                }
            }
            let rec = std::cell::RefCell::new(Rec::default());
            let mut buf = Vec::new();
            {
                use serde::Serialize;
                let mut ser = serde_json::Serializer::with_formatter(&mut buf, F(&rec));
                let ok = raw.serialize(&mut ser).is_ok() && ("k", &raw).serialize(&mut ser).is_ok() && vec![&raw].serialize(&mut ser).is_ok();
                if !ok { out.push_str(" DIFF-formatter-serialize-failed"); }
            }
            let r = rec.into_inner();
            if r.raws != vec![span.to_owned(); 3] || r.strs != vec!["k".to_owned()] || buf != format!("{}[\"k\",{}][{}]", span, span, span).into_bytes() {
                out.push_str(" DIFF-formatter-hooks");
            }
        }
        out
    }
    // Box<RawValue> compared by text
    #[derive(Debug)]
    pub struct RawValue2(Box<RawValue>);
    impl PartialEq for RawValue2 { fn eq(&self, o: &Self) -> bool { self.0.get() == o.0.get() } }
    impl<'de> Deserialize<'de> for Box<RawValue2> {
        fn deserialize<D: Deserializer<'de>>(d: D) -> Result<Self, D::Error> { Ok(Box::new(RawValue2(<Box<RawValue>>::deserialize(d)?))) }
    }

    pub fn run(f: &[&str]) -> String {
        match f[0] {
            "rfs" if f.len() == 2 || f.len() == 3 => {
                let data = match unhex(f[f.len() - 1]) { Some(d) => d, None => return "BADCASE".into() };
                let s = match String::from_utf8(data) { Ok(s) => s, Err(_) => return "SKIP".into() };
                match RawValue::from_string(s) {
                    Ok(r) => format!("ok {}{}", hex_or_dash(r.get().as_bytes()), relations(r.get())),
                    Err(e) => show_terr(&e),
                }
            }
            "rtop" if f.len() == 4 => {
                let data = match unhex(f[3]) { Some(d) => d, None => return "BADCASE".into() };
                let r: Result<Box<RawValue>, _> = match from_src(f[2], &data) { Some(r) => r, None => return "SKIP".into() };
                match r {
                    Ok(r) => {
                        let mut out = format!("ok {}{}", hex_or_dash(r.get().as_bytes()), relations(r.get()));
                        // borrowed capture from the in-memory sources gives the same span, and it is a subslice of the input
                        if f[2].starts_with('b') {
                            match serde_json::from_slice::<&RawValue>(&data) {
                                Ok(b) if b.get() == r.get() => {
                                    let p = b.get().as_ptr() as usize; let base = data.as_ptr() as usize;
                                    if !(p >= base && p + b.get().len() <= base + data.len()) { out.push_str(" DIFF-borrowed-not-a-subslice"); }
                                }
                                _ => out.push_str(" DIFF-borrowed"),
                            }
                        } else if f[2].starts_with('s') {
                            let s = std::str::from_utf8(&data).unwrap();
                            match serde_json::from_str::<&RawValue>(s) { Ok(b) if b.get() == r.get() => {}, _ => out.push_str(" DIFF-borrowed") }
                        }
                        out
                    }
                    Err(e) => show_terr(&e),
                }
            }
            "rnest" if f.len() == 2 || f.len() == 4 => {
                let data = match unhex(f[f.len() - 1]) { Some(d) => d, None => return "BADCASE".into() };
                let src = if f.len() == 4 { f[2] } else { "s" };
                let r: Result<Vec<Box<RawValue>>, _> = match from_src(src, &data) { Some(r) => r, None => return "SKIP".into() };
                match r {
                    Ok(v) => {
                        let items: Vec<String> = v.iter().map(|r| hex_or_dash(r.get().as_bytes())).collect();
                        let rel: String = v.iter().take(3).map(|r| relations(r.get())).collect();
                        if items.is_empty() { format!("ok{}", rel) } else { format!("ok {}{}", items.join(","), rel) }
                    }
                    Err(e) => show_terr(&e),
                }
            }
            "robj" if f.len() == 2 || f.len() == 4 => {
                let data = match unhex(f[f.len() - 1]) { Some(d) => d, None => return "BADCASE".into() };
                let src = if f.len() == 4 { f[2] } else { "s" };
                let r: Result<Pairs, _> = match from_src(src, &data) { Some(r) => r, None => return "SKIP".into() };
                match r {
                    Ok(v) => {
                        let items: Vec<String> = v.0.iter().map(|(k, r)| format!("{}:{}", hex_or_dash(k.as_bytes()), hex_or_dash(r.get().as_bytes()))).collect();
                        if items.is_empty() { "ok".into() } else { format!("ok {}", items.join(",")) }
                    }
                    Err(e) => show_terr(&e),
                }
            }
            // rbig <bytes> <unit hex>: a RawValue whose text is a JSON string of about <bytes> bytes made of the repeated UTF-8 unit, serialised at top level, in an
            // array and as a struct field, compact and pretty, through a recording writer: every buffer handed to the writer is valid UTF-8 on its own, the raw
            // text arrives in ONE buffer, and the concatenation is the expected document
            "rbig" if f.len() == 3 => {
                let n: usize = f[1].parse().unwrap_or(1);
                let unit = match unhex(f[2]).and_then(|b| String::from_utf8(b).ok()) { Some(u) if !u.is_empty() => u, _ => return "BADCASE".into() };
                let mut text = String::from("\"");
                while text.len() < n { text.push_str(&unit); }
                text.push('"');
                let raw = match RawValue::from_string(text.clone()) { Ok(r) => r, Err(_) => return "SKIP".into() };
                #[derive(serde::Serialize)]
                struct Holder<'a> { id: u8, body: &'a RawValue }
                let mut bad = vec![];
                for pretty in [false, true] {
                    for shape in 0..3 {
                        let mut w = rw::ChunkWriter::new(0);
                        let r = match (shape, pretty) {
                            (0, false) => serde_json::to_writer(&mut w, &raw),
                            (0, true) => serde_json::to_writer_pretty(&mut w, &raw),
                            (1, false) => serde_json::to_writer(&mut w, &vec![&raw, &raw]),
                            (1, true) => serde_json::to_writer_pretty(&mut w, &vec![&raw, &raw]),
                            (_, false) => serde_json::to_writer(&mut w, &Holder { id: 1, body: &raw }),
                            (_, true) => serde_json::to_writer_pretty(&mut w, &Holder { id: 1, body: &raw }),
                        };
                        if r.is_err() { bad.push(format!("err-{}-{}", shape, pretty)); continue; }
                        if w.buffers.iter().any(|b| std::str::from_utf8(b).is_err()) { bad.push(format!("buffer-not-utf8-{}-{}", shape, pretty)); }
                        let whole = w.buffers.iter().filter(|b| b.as_slice() == text.as_bytes()).count();
                        if whole != if shape == 1 { 2 } else { 1 } { bad.push(format!("raw-text-not-one-buffer-{}-{}", shape, pretty)); }
                        let want = match (shape, pretty) {
                            (0, _) => text.clone(),
                            (1, false) => format!("[{},{}]", text, text),
                            (1, true) => format!("[\n  {},\n  {}\n]", text, text),
                            (_, false) => format!("{{\"id\":1,\"body\":{}}}", text),
                            (_, true) => format!("{{\n  \"id\": 1,\n  \"body\": {}\n}}", text),
                        };
                        if w.accepted != want.as_bytes() { bad.push(format!("output-{}-{}", shape, pretty)); }
                    }
                }
                if bad.is_empty() { "ok".into() } else { format!("DIFF {}", bad.join(",")) }
            }
            "rser" if f.len() == 2 || f.len() == 3 => {
                let items: Vec<&str> = if f.len() == 3 { f[2].split(',').collect() } else { vec![] };
                let mut raws = vec![];
                for it in items {
                    let b = match unhex(it) { Some(b) => b, None => return "BADCASE".into() };
                    let s = match String::from_utf8(b) { Ok(s) => s, Err(_) => return "SKIP".into() };
                    match RawValue::from_string(s) { Ok(r) => raws.push(r), Err(_) => return "SKIP".into() }
                }
                let out = if f[1] == "c" {
                    serde_json::to_vec(&raws)
                } else if let Some(ind) = f[1].strip_prefix('p') {
                    let ind = match unhex(if ind.is_empty() { "-" } else { ind }) { Some(i) => i, None => return "BADCASE".into() };
                    let mut w = Vec::new();
                    let fm = serde_json::ser::PrettyFormatter::with_indent(&ind);
                    let mut ser = serde_json::Serializer::with_formatter(&mut w, fm);
                    serde::Serialize::serialize(&raws, &mut ser).map(|_| w)
                } else {
                    return "BADCASE".into();
                };
                match out { Ok(b) => format!("ok {}", hex_or_dash(&b)), Err(e) => show_terr(&e) }
            }
            // rseq <cfg> <src> <n> <hex>: ONE Deserializer over the input, Box<RawValue>::deserialize called n times on it, a failure is swallowed
            // and the next call continues on the same Deserializer -> per call `ok:<hex span>` | `err:<code>`, joined by ','
            "rseq" if f.len() == 5 => {
                let data = match unhex(f[4]) { Some(d) => d, None => return "BADCASE".into() };
                let n: usize = f[3].parse().unwrap_or(3);
                fn drive<'de, R: serde_json::de::Read<'de>>(mut de: serde_json::Deserializer<R>, n: usize) -> String {
                    let mut out = vec![];
                    for _ in 0..n {
                        match <Box<RawValue> as Deserialize>::deserialize(&mut de) {
                            Ok(r) => out.push(format!("ok:{}", hex_or_dash(r.get().as_bytes()))),
                            Err(e) => out.push(format!("err:{}", code_name(&e))),
                        }
                    }
                    out.join(",")
                }
                if f[2].starts_with('s') {
                    match std::str::from_utf8(&data) { Ok(t) => drive(serde_json::Deserializer::from_str(t), n), Err(_) => "SKIP".into() }
                } else if f[2].starts_with('b') {
                    drive(serde_json::Deserializer::from_slice(&data), n)
                } else {
                    drive(serde_json::Deserializer::from_reader(rw::ChunkReader::from_spec(&data, if f[2].len() > 1 { f[2] } else { "r1" })), n)
                }
            }
            _ => "BADCASE".into(),
        }
    }
}

#[cfg(not(feature = "raw_value"))]
mod imp {
    pub fn run(_f: &[&str]) -> String { "SKIP".into() }
}

fn main() {
    let args: Vec<String> = std::env::args().collect();
    std::panic::set_hook(Box::new(|_| {}));
    let stdin = std::io::stdin();
    let input: Box<dyn BufRead> = if args.len() > 1 {
        Box::new(std::io::BufReader::new(std::fs::File::open(&args[1]).expect("case file")))
    } else {
        Box::new(stdin.lock())
    };
    let stdout = std::io::stdout();
    let mut out = std::io::BufWriter::new(stdout.lock());
    for line in input.lines() {
        let line = line.expect("read line");
        let fields: Vec<&str> = line.split(' ').filter(|s| !s.is_empty()).collect();
        if fields.is_empty() { writeln!(out, "BADCASE").unwrap(); continue; }
        match catch_unwind(AssertUnwindSafe(|| imp::run(&fields))) {
            Ok(s) => writeln!(out, "{}", s).unwrap(),
            Err(_) => writeln!(out, "PANIC").unwrap(),
        }
    }
    out.flush().unwrap();
}
