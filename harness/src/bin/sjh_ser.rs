// sjh_ser — C03 / C15 / writer half of C13: drives serde_json's serialisers with a universal `Serialize` impl that
// walks a call tree (`Sv`) parsed from the case line and issues exactly the Serializer call each node names.
// Protocol: /verif/coq/theories/Extract/Driver_ser.v (same input, same output).  Everything after " ! " on an answer
// line is extra information computed from the implementation's own results (direct checks); the model does not print it.
#![allow(clippy::all)]
#![allow(dead_code)]

#[path = "../canon.rs"]
mod canon;
#[path = "../rw.rs"]
mod rw;

use canon::{code_name, hex, kind_id, kind_of, show_value, unhex};
use serde::ser::{
    Serialize, SerializeMap, SerializeSeq, SerializeStruct, SerializeStructVariant, SerializeTuple, SerializeTupleStruct,
    SerializeTupleVariant, Serializer,
};
use serde_json::ser::PrettyFormatter;
use serde_json::Value;
use std::cell::RefCell;
use std::collections::HashMap;
use std::fmt;
use std::io::{self, BufRead, Write};
use std::panic::{catch_unwind, AssertUnwindSafe};

// ---------------------------------------------------------------- the call tree
#[derive(Debug, Clone)]
enum Sv {
    Bool(bool),
    I8(i8),
    I16(i16),
    I32(i32),
    I64(i64),
    I128(i128),
    U8(u8),
    U16(u16),
    U32(u32),
    U64(u64),
    U128(u128),
    F32(u32),
    F64(u64),
    Char(char),
    Str(String),
    Bytes(Vec<u8>),
    None,
    Some(Box<Sv>),
    Unit,
    UnitStruct,
    UnitVariant(&'static str),
    NewtypeStruct(Box<Sv>),
    NewtypeVariant(&'static str, Box<Sv>),
    Seq(Option<usize>, Vec<Sv>),
    Tuple(Vec<Sv>),
    TupleStruct(Vec<Sv>),
    TupleVariant(&'static str, Vec<Sv>),
    Map(Option<usize>, Vec<(Sv, Sv)>),
    Struct(Vec<(&'static str, Sv)>),
    StructVariant(&'static str, Vec<(&'static str, Sv)>),
    CollectStr(Vec<String>),
    NumLit(String),
}

thread_local! {
    static INTERN: RefCell<HashMap<String, &'static str>> = RefCell::new(HashMap::new());
}
fn intern(s: String) -> &'static str {
    INTERN.with(|m| {
        let mut m = m.borrow_mut();
        if let Some(x) = m.get(&s) {
            return *x;
        }
        let l: &'static str = Box::leak(s.clone().into_boxed_str());
        m.insert(s, l);
        l
    })
}

const NUMBER_TOKEN: &str = "$serde_json::private::Number";

struct Chunks<'a>(&'a [String]);
impl<'a> fmt::Display for Chunks<'a> {
    fn fmt(&self, f: &mut fmt::Formatter) -> fmt::Result {
        for c in self.0 {
            f.write_str(c)?;
        }
        Ok(())
    }
}

impl Serialize for Sv {
    fn serialize<S: Serializer>(&self, s: S) -> Result<S::Ok, S::Error> {
        match self {
            Sv::Bool(b) => s.serialize_bool(*b),
            Sv::I8(x) => s.serialize_i8(*x),
            Sv::I16(x) => s.serialize_i16(*x),
            Sv::I32(x) => s.serialize_i32(*x),
            Sv::I64(x) => s.serialize_i64(*x),
            Sv::I128(x) => s.serialize_i128(*x),
            Sv::U8(x) => s.serialize_u8(*x),
            Sv::U16(x) => s.serialize_u16(*x),
            Sv::U32(x) => s.serialize_u32(*x),
            Sv::U64(x) => s.serialize_u64(*x),
            Sv::U128(x) => s.serialize_u128(*x),
            Sv::F32(b) => s.serialize_f32(f32::from_bits(*b)),
            Sv::F64(b) => s.serialize_f64(f64::from_bits(*b)),
            Sv::Char(c) => s.serialize_char(*c),
            Sv::Str(x) => s.serialize_str(x),
            Sv::Bytes(x) => s.serialize_bytes(x),
            Sv::None => s.serialize_none(),
            Sv::Some(v) => s.serialize_some(&**v),
            Sv::Unit => s.serialize_unit(),
            Sv::UnitStruct => s.serialize_unit_struct("U"),
            Sv::UnitVariant(n) => s.serialize_unit_variant("E", 0, n),
            Sv::NewtypeStruct(v) => s.serialize_newtype_struct("N", &**v),
            Sv::NewtypeVariant(n, v) => s.serialize_newtype_variant("E", 1, n, &**v),
            Sv::Seq(h, es) => {
                let mut q = s.serialize_seq(*h)?;
                for e in es {
                    q.serialize_element(e)?;
                }
                q.end()
            }
            Sv::Tuple(es) => {
                let mut q = s.serialize_tuple(es.len())?;
                for e in es {
                    q.serialize_element(e)?;
                }
                q.end()
            }
            Sv::TupleStruct(es) => {
                let mut q = s.serialize_tuple_struct("T", es.len())?;
                for e in es {
                    q.serialize_field(e)?;
                }
                q.end()
            }
            Sv::TupleVariant(n, es) => {
                let mut q = s.serialize_tuple_variant("E", 2, n, es.len())?;
                for e in es {
                    q.serialize_field(e)?;
                }
                q.end()
            }
            Sv::Map(h, kvs) => {
                let mut q = s.serialize_map(*h)?;
                for (k, v) in kvs {
                    q.serialize_key(k)?;
                    q.serialize_value(v)?;
                }
                q.end()
            }
            Sv::Struct(fs) => {
                let mut q = s.serialize_struct("S", fs.len())?;
                for (k, v) in fs {
                    q.serialize_field(k, v)?;
                }
                q.end()
            }
            Sv::StructVariant(n, fs) => {
                let mut q = s.serialize_struct_variant("E", 3, n, fs.len())?;
                for (k, v) in fs {
                    q.serialize_field(k, v)?;
                }
                q.end()
            }
            Sv::CollectStr(chunks) => s.collect_str(&Chunks(chunks)),
            Sv::NumLit(lit) => {
                // exactly what `impl Serialize for Number` does under arbitrary_precision
                let mut q = s.serialize_struct(NUMBER_TOKEN, 1)?;
                q.serialize_field(NUMBER_TOKEN, lit)?;
                q.end()
            }
        }
    }
}

// ---------------------------------------------------------------- decoding of the <sval> field
struct P<'a> {
    b: &'a [u8],
    i: usize,
}
impl<'a> P<'a> {
    fn peek(&self) -> Option<u8> {
        self.b.get(self.i).copied()
    }
    fn eat(&mut self, c: u8) -> Option<()> {
        if self.peek() == Some(c) {
            self.i += 1;
            Some(())
        } else {
            None
        }
    }
    fn run(&mut self, f: fn(u8) -> bool) -> &'a [u8] {
        let s = self.i;
        while self.i < self.b.len() && f(self.b[self.i]) {
            self.i += 1;
        }
        &self.b[s..self.i]
    }
    // "<hex>;" or "-;"
    fn hexsemi(&mut self) -> Option<Vec<u8>> {
        if self.peek() == Some(b'-') {
            self.i += 1;
            self.eat(b';')?;
            return Some(vec![]);
        }
        let r = self.run(|c| c.is_ascii_digit() || (b'a'..=b'f').contains(&c));
        if r.is_empty() {
            return None;
        }
        self.eat(b';')?;
        unhex(std::str::from_utf8(r).ok()?)
    }
    fn string(&mut self) -> Option<String> {
        String::from_utf8(self.hexsemi()?).ok()
    }
    fn fixhex(&mut self, n: usize) -> Option<u64> {
        if self.i + n > self.b.len() {
            return None;
        }
        let t = std::str::from_utf8(&self.b[self.i..self.i + n]).ok()?;
        if !t.bytes().all(|c| c.is_ascii_digit() || (b'a'..=b'f').contains(&c)) {
            return None;
        }
        self.i += n;
        u64::from_str_radix(t, 16).ok()
    }
    fn hint(&mut self) -> Option<Option<usize>> {
        if self.peek() == Some(b'?') {
            self.i += 1;
            self.eat(b'(')?;
            return Some(None);
        }
        let d = self.run(|c| c.is_ascii_digit());
        if d.is_empty() {
            return None;
        }
        let n: usize = std::str::from_utf8(d).ok()?.parse().ok()?;
        self.eat(b'(')?;
        Some(Some(n))
    }
    fn elems(&mut self) -> Option<Vec<Sv>> {
        let mut v = vec![];
        loop {
            if self.peek() == Some(b')') {
                self.i += 1;
                return Some(v);
            }
            v.push(self.sval()?);
        }
    }
    fn fields(&mut self) -> Option<Vec<(&'static str, Sv)>> {
        let mut v = vec![];
        loop {
            if self.peek() == Some(b')') {
                self.i += 1;
                return Some(v);
            }
            let k = intern(self.string()?);
            v.push((k, self.sval()?));
        }
    }
    fn sval(&mut self) -> Option<Sv> {
        let c = self.peek()?;
        self.i += 1;
        Some(match c {
            b'T' => Sv::Bool(true),
            b'F' => Sv::Bool(false),
            b'I' => {
                let t = self.peek()?;
                self.i += 1;
                let neg = self.eat(b'-').is_some();
                let d = self.run(|c| c.is_ascii_digit());
                if d.is_empty() {
                    return None;
                }
                let mut txt = String::new();
                if neg {
                    txt.push('-');
                }
                txt.push_str(std::str::from_utf8(d).ok()?);
                self.eat(b';')?;
                match t {
                    b'a' => Sv::I8(txt.parse().ok()?),
                    b'b' => Sv::I16(txt.parse().ok()?),
                    b'c' => Sv::I32(txt.parse().ok()?),
                    b'd' => Sv::I64(txt.parse().ok()?),
                    b'e' => Sv::I128(txt.parse().ok()?),
                    b'f' => Sv::U8(txt.parse().ok()?),
                    b'g' => Sv::U16(txt.parse().ok()?),
                    b'h' => Sv::U32(txt.parse().ok()?),
                    b'i' => Sv::U64(txt.parse().ok()?),
                    b'j' => Sv::U128(txt.parse().ok()?),
                    _ => return None,
                }
            }
            b'f' => Sv::F32(self.fixhex(8)? as u32),
            b'd' => Sv::F64(self.fixhex(16)?),
            b'c' => {
                let r = self.run(|c| c.is_ascii_digit() || (b'a'..=b'f').contains(&c));
                if r.is_empty() {
                    return None;
                }
                let n = u32::from_str_radix(std::str::from_utf8(r).ok()?, 16).ok()?;
                self.eat(b';')?;
                Sv::Char(char::from_u32(n)?)
            }
            b's' => Sv::Str(self.string()?),
            b'y' => Sv::Bytes(self.hexsemi()?),
            b'N' => Sv::None,
            b'O' => Sv::Some(Box::new(self.sval()?)),
            b'U' => Sv::Unit,
            b'u' => Sv::UnitStruct,
            b'v' => Sv::UnitVariant(intern(self.string()?)),
            b'n' => Sv::NewtypeStruct(Box::new(self.sval()?)),
            b'w' => {
                let n = intern(self.string()?);
                Sv::NewtypeVariant(n, Box::new(self.sval()?))
            }
            b'Q' => {
                let h = self.hint()?;
                Sv::Seq(h, self.elems()?)
            }
            b't' => {
                self.eat(b'(')?;
                Sv::Tuple(self.elems()?)
            }
            b'r' => {
                self.eat(b'(')?;
                Sv::TupleStruct(self.elems()?)
            }
            b'V' => {
                let n = intern(self.string()?);
                self.eat(b'(')?;
                Sv::TupleVariant(n, self.elems()?)
            }
            b'M' => {
                let h = self.hint()?;
                let mut v = vec![];
                loop {
                    if self.peek() == Some(b')') {
                        self.i += 1;
                        break;
                    }
                    let k = self.sval()?;
                    let x = self.sval()?;
                    v.push((k, x));
                }
                Sv::Map(h, v)
            }
            b'R' => {
                self.eat(b'(')?;
                Sv::Struct(self.fields()?)
            }
            b'W' => {
                let n = intern(self.string()?);
                self.eat(b'(')?;
                Sv::StructVariant(n, self.fields()?)
            }
            b'C' => {
                self.eat(b'(')?;
                let mut v = vec![];
                loop {
                    if self.peek() == Some(b')') {
                        self.i += 1;
                        break;
                    }
                    v.push(self.string()?);
                }
                Sv::CollectStr(v)
            }
            b'L' => Sv::NumLit(self.string()?),
            _ => return None,
        })
    }
}

fn parse_sval(s: &str) -> Option<Sv> {
    let mut p = P { b: s.as_bytes(), i: 0 };
    let v = p.sval()?;
    if p.i == s.len() {
        Some(v)
    } else {
        None
    }
}

// ---------------------------------------------------------------- writers
/// records every buffer handed to write_all (one entry per call, empty buffers included)
struct RecWriter {
    bufs: Vec<Vec<u8>>,
}
impl Write for RecWriter {
    fn write(&mut self, buf: &[u8]) -> io::Result<usize> {
        // the serialiser only ever calls write_all; a direct write would be recorded as its own buffer
        self.bufs.push(buf.to_vec());
        Ok(buf.len())
    }
    fn write_all(&mut self, buf: &[u8]) -> io::Result<()> {
        self.bufs.push(buf.to_vec());
        Ok(())
    }
    fn flush(&mut self) -> io::Result<()> {
        Ok(())
    }
}

enum Fmt {
    Compact,
    Pretty(Vec<u8>),
}
fn parse_fmt(s: &str) -> Option<Fmt> {
    if s == "c" {
        return Some(Fmt::Compact);
    }
    let t = s.strip_prefix('p')?;
    Some(Fmt::Pretty(unhex(t)?))
}

fn run_ser<W: Write, T: Serialize>(w: W, fmt: &Fmt, v: &T) -> Result<(), serde_json::Error> {
    match fmt {
        Fmt::Compact => {
            let mut ser = serde_json::Serializer::new(w);
            v.serialize(&mut ser)
        }
        Fmt::Pretty(ind) => {
            let mut ser = serde_json::Serializer::with_formatter(w, PrettyFormatter::with_indent(ind));
            v.serialize(&mut ser)
        }
    }
}

fn lens(bufs: &[Vec<u8>]) -> String {
    if bufs.is_empty() {
        return "-".into();
    }
    bufs.iter().map(|b| b.len().to_string()).collect::<Vec<_>>().join(",")
}

/// answer of se / sv for one serialisable value; `extra` collects the direct checks
fn ser_answer<T: Serialize + fmt::Debug>(fmt: &Fmt, v: &T, display: Option<(&dyn Fn() -> String, &dyn Fn() -> String)>) -> String {
    let mut w = RecWriter { bufs: vec![] };
    let r = run_ser(&mut w, fmt, v);
    let out: Vec<u8> = w.bufs.concat();
    let mut extra: Vec<String> = vec![];
    // every buffer valid UTF-8 on its own, and the whole output
    let ub = w.bufs.iter().all(|b| std::str::from_utf8(b).is_ok());
    extra.push(format!("u={}{}", if ub { 1 } else { 0 }, if std::str::from_utf8(&out).is_ok() { 1 } else { 0 }));
    let head = match &r {
        Ok(()) => format!("ok {} {}", hex(&out), lens(&w.bufs)),
        Err(e) => format!("err {} {} {}", code_name(e), hex(&out), lens(&w.bufs)),
    };
    if r.is_ok() {
        // the output parses back (exactly one JSON text) to ...
        match serde_json::from_slice::<Value>(&out) {
            Ok(j) => extra.push(format!("p={}", show_value(&j))),
            Err(e) => extra.push(format!("p=ERR:{}", code_name(&e))),
        }
    }
    // the other entry points give the same bytes / the same error
    let mut agree = true;
    let mut why = String::new();
    let same = |name: &str, got: Result<Vec<u8>, serde_json::Error>, agree: &mut bool, why: &mut String| {
        let ok = match (&r, &got) {
            (Ok(()), Ok(b)) => *b == out,
            (Err(e1), Err(e2)) => code_name(e1) == code_name(e2),
            _ => false,
        };
        if !ok {
            *agree = false;
            why.push_str(name);
            why.push(',');
        }
    };
    match fmt {
        Fmt::Compact => {
            same("to_vec", serde_json::to_vec(v), &mut agree, &mut why);
            same("to_string", serde_json::to_string(v).map(String::into_bytes), &mut agree, &mut why);
            let mut buf = Vec::new();
            let rr = serde_json::to_writer(&mut buf, v);
            same("to_writer", rr.map(|_| buf), &mut agree, &mut why);
            if let Some((d, _)) = display {
                if r.is_ok() && d().into_bytes() != out {
                    agree = false;
                    why.push_str("Display,");
                }
            }
        }
        Fmt::Pretty(ind) if ind.as_slice() == b"  " => {
            same("to_vec_pretty", serde_json::to_vec_pretty(v), &mut agree, &mut why);
            same("to_string_pretty", serde_json::to_string_pretty(v).map(String::into_bytes), &mut agree, &mut why);
            let mut buf = Vec::new();
            let rr = serde_json::to_writer_pretty(&mut buf, v);
            same("to_writer_pretty", rr.map(|_| buf), &mut agree, &mut why);
            if let Some((_, d)) = display {
                if r.is_ok() && d().into_bytes() != out {
                    agree = false;
                    why.push_str("Display#,");
                }
            }
        }
        Fmt::Pretty(_) => {
            let mut buf = Vec::new();
            let rr = run_ser(&mut buf, fmt, v);
            same("vec_writer", rr.map(|_| buf), &mut agree, &mut why);
        }
    }
    extra.push(if agree { "agree".into() } else { format!("DISAGREE:{}", why) });
    format!("{} ! {}", head, extra.join(" "))
}

// ---------------------------------------------------------------- float texts (ryu, through serde_json itself)
fn f64_text(bits: u64) -> String {
    let f = f64::from_bits(bits);
    if f.is_finite() {
        hex(serde_json::to_string(&f).unwrap().as_bytes())
    } else {
        "-".into()
    }
}
fn f32_text(bits: u32) -> String {
    let f = f32::from_bits(bits);
    if f.is_finite() {
        hex(serde_json::to_string(&f).unwrap().as_bytes())
    } else {
        "-".into()
    }
}

fn collect_floats(v: &Value, out: &mut Vec<u64>) {
    match v {
        Value::Number(n) => {
            #[cfg(not(feature = "arbitrary_precision"))]
            if n.is_f64() {
                out.push(n.as_f64().unwrap().to_bits());
            }
            let _ = n;
        }
        Value::Array(a) => a.iter().for_each(|x| collect_floats(x, out)),
        Value::Object(m) => m.values().for_each(|x| collect_floats(x, out)),
        _ => {}
    }
}

// ---------------------------------------------------------------- dispatch
fn dispatch(f: &[&str]) -> Option<String> {
    match *f.first()? {
        // se <cfg> <fmt> <ftab> <sval>
        "se" if f.len() == 5 => {
            let fmt = parse_fmt(f[2])?;
            let v = parse_sval(f[4])?;
            Some(ser_answer(&fmt, &v, None))
        }
        // s2 <cfg> <fmt> <ftab> <sval1> <sval2> : two documents through ONE Serializer (formatter state carried over)
        "s2" if f.len() == 6 => {
            let fmt = parse_fmt(f[2])?;
            let v1 = parse_sval(f[4])?;
            let v2 = parse_sval(f[5])?;
            let mut w = RecWriter { bufs: vec![] };
            let r = match &fmt {
                Fmt::Compact => {
                    let mut ser = serde_json::Serializer::new(&mut w);
                    v1.serialize(&mut ser).and_then(|_| v2.serialize(&mut ser))
                }
                Fmt::Pretty(ind) => {
                    let mut ser = serde_json::Serializer::with_formatter(&mut w, PrettyFormatter::with_indent(ind));
                    v1.serialize(&mut ser).and_then(|_| v2.serialize(&mut ser))
                }
            };
            let out: Vec<u8> = w.bufs.concat();
            let h = if out.is_empty() { "-".to_string() } else { hex(&out) };
            Some(match r {
                Ok(()) => format!("ok {} {}", h, lens(&w.bufs)),
                Err(e) => format!("err {} {} {}", code_name(&e), h, lens(&w.bufs)),
            })
        }
        // sv <cfg> <fmt> <ftab> <json hex>
        "sv" if f.len() == 5 => {
            let fmt = parse_fmt(f[2])?;
            let text = unhex(f[4])?;
            let v: Value = match serde_json::from_slice(&text) {
                Ok(v) => v,
                Err(_) => return Some("perr".into()),
            };
            let d1 = || format!("{}", v);
            let d2 = || format!("{:#}", v);
            Some(ser_answer(&fmt, &v, Some((&d1, &d2))))
        }
        // tv <cfg> <ftab> <sval>
        "tv" if f.len() == 4 => {
            let v = parse_sval(f[3])?;
            let tv = serde_json::to_value(&v);
            let head = match &tv {
                Ok(j) => format!("ok {}", show_value(j)),
                Err(e) => format!("err {}", code_name(e)),
            };
            // the C15 relation evaluated directly
            let ts = serde_json::to_string(&v);
            let rel = match &ts {
                Ok(s) => match serde_json::from_str::<Value>(s) {
                    Ok(j) => format!("s=ok p={}", show_value(&j)),
                    Err(e) => format!("s=ok p=ERR:{}", code_name(&e)),
                },
                Err(e) => format!("s=err:{}", code_name(e)),
            };
            Some(format!("{} ! {}", head, rel))
        }
        // wf <cfg> <fmt> <ftab> <k> <kind> <chunking> <sval>
        "wf" if f.len() == 8 => {
            let fmt = parse_fmt(f[2])?;
            let v = parse_sval(f[7])?;
            let mut w = rw::ChunkWriter::new(0);
            // <k>: persistent failure once k bytes were accepted; o<k>: the same failure exactly ONCE (later calls are served);
            // b<cap>: all-or-nothing sink of capacity cap (a buffer that does not fit is refused, smaller later ones would fit)
            let mut extended = false;
            if let Some(t) = f[4].strip_prefix('o') {
                w.fail_at = Some(t.parse().ok()?);
                w.fail_kind = kind_of(f[5].parse().ok()?);
                w.one_shot = true;
                extended = true;
            } else if let Some(t) = f[4].strip_prefix('b') {
                w.cap = Some(t.parse().ok()?);
                w.fail_kind = kind_of(f[5].parse().ok()?);
                extended = true;
            } else if f[4] != "-" {
                w.fail_at = Some(f[4].parse().ok()?);
                w.fail_kind = kind_of(f[5].parse().ok()?);
            }
            if let Some(t) = f[6].strip_prefix('s') {
                let sched: Option<Vec<usize>> = t.split(',').map(|x| x.parse().ok()).collect();
                let sched = sched?;
                if sched.iter().all(|x| *x == 0) {
                    return None;
                }
                w.sched = sched;
            } else if f[6] != "a" {
                return None;
            }
            let r = run_ser(&mut w, &fmt, &v);
            let tail = match &r {
                Ok(()) => "ok".to_string(),
                Err(e) if e.is_io() => format!("err Io {}", e.io_error_kind().map(kind_id).unwrap_or(0)),
                Err(e) => format!("err {}", code_name(e)),
            };
            if extended {
                return Some(format!("{} {} after={} fired={}", hex(&w.accepted), tail, w.calls_after_failure, w.fired));
            }
            Some(format!("{} {}", hex(&w.accepted), tail))
        }
        // ft d<16hex>,f<8hex>,... : ryu texts
        "ft" if f.len() == 2 => {
            let mut out = vec![];
            for e in f[1].split(',') {
                if let Some(h) = e.strip_prefix('d') {
                    let b = u64::from_str_radix(h, 16).ok()?;
                    out.push(format!("d{:016x}={}", b, f64_text(b)));
                } else if let Some(h) = e.strip_prefix('f') {
                    let b = u32::from_str_radix(h, 16).ok()?;
                    out.push(format!("f{:08x}={}", b, f32_text(b)));
                } else {
                    return None;
                }
            }
            Some(format!("ok {}", out.join(",")))
        }
        // fj <json hex> : the floats of the parsed Value with their texts
        "fj" if f.len() == 2 => {
            let text = unhex(f[1])?;
            let v: Value = match serde_json::from_slice(&text) {
                Ok(v) => v,
                Err(_) => return Some("perr".into()),
            };
            let mut fl = vec![];
            collect_floats(&v, &mut fl);
            fl.sort();
            fl.dedup();
            if fl.is_empty() {
                return Some("ok -".into());
            }
            Some(format!("ok {}", fl.iter().map(|b| format!("d{:016x}={}", b, f64_text(*b))).collect::<Vec<_>>().join(",")))
        }
        _ => None,
    }
}

fn main() {
    let args: Vec<String> = std::env::args().collect();
    std::panic::set_hook(Box::new(|_| {}));
    let stdin = std::io::stdin();
    let input: Box<dyn BufRead> = if args.len() > 1 {
        Box::new(std::io::BufReader::new(std::fs::File::open(&args[1]).expect("case file")))
    } else {
        Box::new(stdin.lock())
    };
    let stdout = std::io::stdout();
    let mut out = std::io::BufWriter::new(stdout.lock());
    for line in input.lines() {
        let line = line.expect("read line");
        let fields: Vec<&str> = line.split(' ').filter(|s| !s.is_empty()).collect();
        let r = catch_unwind(AssertUnwindSafe(|| dispatch(&fields)));
        match r {
            Ok(Some(s)) => writeln!(out, "{}", s).unwrap(),
            Ok(None) => writeln!(out, "BADCASE").unwrap(),
            Err(_) => writeln!(out, "PANIC").unwrap(),
        }
    }
    out.flush().unwrap();
}
