// sjh_map — C17: runs operation histories on a real serde_json::Map<String, Value>, Value ==, Hash (with a
// recording Hasher) and sort_all_objects.  Protocol: /verif/coq/theories/Extract/Driver_map.v (same input, same output).
// Everything after " ! " on an answer line is extra information computed from the implementation's own
// results (direct checks); the model does not print it.
#![allow(clippy::all)]
#![allow(dead_code)]

#[path = "../canon.rs"]
mod canon;

use canon::{hex, show_value, unhex};
use serde_json::map::Entry;
use serde_json::{Map, Number, Value};
use std::hash::{Hash, Hasher};
use std::io::{BufRead, Write};
use std::panic::{catch_unwind, AssertUnwindSafe};

type M = Map<String, Value>;
const PO: bool = cfg!(feature = "preserve_order");

// ---------------------------------------------------------------- decoding
struct P<'a> {
    b: &'a [u8],
    i: usize,
    pos: u64,
}
impl<'a> P<'a> {
    fn peek(&self) -> Option<u8> {
        self.b.get(self.i).copied()
    }
    fn eat(&mut self, c: u8) -> Option<()> {
        if self.peek() == Some(c) {
            self.i += 1;
            Some(())
        } else {
            None
        }
    }
    fn run(&mut self, f: fn(u8) -> bool) -> &'a [u8] {
        let s = self.i;
        while self.i < self.b.len() && f(self.b[self.i]) {
            self.i += 1;
        }
        &self.b[s..self.i]
    }
    fn hexrun(&mut self) -> Option<Vec<u8>> {
        if self.peek() == Some(b'-') {
            self.i += 1;
            return Some(vec![]);
        }
        let r = self.run(|c| c.is_ascii_digit() || (b'a'..=b'f').contains(&c));
        if r.is_empty() {
            return None;
        }
        unhex(std::str::from_utf8(r).ok()?)
    }
    fn string(&mut self) -> Option<String> {
        String::from_utf8(self.hexrun()?).ok()
    }
    fn value(&mut self) -> Option<Value> {
        let c = self.peek()?;
        self.i += 1;
        match c {
            b'n' => Some(Value::Null),
            b't' => Some(Value::Bool(true)),
            b'f' => Some(Value::Bool(false)),
            b'#' => Some(Value::from(self.pos)),
            b'u' => {
                let d = self.run(|c| c.is_ascii_digit());
                Some(Value::from(std::str::from_utf8(d).ok()?.parse::<u64>().ok()?))
            }
            b'i' => {
                self.eat(b'-')?;
                let d = self.run(|c| c.is_ascii_digit());
                let n = std::str::from_utf8(d).ok()?.parse::<u64>().ok()?;
                if n == 0 || n > (1u64 << 63) {
                    return None;
                }
                Some(Value::from((n as i128).wrapping_neg() as i64))
            }
            b'd' => {
                if self.i + 16 > self.b.len() {
                    return None;
                }
                let h = std::str::from_utf8(&self.b[self.i..self.i + 16]).ok()?;
                self.i += 16;
                let bits = u64::from_str_radix(h, 16).ok()?;
                Some(Value::Number(Number::from_f64(f64::from_bits(bits))?))
            }
            b's' => Some(Value::String(self.string()?)),
            b'a' => {
                self.eat(b'(')?;
                let mut v = vec![];
                if self.eat(b')').is_some() {
                    return Some(Value::Array(v));
                }
                loop {
                    v.push(self.value()?);
                    if self.eat(b',').is_some() {
                        continue;
                    }
                    self.eat(b')')?;
                    return Some(Value::Array(v));
                }
            }
            b'o' => {
                self.i -= 1;
                let es = self.entries()?;
                let mut m = M::new();
                for (k, v) in es {
                    m.insert(k, v);
                }
                Some(Value::Object(m))
            }
            _ => None,
        }
    }
    fn entries(&mut self) -> Option<Vec<(String, Value)>> {
        self.eat(b'o')?;
        self.eat(b'(')?;
        let mut v = vec![];
        if self.eat(b')').is_some() {
            return Some(v);
        }
        loop {
            let k = self.string()?;
            self.eat(b':')?;
            v.push((k, self.value()?));
            if self.eat(b',').is_some() {
                continue;
            }
            self.eat(b')')?;
            return Some(v);
        }
    }
}

fn value_of(pos: u64, s: &str) -> Option<Value> {
    let mut p = P { b: s.as_bytes(), i: 0, pos };
    let v = p.value()?;
    if p.i == s.len() {
        Some(v)
    } else {
        None
    }
}
fn entries_of(pos: u64, s: &str) -> Option<Vec<(String, Value)>> {
    let mut p = P { b: s.as_bytes(), i: 0, pos };
    let v = p.entries()?;
    if p.i == s.len() {
        Some(v)
    } else {
        None
    }
}
fn key_of(s: &str) -> Option<String> {
    String::from_utf8(unhex(s)?).ok()
}

#[derive(Clone)]
enum VFun {
    Set(Value),
    Wrap,
    Null,
    Key,
}
impl VFun {
    fn app(&self, k: &str, x: Value) -> Value {
        match self {
            VFun::Set(v) => v.clone(),
            VFun::Wrap => Value::Array(vec![x]),
            VFun::Null => Value::Null,
            VFun::Key => Value::String(k.to_owned()),
        }
    }
}
fn vfun_of(pos: u64, s: &str) -> Option<VFun> {
    match s {
        "W" => Some(VFun::Wrap),
        "N" => Some(VFun::Null),
        _ => Some(VFun::Set(value_of(pos, s.strip_prefix('S')?)?)),
    }
}
fn kvfun_of(pos: u64, s: &str) -> Option<VFun> {
    if s == "K" {
        Some(VFun::Key)
    } else {
        vfun_of(pos, s)
    }
}
#[derive(Clone)]
enum Pred {
    All,
    None,
    Num,
    Lt(String),
    Gt(String),
    In(Vec<String>),
}
impl Pred {
    fn test(&self, k: &String, v: &Value) -> bool {
        match self {
            Pred::All => true,
            Pred::None => false,
            Pred::Num => v.is_number(),
            Pred::Lt(k0) => k < k0,
            Pred::Gt(k0) => k > k0,
            Pred::In(ks) => ks.contains(k),
        }
    }
}
fn pred_of(s: &str) -> Option<Pred> {
    match s {
        "A" => return Some(Pred::All),
        "Z" => return Some(Pred::None),
        "U" => return Some(Pred::Num),
        _ => {}
    }
    let (h, r) = s.split_at(1);
    match h {
        "L" => Some(Pred::Lt(key_of(r)?)),
        "G" => Some(Pred::Gt(key_of(r)?)),
        "I" => {
            let mut v = vec![];
            for x in r.split('+') {
                v.push(key_of(x)?);
            }
            Some(Pred::In(v))
        }
        _ => None,
    }
}
#[derive(Clone)]
enum VAct {
    Key,
    Insert(Value),
}
#[derive(Clone)]
enum OAct {
    Get,
    GetMut(VFun),
    IntoMut(VFun),
    Insert(Value),
    Remove,
    SwapRemove,
    ShiftRemove,
    RemoveEntry,
    SwapRemoveEntry,
    ShiftRemoveEntry,
}
fn vact_of(pos: u64, s: &str) -> Option<VAct> {
    if s == "K" {
        return Some(VAct::Key);
    }
    Some(VAct::Insert(value_of(pos, s.strip_prefix('I')?)?))
}
fn oact_of(pos: u64, s: &str) -> Option<OAct> {
    Some(match s {
        "G" => OAct::Get,
        "R" => OAct::Remove,
        "SW" => OAct::SwapRemove,
        "SH" => OAct::ShiftRemove,
        "RE" => OAct::RemoveEntry,
        "SWE" => OAct::SwapRemoveEntry,
        "SHE" => OAct::ShiftRemoveEntry,
        _ => {
            if let Some(r) = s.strip_prefix('M') {
                OAct::GetMut(vfun_of(pos, r)?)
            } else if let Some(r) = s.strip_prefix('T') {
                OAct::IntoMut(vfun_of(pos, r)?)
            } else {
                OAct::Insert(value_of(pos, s.strip_prefix('I')?)?)
            }
        }
    })
}

#[derive(Clone)]
enum Op {
    Clear,
    Get(String),
    Has(String),
    Gkv(String),
    GetMut(String, VFun),
    Insert(String, Value),
    ShiftInsert(usize, String, Value),
    Remove(String),
    RemoveEntry(String),
    SwapRemove(String),
    SwapRemoveEntry(String),
    ShiftRemove(String),
    ShiftRemoveEntry(String),
    Append(Vec<(String, Value)>),
    Extend(Vec<(String, Value)>),
    FromIter(Vec<(String, Value)>),
    EntryKey(String),
    EntryOrInsert(String, Value),
    EntryOrInsertWith(String, Value),
    EntryAndModify(String, VFun),
    EntryAndModifyOrInsert(String, VFun, Value),
    EntryMatch(String, VAct, OAct),
    Len,
    IsEmpty,
    Iter,
    IterRev,
    Keys,
    KeysRev,
    Values,
    ValuesRev,
    IntoIter,
    IntoValues,
    IterMut(VFun),
    ValuesMut(VFun),
    Retain(Pred),
    SortKeys,
    Index(String),
    IndexMut(String, Value),
}

fn op_of(pos: u64, tok: &str) -> Option<Op> {
    let f: Vec<&str> = tok.split('/').collect();
    Some(match (f[0], f.len()) {
        ("clr", 1) => Op::Clear,
        ("get", 2) => Op::Get(key_of(f[1])?),
        ("has", 2) => Op::Has(key_of(f[1])?),
        ("gkv", 2) => Op::Gkv(key_of(f[1])?),
        ("gm", 3) => Op::GetMut(key_of(f[1])?, vfun_of(pos, f[2])?),
        ("ins", 3) => Op::Insert(key_of(f[1])?, value_of(pos, f[2])?),
        ("sins", 4) => Op::ShiftInsert(f[1].parse().ok()?, key_of(f[2])?, value_of(pos, f[3])?),
        ("rm", 2) => Op::Remove(key_of(f[1])?),
        ("rme", 2) => Op::RemoveEntry(key_of(f[1])?),
        ("swr", 2) => Op::SwapRemove(key_of(f[1])?),
        ("swre", 2) => Op::SwapRemoveEntry(key_of(f[1])?),
        ("shr", 2) => Op::ShiftRemove(key_of(f[1])?),
        ("shre", 2) => Op::ShiftRemoveEntry(key_of(f[1])?),
        ("app", 2) => Op::Append(entries_of(pos, f[1])?),
        ("ext", 2) => Op::Extend(entries_of(pos, f[1])?),
        ("fri", 2) => Op::FromIter(entries_of(pos, f[1])?),
        ("ek", 2) => Op::EntryKey(key_of(f[1])?),
        ("eoi", 3) => Op::EntryOrInsert(key_of(f[1])?, value_of(pos, f[2])?),
        ("eow", 3) => Op::EntryOrInsertWith(key_of(f[1])?, value_of(pos, f[2])?),
        ("eam", 3) => Op::EntryAndModify(key_of(f[1])?, vfun_of(pos, f[2])?),
        ("eamoi", 4) => Op::EntryAndModifyOrInsert(key_of(f[1])?, vfun_of(pos, f[2])?, value_of(pos, f[3])?),
        ("em", 4) => Op::EntryMatch(key_of(f[1])?, vact_of(pos, f[2])?, oact_of(pos, f[3])?),
        ("len", 1) => Op::Len,
        ("emp", 1) => Op::IsEmpty,
        ("it", 1) => Op::Iter,
        ("itr", 1) => Op::IterRev,
        ("ks", 1) => Op::Keys,
        ("ksr", 1) => Op::KeysRev,
        ("vs", 1) => Op::Values,
        ("vsr", 1) => Op::ValuesRev,
        ("ii", 1) => Op::IntoIter,
        ("iv", 1) => Op::IntoValues,
        ("itm", 2) => Op::IterMut(kvfun_of(pos, f[1])?),
        ("vm", 2) => Op::ValuesMut(vfun_of(pos, f[1])?),
        ("ret", 2) => Op::Retain(pred_of(f[1])?),
        ("sort", 1) => Op::SortKeys,
        ("ix", 2) => Op::Index(key_of(f[1])?),
        ("ixm", 3) => Op::IndexMut(key_of(f[1])?, value_of(pos, f[2])?),
        _ => return None,
    })
}

// ---------------------------------------------------------------- printing
fn show_entries<'a, I: Iterator<Item = (&'a String, &'a Value)>>(it: I) -> String {
    let mut s = String::from("o(");
    for (i, (k, v)) in it.enumerate() {
        if i > 0 {
            s.push(',');
        }
        s.push_str(&hex(k.as_bytes()));
        s.push(':');
        s.push_str(&show_value(v));
    }
    s.push(')');
    s
}
fn show_owned_entries<I: Iterator<Item = (String, Value)>>(it: I) -> String {
    let v: Vec<(String, Value)> = it.collect();
    show_entries(v.iter().map(|(k, v)| (k, v)))
}
fn show_keys<'a, I: Iterator<Item = &'a String>>(it: I) -> String {
    let mut s = String::from("k(");
    for (i, k) in it.enumerate() {
        if i > 0 {
            s.push(',');
        }
        s.push_str(&hex(k.as_bytes()));
    }
    s.push(')');
    s
}
fn show_vals<'a, I: Iterator<Item = &'a Value>>(it: I) -> String {
    let mut s = String::from("a(");
    for (i, v) in it.enumerate() {
        if i > 0 {
            s.push(',');
        }
        s.push_str(&show_value(v));
    }
    s.push(')');
    s
}
fn opt_v(o: Option<Value>) -> String {
    match o {
        None => "N".into(),
        Some(v) => format!("S{}", show_value(&v)),
    }
}
fn kv(k: &str, v: &Value) -> String {
    format!("{}={}", hex(k.as_bytes()), show_value(v))
}
fn opt_kv(o: Option<(String, Value)>) -> String {
    match o {
        None => "N".into(),
        Some((k, v)) => format!("S{}", kv(&k, &v)),
    }
}

// ---------------------------------------------------------------- one operation
#[cfg(feature = "preserve_order")]
mod po_only {
    use super::*;
    pub fn shift_insert(m: &mut M, i: usize, k: String, v: Value) -> String {
        opt_v(m.shift_insert(i, k, v))
    }
    pub fn swap_remove(m: &mut M, k: &str) -> String {
        opt_v(m.swap_remove(k))
    }
    pub fn swap_remove_entry(m: &mut M, k: &str) -> String {
        opt_kv(m.swap_remove_entry(k))
    }
    pub fn shift_remove(m: &mut M, k: &str) -> String {
        opt_v(m.shift_remove(k))
    }
    pub fn shift_remove_entry(m: &mut M, k: &str) -> String {
        opt_kv(m.shift_remove_entry(k))
    }
    pub fn occ(e: serde_json::map::OccupiedEntry, a: &OAct) -> String {
        match a {
            OAct::SwapRemove => format!("v{}", show_value(&e.swap_remove())),
            OAct::ShiftRemove => format!("v{}", show_value(&e.shift_remove())),
            OAct::SwapRemoveEntry => {
                let (k, v) = e.swap_remove_entry();
                kv(&k, &v)
            }
            OAct::ShiftRemoveEntry => {
                let (k, v) = e.shift_remove_entry();
                kv(&k, &v)
            }
            _ => unreachable!(),
        }
    }
}
#[cfg(not(feature = "preserve_order"))]
mod po_only {
    use super::*;
    pub fn shift_insert(_: &mut M, _: usize, _: String, _: Value) -> String {
        "NA".into()
    }
    pub fn swap_remove(_: &mut M, _: &str) -> String {
        "NA".into()
    }
    pub fn swap_remove_entry(_: &mut M, _: &str) -> String {
        "NA".into()
    }
    pub fn shift_remove(_: &mut M, _: &str) -> String {
        "NA".into()
    }
    pub fn shift_remove_entry(_: &mut M, _: &str) -> String {
        "NA".into()
    }
    pub fn occ(_: serde_json::map::OccupiedEntry, _: &OAct) -> String {
        unreachable!()
    }
}

fn exec(m: &mut M, op: &Op, pos: u64) -> String {
    match op {
        Op::Clear => {
            m.clear();
            "u".into()
        }
        Op::Get(k) => opt_v(m.get(k).cloned()),
        Op::Has(k) => (if m.contains_key(k) { "b1" } else { "b0" }).into(),
        Op::Gkv(k) => opt_kv(m.get_key_value(k).map(|(a, b)| (a.clone(), b.clone()))),
        Op::GetMut(k, g) => match m.get_mut(k) {
            Some(x) => {
                let old = x.clone();
                *x = g.app(k, old.clone());
                opt_v(Some(old))
            }
            None => "N".into(),
        },
        Op::Insert(k, v) => opt_v(m.insert(k.clone(), v.clone())),
        Op::ShiftInsert(i, k, v) => po_only::shift_insert(m, *i, k.clone(), v.clone()),
        Op::Remove(k) => opt_v(m.remove(k)),
        Op::RemoveEntry(k) => opt_kv(m.remove_entry(k)),
        Op::SwapRemove(k) => po_only::swap_remove(m, k),
        Op::SwapRemoveEntry(k) => po_only::swap_remove_entry(m, k),
        Op::ShiftRemove(k) => po_only::shift_remove(m, k),
        Op::ShiftRemoveEntry(k) => po_only::shift_remove_entry(m, k),
        Op::Append(es) => {
            let mut other: M = es.iter().cloned().collect();
            m.append(&mut other);
            if other.is_empty() && other.len() == 0 {
                "u".into()
            } else {
                "u!other-not-empty".into()
            }
        }
        Op::Extend(es) => {
            m.extend(es.iter().cloned());
            "u".into()
        }
        Op::FromIter(es) => {
            *m = es.iter().cloned().collect();
            "u".into()
        }
        Op::EntryKey(k) => {
            let e = m.entry(k.as_str());
            show_keys(std::iter::once(e.key()))
        }
        Op::EntryOrInsert(k, v) => format!("v{}", show_value(m.entry(k.clone()).or_insert(v.clone()))),
        Op::EntryOrInsertWith(k, v) => {
            let mut called = false;
            let r = m.entry(k.as_str()).or_insert_with(|| {
                called = true;
                v.clone()
            });
            let s = show_value(r);
            format!("c{}{}", called as u8, s)
        }
        Op::EntryAndModify(k, g) => {
            let e = m.entry(k.as_str()).and_modify(|x| *x = g.app(k, x.clone()));
            (if matches!(e, Entry::Occupied(_)) { "b1" } else { "b0" }).into()
        }
        Op::EntryAndModifyOrInsert(k, g, v) => {
            let r = m.entry(k.as_str()).and_modify(|x| *x = g.app(k, x.clone())).or_insert(v.clone());
            format!("v{}", show_value(r))
        }
        Op::EntryMatch(k, va, oa) => match m.entry(k.as_str()) {
            Entry::Vacant(e) => {
                let key = e.key().clone();
                let r = match va {
                    VAct::Key => "u".to_string(),
                    VAct::Insert(v) => format!("v{}", show_value(e.insert(v.clone()))),
                };
                format!("V{}|{}", hex(key.as_bytes()), r)
            }
            Entry::Occupied(mut e) => {
                let key = e.key().clone();
                let navail = !PO
                    && matches!(oa, OAct::SwapRemove | OAct::ShiftRemove | OAct::SwapRemoveEntry | OAct::ShiftRemoveEntry);
                if navail {
                    unreachable!()
                }
                let r = match oa {
                    OAct::Get => format!("v{}", show_value(e.get())),
                    OAct::GetMut(g) => {
                        let old = e.get().clone();
                        *e.get_mut() = g.app(k, old.clone());
                        format!("v{}", show_value(&old))
                    }
                    OAct::IntoMut(g) => {
                        let r = e.into_mut();
                        let old = r.clone();
                        *r = g.app(k, old.clone());
                        format!("v{}", show_value(&old))
                    }
                    OAct::Insert(v) => format!("v{}", show_value(&e.insert(v.clone()))),
                    OAct::Remove => format!("v{}", show_value(&e.remove())),
                    OAct::RemoveEntry => {
                        let (a, b) = e.remove_entry();
                        kv(&a, &b)
                    }
                    _ => po_only::occ(e, oa),
                };
                format!("O{}|{}", hex(key.as_bytes()), r)
            }
        },
        Op::Len => format!("#{}", m.len()),
        Op::IsEmpty => (if m.is_empty() { "b1" } else { "b0" }).into(),
        Op::Iter => {
            if pos % 2 == 0 {
                show_entries(m.iter())
            } else {
                show_entries((&*m).into_iter())
            }
        }
        Op::IterRev => show_entries(m.iter().rev()),
        Op::Keys => show_keys(m.keys()),
        Op::KeysRev => show_keys(m.keys().rev()),
        Op::Values => show_vals(m.values()),
        Op::ValuesRev => show_vals(m.values().rev()),
        Op::IntoIter => show_owned_entries(m.clone().into_iter()),
        Op::IntoValues => {
            let v: Vec<Value> = m.clone().into_values().collect();
            show_vals(v.iter())
        }
        Op::IterMut(g) => {
            if pos % 2 == 0 {
                for (k, v) in m.iter_mut() {
                    *v = g.app(k, v.clone());
                }
            } else {
                for (k, v) in &mut *m {
                    *v = g.app(k, v.clone());
                }
            }
            "u".into()
        }
        Op::ValuesMut(g) => {
            for v in m.values_mut() {
                *v = g.app("", v.clone());
            }
            "u".into()
        }
        Op::Retain(p) => {
            let mut seen: Vec<String> = vec![];
            m.retain(|k, v| {
                seen.push(k.clone());
                p.test(k, v)
            });
            show_keys(seen.iter())
        }
        Op::SortKeys => {
            m.sort_keys();
            "u".into()
        }
        Op::Index(k) => format!("v{}", show_value(&m[k.as_str()])),
        Op::IndexMut(k, v) => {
            m[k.as_str()] = v.clone();
            "u".into()
        }
    }
}

fn avail(op: &Op) -> bool {
    if PO {
        return true;
    }
    match op {
        Op::ShiftInsert(..) | Op::SwapRemove(_) | Op::SwapRemoveEntry(_) | Op::ShiftRemove(_) | Op::ShiftRemoveEntry(_) => false,
        Op::EntryMatch(_, _, oa) => !matches!(oa, OAct::SwapRemove | OAct::ShiftRemove | OAct::SwapRemoveEntry | OAct::ShiftRemoveEntry),
        _ => true,
    }
}

fn step(m: &mut M, op: &Op, pos: u64) -> String {
    if !avail(op) {
        return "NA".into();
    }
    match catch_unwind(AssertUnwindSafe(|| exec(m, op, pos))) {
        Ok(s) => s,
        Err(_) => "PANIC".into(),
    }
}

// direct checks on the implementation's own state: iteration count = len, no duplicate key,
// strictly ascending keys in the default configuration, forward and backward iteration mirror each other
fn state_bad(m: &M) -> bool {
    let ks: Vec<&String> = m.keys().collect();
    if ks.len() != m.len() || m.iter().len() != m.len() {
        return true;
    }
    for i in 0..ks.len() {
        for j in i + 1..ks.len() {
            if ks[i] == ks[j] {
                return true;
            }
        }
        if !PO && i + 1 < ks.len() && !(ks[i].as_bytes() < ks[i + 1].as_bytes()) {
            return true;
        }
        if m.get(ks[i].as_str()).is_none() {
            return true;
        }
    }
    let mut back: Vec<&String> = m.keys().rev().collect();
    back.reverse();
    if back != ks {
        return true;
    }
    // iterator lengths / size hints (delegate_iterator!), Clone, clone_from into a map made by with_capacity
    let n = m.len();
    if m.keys().len() != n || m.values().len() != n || m.iter().size_hint() != (n, Some(n)) || m.values().size_hint() != (n, Some(n)) {
        return true;
    }
    let c = m.clone();
    // the target of clone_from already holds the source's keys in REVERSE order (with other values) plus a stale key: afterwards it is the source, in the source's order
    let mut d = M::with_capacity(n % 3);
    d.insert("zz-stale".to_string(), Value::Null);
    for (k, _) in m.iter().rev() {
        d.insert(k.clone(), Value::Bool(false));
    }
    d.clone_from(m);
    let e = show_entries(m.iter());
    c != *m || d != *m || show_entries(c.iter()) != e || show_entries(d.iter()) != e || c.into_iter().len() != n
}

// ---------------------------------------------------------------- recording hasher
#[derive(Default)]
struct Rec(Vec<String>);
impl Hasher for Rec {
    fn finish(&self) -> u64 {
        0
    }
    fn write(&mut self, b: &[u8]) {
        self.0.push(format!("w:{}", hex(b)));
    }
    fn write_u8(&mut self, i: u8) {
        self.0.push(format!("u8:{}", i));
    }
    fn write_u16(&mut self, i: u16) {
        self.0.push(format!("u16:{}", i));
    }
    fn write_u32(&mut self, i: u32) {
        self.0.push(format!("u32:{}", i));
    }
    fn write_u64(&mut self, i: u64) {
        self.0.push(format!("u64:{}", i));
    }
    fn write_u128(&mut self, i: u128) {
        self.0.push(format!("u128:{}", i));
    }
    fn write_usize(&mut self, i: usize) {
        self.0.push(format!("us:{}", i));
    }
    fn write_i8(&mut self, i: i8) {
        self.0.push(format!("i8:{}", i));
    }
    fn write_i16(&mut self, i: i16) {
        self.0.push(format!("i16:{}", i));
    }
    fn write_i32(&mut self, i: i32) {
        self.0.push(format!("i32:{}", i));
    }
    fn write_i64(&mut self, i: i64) {
        self.0.push(format!("i64:{}", i));
    }
    fn write_i128(&mut self, i: i128) {
        self.0.push(format!("i128:{}", i));
    }
    fn write_isize(&mut self, i: isize) {
        self.0.push(format!("is:{}", i));
    }
}
fn feed(v: &Value) -> String {
    let mut r = Rec::default();
    v.hash(&mut r);
    r.0.join(",")
}
fn std_hash(v: &Value) -> u64 {
    let mut h = std::collections::hash_map::DefaultHasher::new();
    v.hash(&mut h);
    h.finish()
}

// ---------------------------------------------------------------- checksum
struct Dg {
    n: u64,
    s1: u64,
    s2: u64,
    bad: u64,
}
impl Dg {
    fn line(&mut self, obs: &str, m: &M) {
        let e = show_entries(m.iter());
        let (mut s1, mut s2) = (0u64, 0u64);
        for b in obs.bytes().chain(std::iter::once(b' ')).chain(e.bytes()) {
            s1 += b as u64;
            s2 += s1;
        }
        self.s1 += s1;
        self.s2 += s2;
        self.n += 1;
        if state_bad(m) {
            self.bad += 1;
        }
    }
}
fn dfs(levels: &[Vec<Op>], pos: u64, m: &M, d: &mut Dg) {
    if levels.is_empty() {
        return;
    }
    for op in &levels[0] {
        let mut m2 = m.clone();
        let o = step(&mut m2, op, pos);
        d.line(&o, &m2);
        dfs(&levels[1..], pos + 1, &m2, d);
    }
}

// ---------------------------------------------------------------- dispatch
fn dispatch(f: &[&str]) -> Option<String> {
    match *f.first()? {
        "h" => {
            let mut m = M::new();
            let mut out: Vec<String> = vec![];
            let mut bad = 0;
            for (i, tok) in f[2..].iter().enumerate() {
                let op = op_of(i as u64, tok)?;
                out.push(step(&mut m, &op, i as u64));
                if state_bad(&m) {
                    bad += 1;
                }
            }
            out.push(format!("F={}", show_entries(m.iter())));
            out.push(format!("B={}", show_entries(m.iter().rev())));
            Some(format!("{} ! bad={}", out.join(" "), bad))
        }
        "x" => {
            let depth: usize = f.get(2)?.parse().ok()?;
            let rest = &f[3..];
            let bar = rest.iter().position(|t| *t == "|").unwrap_or(rest.len());
            let pre = &rest[..bar];
            let after: &[&str] = if bar < rest.len() { &rest[bar + 1..] } else { &[] };
            let bar2 = after.iter().position(|t| *t == "|").unwrap_or(after.len());
            let alph = &after[..bar2];
            let last: &[&str] = if bar2 < after.len() { &after[bar2 + 1..] } else { &[] };
            let mut m = M::new();
            let mut d = Dg { n: 0, s1: 0, s2: 0, bad: 0 };
            for (i, tok) in pre.iter().enumerate() {
                let op = op_of(i as u64, tok)?;
                let o = step(&mut m, &op, i as u64);
                d.line(&o, &m);
            }
            let mut levels: Vec<Vec<Op>> = vec![];
            for l in 0..depth {
                let mut v = vec![];
                for tok in alph {
                    v.push(op_of((pre.len() + l) as u64, tok)?);
                }
                if l + 1 == depth {
                    for tok in last {
                        v.push(op_of((pre.len() + l) as u64, tok)?);
                    }
                }
                levels.push(v);
            }
            dfs(&levels, pre.len() as u64, &m, &mut d);
            Some(format!("D {} {} {} ! bad={}", d.n, d.s1, d.s2, d.bad))
        }
        "eq" => {
            let a = value_of(0, f.get(2)?)?;
            let b = value_of(0, f.get(3)?)?;
            let e = a == b;
            let sym = (b == a) == e;
            let refl = a == a.clone() && b == b.clone();
            let (fa, fb) = (feed(&a), feed(&b));
            let dh = std_hash(&a) == std_hash(&b);
            Some(format!(
                "{} {} {} ! dh={} sym={} refl={}",
                if e { "t" } else { "f" },
                fa,
                fb,
                dh as u8,
                sym as u8,
                refl as u8
            ))
        }
        "sa" => {
            let mut a = value_of(0, f.get(2)?)?;
            let before = a.clone();
            a.sort_all_objects();
            Some(format!("{} ! same={}", show_value(&a), (a == before) as u8))
        }
        _ => None,
    }
}

fn main() {
    let args: Vec<String> = std::env::args().collect();
    std::panic::set_hook(Box::new(|_| {}));
    let stdin = std::io::stdin();
    let input: Box<dyn BufRead> = if args.len() > 1 {
        Box::new(std::io::BufReader::new(std::fs::File::open(&args[1]).expect("case file")))
    } else {
        Box::new(stdin.lock())
    };
    let stdout = std::io::stdout();
    let mut out = std::io::BufWriter::new(stdout.lock());
    for line in input.lines() {
        let line = line.expect("read line");
        let fields: Vec<&str> = line.split(' ').filter(|s| !s.is_empty()).collect();
        let r = catch_unwind(AssertUnwindSafe(|| dispatch(&fields)));
        match r {
            Ok(Some(s)) => writeln!(out, "{}", s).unwrap(),
            Ok(None) => writeln!(out, "BADCASE").unwrap(),
            Err(_) => writeln!(out, "PANIC").unwrap(),
        }
    }
    out.flush().unwrap();
}
