// sjh_vacc — implementation side of the correspondence check of the `Value` accessors (is_* / as_*), run on the real serde_json
// (path dependency on /repo).  Protocol: see /verif/coq/theories/Extract/Driver_vacc.v — same input lines, same output format:
//   acc <value>   ->  is_object=.. as_object=.. as_object_mut=.. is_array=.. as_array=.. as_array_mut=.. is_string=.. as_str=.. is_number=..
//                     as_number=.. is_i64=.. is_u64=.. is_f64=.. as_i64=.. as_u64=.. as_f64=.. is_boolean=.. as_bool=.. is_null=.. as_null=..
// The value encoding is the one of sjh_ptr.rs (its parser is private to that binary, so the same ~100 lines are repeated here);
// the printers are the shared ones of canon.rs.
#![allow(clippy::all)]
#![allow(dead_code)]

#[path = "../canon.rs"]
mod canon;

use canon::{show_number, show_value, unhex};
use serde_json::{Map, Number, Value};
use std::io::{BufRead, Write};
use std::panic::{catch_unwind, AssertUnwindSafe};

// ---- canonical value text -> Value (as in sjh_ptr.rs) ------------------------------------------------------
struct P<'a> {
    b: &'a [u8],
    i: usize,
}

impl<'a> P<'a> {
    fn peek(&self) -> Option<u8> {
        self.b.get(self.i).copied()
    }
    fn eat(&mut self, c: u8) -> Option<()> {
        if self.peek() == Some(c) {
            self.i += 1;
            Some(())
        } else {
            None
        }
    }
    fn run(&mut self, f: impl Fn(u8) -> bool) -> &'a [u8] {
        let s = self.i;
        while self.i < self.b.len() && f(self.b[self.i]) {
            self.i += 1;
        }
        &self.b[s..self.i]
    }
    fn hexfield(&mut self) -> Option<Vec<u8>> {
        if self.peek() == Some(b'-') {
            self.i += 1;
            return Some(vec![]);
        }
        let h = self.run(|c| c.is_ascii_digit() || (b'a'..=b'f').contains(&c));
        if h.is_empty() {
            return None;
        }
        unhex(std::str::from_utf8(h).ok()?)
    }
    fn value(&mut self) -> Option<Value> {
        let c = self.peek()?;
        self.i += 1;
        match c {
            b'n' => Some(Value::Null),
            b't' => Some(Value::Bool(true)),
            b'f' => Some(Value::Bool(false)),
            b'u' => {
                let d = self.run(|c| c.is_ascii_digit());
                let n: u64 = std::str::from_utf8(d).ok()?.parse().ok()?;
                Some(Value::Number(Number::from(n)))
            }
            b'i' => {
                self.eat(b'-')?;
                let d = self.run(|c| c.is_ascii_digit());
                let n: i64 = format!("-{}", std::str::from_utf8(d).ok()?).parse().ok()?;
                Some(Value::Number(Number::from(n)))
            }
            b'd' => {
                if self.i + 16 > self.b.len() {
                    return None;
                }
                let h = std::str::from_utf8(&self.b[self.i..self.i + 16]).ok()?;
                self.i += 16;
                let bits = u64::from_str_radix(h, 16).ok()?;
                Some(Value::Number(Number::from_f64(f64::from_bits(bits))?))
            }
            b's' => {
                let b = self.hexfield()?;
                Some(Value::String(String::from_utf8(b).ok()?))
            }
            b'a' => {
                self.eat(b'(')?;
                let mut v = vec![];
                if self.eat(b')').is_some() {
                    return Some(Value::Array(v));
                }
                loop {
                    v.push(self.value()?);
                    if self.eat(b',').is_some() {
                        continue;
                    }
                    self.eat(b')')?;
                    return Some(Value::Array(v));
                }
            }
            b'o' => {
                self.eat(b'(')?;
                let mut m = Map::new();
                if self.eat(b')').is_some() {
                    return Some(Value::Object(m));
                }
                loop {
                    let k = String::from_utf8(self.hexfield()?).ok()?;
                    self.eat(b':')?;
                    let x = self.value()?;
                    m.insert(k, x);
                    if self.eat(b',').is_some() {
                        continue;
                    }
                    self.eat(b')')?;
                    return Some(Value::Object(m));
                }
            }
            _ => None,
        }
    }
}

fn parse_value(s: &str) -> Option<Value> {
    let mut p = P { b: s.as_bytes(), i: 0 };
    let v = p.value()?;
    if p.i == s.len() {
        Some(v)
    } else {
        None
    }
}

fn tf(b: bool) -> String {
    if b { "t".into() } else { "f".into() }
}

fn opt(o: Option<String>) -> String {
    o.unwrap_or_else(|| "none".into())
}

fn acc(mut v: Value) -> String {
    let mut f: Vec<String> = Vec::new();
    f.push(format!("is_object={}", tf(v.is_object())));
    f.push(format!("as_object={}", opt(v.as_object().map(|m| show_value(&Value::Object(m.clone()))))));
    f.push(format!("as_object_mut={}", opt(v.as_object_mut().map(|m| show_value(&Value::Object(m.clone()))))));
    f.push(format!("is_array={}", tf(v.is_array())));
    f.push(format!("as_array={}", opt(v.as_array().map(|l| show_value(&Value::Array(l.clone()))))));
    f.push(format!("as_array_mut={}", opt(v.as_array_mut().map(|l| show_value(&Value::Array(l.clone()))))));
    f.push(format!("is_string={}", tf(v.is_string())));
    f.push(format!("as_str={}", opt(v.as_str().map(|s| show_value(&Value::String(s.to_owned()))))));
    f.push(format!("is_number={}", tf(v.is_number())));
    f.push(format!("as_number={}", opt(v.as_number().map(show_number))));
    f.push(format!("is_i64={}", tf(v.is_i64())));
    f.push(format!("is_u64={}", tf(v.is_u64())));
    f.push(format!("is_f64={}", tf(v.is_f64())));
    f.push(format!("as_i64={}", opt(v.as_i64().map(|x| x.to_string()))));
    f.push(format!("as_u64={}", opt(v.as_u64().map(|x| x.to_string()))));
    f.push(format!("as_f64={}", opt(v.as_f64().map(|x| format!("{:016x}", x.to_bits())))));
    f.push(format!("is_boolean={}", tf(v.is_boolean())));
    f.push(format!("as_bool={}", opt(v.as_bool().map(tf))));
    f.push(format!("is_null={}", tf(v.is_null())));
    f.push(format!("as_null={}", opt(v.as_null().map(|()| "unit".to_string()))));
    f.join(" ")
}

fn dispatch(f: &[&str]) -> String {
    match (f.first().copied(), f.len()) {
        (Some("acc"), 2) => match parse_value(f[1]) {
            Some(v) => acc(v),
            None => "BADCASE".into(),
        },
        _ => "BADCASE".into(),
    }
}

fn main() {
    let args: Vec<String> = std::env::args().collect();
    std::panic::set_hook(Box::new(|_| {}));
    let stdin = std::io::stdin();
    let input: Box<dyn BufRead> = if args.len() > 1 {
        Box::new(std::io::BufReader::new(std::fs::File::open(&args[1]).expect("case file")))
    } else {
        Box::new(stdin.lock())
    };
    let stdout = std::io::stdout();
    let mut out = std::io::BufWriter::new(stdout.lock());
    for line in input.lines() {
        let line = line.expect("read line");
        let fields: Vec<&str> = line.split(' ').filter(|s| !s.is_empty()).collect();
        let r = catch_unwind(AssertUnwindSafe(|| dispatch(&fields)));
        match r {
            Ok(s) => writeln!(out, "{}", s).unwrap(),
            Err(_) => writeln!(out, "PANIC").unwrap(),
        }
    }
    out.flush().unwrap();
}
