// sjh_str5 — implementation side of the C05 (string escaping) check, run on the real serde_json
// (path dependency on /repo).  Protocol (model side: /verif/coq/theories/Extract/Driver_str5.v):
//   es <hex utf8>  -> ok <hex of serde_json::to_string(&str)> <hex buffer>,<hex buffer>,...
//                     (the buffers are what to_writer hands to Write::write, recorded by rw::ChunkWriter;
//                      suffixes DIFF-<what> are appended when another serialisation route of the same
//                      string — pretty formatter, Value::String, object key, to_vec — writes other bytes)
//   rt <hex utf8>  -> ok <b|c>      serialise, then parse the literal back from &str, &[u8] and a reader
//                                   (String target) and as a borrowed &str; b = the &str target succeeded
//                     MISMATCH ...  when any route does not give back the input
#![allow(clippy::all)]
#![allow(dead_code)]

#[path = "../canon.rs"]
mod canon;
#[path = "../rw.rs"]
mod rw;

use canon::{hex, unhex};
use std::io::{BufRead, Write};
use std::panic::{catch_unwind, AssertUnwindSafe};

fn op_es(s: &str) -> String {
    let main = match serde_json::to_string(s) {
        Ok(t) => t,
        Err(e) => return format!("err {}", e),
    };
    let mut w = rw::ChunkWriter::new(0);
    if let Err(e) = serde_json::to_writer(&mut w, s) {
        return format!("err {}", e);
    }
    let bufs: Vec<String> = w.buffers.iter().map(|b| hex(b)).collect();
    let mut out = format!("ok {} {}", hex(main.as_bytes()), bufs.join(","));
    if w.accepted != main.as_bytes() {
        out.push_str(" DIFF-writer");
    }
    match serde_json::to_vec(s) {
        Ok(v) if v == main.as_bytes() => {}
        _ => out.push_str(" DIFF-to_vec"),
    }
    match serde_json::to_string_pretty(s) {
        Ok(p) if p == main => {}
        _ => out.push_str(" DIFF-pretty"),
    }
    let v = serde_json::Value::String(s.to_owned());
    match serde_json::to_string(&v) {
        Ok(p) if p == main => {}
        _ => out.push_str(" DIFF-value"),
    }
    if v.to_string() != main {
        out.push_str(" DIFF-display");
    }
    let mut m = serde_json::Map::new();
    m.insert(s.to_owned(), serde_json::Value::Null);
    match serde_json::to_string(&serde_json::Value::Object(m)) {
        Ok(p) if p == format!("{{{}:null}}", main) => {}
        _ => out.push_str(" DIFF-key"),
    }
    // a one-character string also as a `char` value and as a `char` map key (MapKeySerializer::serialize_char), text and to_value routes
    let mut cs = s.chars();
    if let (Some(c), None) = (cs.next(), cs.next()) {
        match serde_json::to_string(&c) {
            Ok(p) if p == main => {}
            _ => out.push_str(" DIFF-char"),
        }
        let mut cm = std::collections::BTreeMap::new();
        cm.insert(c, ());
        match serde_json::to_string(&cm) {
            Ok(p) if p == format!("{{{}:null}}", main) => {}
            _ => out.push_str(" DIFF-char-key"),
        }
        match serde_json::to_string_pretty(&cm) {
            Ok(p) if p == format!("{{\n  {}: null\n}}", main) => {}
            _ => out.push_str(" DIFF-char-key-pretty"),
        }
        match serde_json::to_value(&cm) {
            Ok(serde_json::Value::Object(o)) if o.len() == 1 && o.keys().next().map(|k| k.as_str()) == Some(s) => {}
            _ => out.push_str(" DIFF-char-key-value"),
        }
    }
    out
}

fn op_rt(s: &str) -> String {
    let lit = match serde_json::to_string(s) {
        Ok(t) => t,
        Err(e) => return format!("err {}", e),
    };
    let mut bad = vec![];
    match serde_json::from_str::<String>(&lit) {
        Ok(t) if t == s => {}
        Ok(t) => bad.push(format!("from_str:{}", hex(t.as_bytes()))),
        Err(e) => bad.push(format!("from_str:{}", e)),
    }
    match serde_json::from_slice::<String>(lit.as_bytes()) {
        Ok(t) if t == s => {}
        Ok(t) => bad.push(format!("from_slice:{}", hex(t.as_bytes()))),
        Err(e) => bad.push(format!("from_slice:{}", e)),
    }
    for spec in ["r1", "r7", "rx3"] {
        match serde_json::from_reader::<_, String>(rw::ChunkReader::from_spec(lit.as_bytes(), spec)) {
            Ok(t) if t == s => {}
            Ok(t) => bad.push(format!("from_reader-{}:{}", spec, hex(t.as_bytes()))),
            Err(e) => bad.push(format!("from_reader-{}:{}", spec, e)),
        }
    }
    match serde_json::from_slice::<serde_json::Value>(lit.as_bytes()) {
        Ok(serde_json::Value::String(t)) if t == s => {}
        Ok(t) => bad.push(format!("value:{}", t)),
        Err(e) => bad.push(format!("value:{}", e)),
    }
    // borrowed target: succeeds exactly when nothing had to be unescaped; then it is the input text
    let borrowed = match serde_json::from_str::<&str>(&lit) {
        Ok(t) => {
            if t != s {
                bad.push(format!("borrowed:{}", hex(t.as_bytes())));
            }
            let (p, b) = (t.as_ptr() as usize, lit.as_ptr() as usize);
            if !(p >= b && p + t.len() <= b + lit.len()) {
                bad.push("borrowed-not-subslice".into());
            }
            true
        }
        Err(_) => false,
    };
    if bad.is_empty() {
        format!("ok {}", if borrowed { "b" } else { "c" })
    } else {
        format!("MISMATCH {} lit={}", bad.join(" ").replace('\n', " "), hex(lit.as_bytes()))
    }
}

fn dispatch(f: &[&str]) -> String {
    if f.len() != 2 {
        return "BADCASE".into();
    }
    let data = match unhex(f[1]) {
        Some(d) => d,
        None => return "BADCASE".into(),
    };
    let s = match std::str::from_utf8(&data) {
        Ok(s) => s,
        Err(_) => return "SKIP".into(),
    };
    match f[0] {
        "es" => op_es(s),
        "rt" => op_rt(s),
        _ => "BADCASE".into(),
    }
}

fn main() {
    let args: Vec<String> = std::env::args().collect();
    std::panic::set_hook(Box::new(|_| {}));
    let stdin = std::io::stdin();
    let input: Box<dyn BufRead> = if args.len() > 1 {
        Box::new(std::io::BufReader::new(std::fs::File::open(&args[1]).expect("case file")))
    } else {
        Box::new(stdin.lock())
    };
    let stdout = std::io::stdout();
    let mut out = std::io::BufWriter::new(stdout.lock());
    for line in input.lines() {
        let line = line.expect("read line");
        let fields: Vec<&str> = line.split(' ').filter(|s| !s.is_empty()).collect();
        let r = catch_unwind(AssertUnwindSafe(|| dispatch(&fields)));
        match r {
            Ok(s) => writeln!(out, "{}", s).unwrap(),
            Err(_) => writeln!(out, "PANIC").unwrap(),
        }
    }
    out.flush().unwrap();
}
