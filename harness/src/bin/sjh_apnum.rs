// sjh_apnum — implementation side of the C20 check (arbitrary_precision numbers) and the f32 op of the C08 check.
// Protocol: see /verif/coq/theories/Extract/Driver_apnum.v (ops nf, na, rs have a model side); the other ops are
// compared directly (against the literal, or against the same op run on a build without the feature).
//
//   nf <hex>         Number::from_str                  -> ok <as_str> <u64|-> <i64|-> <u128|-> <i128|-> <f64 bits|-> <is_u64><is_i64><is_f64>
//                                                          | err <code> <cat> <line> <col>
//   na <hex>         accessors of Number::from_string_unchecked(s) (any string; arbitrary_precision builds only), same ok line
//   nd <hex>         Number::from_str then: Display, Debug, serde_json::to_string, to_vec_pretty, to_value -> show, from_value::<Number>,
//                    from_str::<Number>(doc), Value::Number -> to_string   (all as hex; direct comparison with the literal)
//   rs <hex doc>     from_slice::<Value> then serde_json::to_string       -> ok <hex> | err ...
//   tn <type> <hex>  from_slice::<T> for T in i8..i128 u8..u128 f32 f64    -> ok <value> | err <code> <cat> <line> <col> <hex message>
//   tv <type> <hex>  from_slice::<Value> then from_value::<T>              -> ok <value> | err | perr
//   f32 <hex>        from_slice::<f32>                                     -> ok d<bits of (x as f64)> | err ...
#![allow(clippy::all)]
#![allow(dead_code)]

#[path = "../canon.rs"]
mod canon;
#[path = "../rw.rs"]
mod rw;

use canon::{hex, show_err, show_value, unhex};
use serde_json::{Number, Value};
use std::io::{BufRead, Write};
use std::panic::{catch_unwind, AssertUnwindSafe};
use std::str::FromStr;

fn opt<T: std::fmt::Display>(o: Option<T>) -> String {
    match o {
        Some(v) => format!("{}", v),
        None => "-".into(),
    }
}

fn number_text(n: &Number) -> String {
    #[cfg(feature = "arbitrary_precision")]
    {
        n.as_str().to_owned()
    }
    #[cfg(not(feature = "arbitrary_precision"))]
    {
        n.to_string()
    }
}

fn accessors(n: &Number) -> String {
    let b = |x: bool| if x { '1' } else { '0' };
    format!(
        "ok {} {} {} {} {} {} {}{}{}",
        hex(number_text(n).as_bytes()),
        opt(n.as_u64()),
        opt(n.as_i64()),
        opt(n.as_u128()),
        opt(n.as_i128()),
        match n.as_f64() {
            Some(f) => format!("{:016x}", f.to_bits()),
            None => "-".into(),
        },
        b(n.is_u64()),
        b(n.is_i64()),
        b(n.is_f64())
    )
}

fn show_err_msg(e: &serde_json::Error) -> String {
    format!("{} {}", show_err(e), hex(e.to_string().as_bytes()))
}

fn typed<T: serde::de::DeserializeOwned>(data: &[u8], show: impl Fn(&T) -> String) -> String {
    match serde_json::from_slice::<T>(data) {
        Ok(v) => format!("ok {}", show(&v)),
        Err(e) => show_err_msg(&e),
    }
}

fn typed_value<T: serde::de::DeserializeOwned>(data: &[u8], show: impl Fn(&T) -> String) -> String {
    match serde_json::from_slice::<Value>(data) {
        Ok(v) => match serde_json::from_value::<T>(v) {
            Ok(x) => format!("ok {}", show(&x)),
            Err(_) => "err".into(),
        },
        Err(_) => "perr".into(),
    }
}

macro_rules! by_type {
    ($f:ident, $ty:expr, $data:expr) => {
        match $ty {
            "i8" => $f::<i8>($data, |v| v.to_string()),
            "i16" => $f::<i16>($data, |v| v.to_string()),
            "i32" => $f::<i32>($data, |v| v.to_string()),
            "i64" => $f::<i64>($data, |v| v.to_string()),
            "i128" => $f::<i128>($data, |v| v.to_string()),
            "u8" => $f::<u8>($data, |v| v.to_string()),
            "u16" => $f::<u16>($data, |v| v.to_string()),
            "u32" => $f::<u32>($data, |v| v.to_string()),
            "u64" => $f::<u64>($data, |v| v.to_string()),
            "u128" => $f::<u128>($data, |v| v.to_string()),
            "f32" => $f::<f32>($data, |v| format!("{:08x}", v.to_bits())),
            "f64" => $f::<f64>($data, |v| format!("{:016x}", v.to_bits())),
            _ => "BADCASE".into(),
        }
    };
}

fn dispatch(f: &[&str]) -> String {
    if f.len() < 2 {
        return "BADCASE".into();
    }
    let data = match unhex(f[f.len() - 1]) {
        Some(d) => d,
        None => return "BADCASE".into(),
    };
    match f[0] {
        "nf" if f.len() == 2 => {
            let s = match std::str::from_utf8(&data) {
                Ok(s) => s,
                Err(_) => return "BADCASE".into(),
            };
            match Number::from_str(s) {
                Ok(n) => accessors(&n),
                Err(e) => show_err(&e),
            }
        }
        "na" if f.len() == 2 => {
            #[cfg(feature = "arbitrary_precision")]
            {
                let s = match String::from_utf8(data) {
                    Ok(s) => s,
                    Err(_) => return "BADCASE".into(),
                };
                accessors(&Number::from_string_unchecked(s))
            }
            #[cfg(not(feature = "arbitrary_precision"))]
            {
                "SKIP".into()
            }
        }
        "nd" if f.len() == 2 => {
            let s = match std::str::from_utf8(&data) {
                Ok(s) => s,
                Err(_) => return "BADCASE".into(),
            };
            match Number::from_str(s) {
                Ok(n) => {
                    let display = format!("{}", n);
                    let debug = format!("{:?}", n);
                    let ts = serde_json::to_string(&n).map_err(|e| e.to_string());
                    let tp = serde_json::to_vec_pretty(&n).map_err(|e| e.to_string());
                    let tv = serde_json::to_value(&n);
                    let tvs = match &tv {
                        Ok(v) => show_value(v),
                        Err(e) => format!("E{}", hex(e.to_string().as_bytes())),
                    };
                    let back = match tv {
                        Ok(v) => match serde_json::from_value::<Number>(v) {
                            Ok(m) => hex(number_text(&m).as_bytes()),
                            Err(e) => format!("E{}", hex(e.to_string().as_bytes())),
                        },
                        Err(_) => "E".into(),
                    };
                    let fs = match serde_json::from_str::<Number>(s) {
                        Ok(m) => hex(number_text(&m).as_bytes()),
                        Err(e) => format!("E{}", hex(e.to_string().as_bytes())),
                    };
                    let vs = Value::Number(n.clone()).to_string();
                    let h = |r: Result<Vec<u8>, String>| match r {
                        Ok(b) => hex(&b),
                        Err(e) => format!("E{}", hex(e.as_bytes())),
                    };
                    format!(
                        "ok {} {} {} {} {} {} {} {}",
                        hex(display.as_bytes()),
                        hex(debug.as_bytes()),
                        h(ts.map(|x| x.into_bytes())),
                        h(tp),
                        tvs,
                        back,
                        fs,
                        hex(vs.as_bytes())
                    )
                }
                Err(e) => show_err(&e),
            }
        }
        "rs" if f.len() == 2 => match serde_json::from_slice::<Value>(&data) {
            Ok(v) => match serde_json::to_string(&v) {
                Ok(s) => format!("ok {}", hex(s.as_bytes())),
                Err(e) => format!("sererr {}", hex(e.to_string().as_bytes())),
            },
            Err(e) => show_err(&e),
        },
        "tn" if f.len() == 3 => by_type!(typed, f[1], &data),
        "tv" if f.len() == 3 => by_type!(typed_value, f[1], &data),
        "f32" if f.len() == 2 => match serde_json::from_slice::<f32>(&data) {
            Ok(x) => format!("ok d{:016x}", (x as f64).to_bits()),
            Err(e) => show_err(&e),
        },
        _ => "BADCASE".into(),
    }
}

fn main() {
    let args: Vec<String> = std::env::args().collect();
    std::panic::set_hook(Box::new(|_| {}));
    let stdin = std::io::stdin();
    let input: Box<dyn BufRead> = if args.len() > 1 {
        Box::new(std::io::BufReader::new(std::fs::File::open(&args[1]).expect("case file")))
    } else {
        Box::new(stdin.lock())
    };
    let stdout = std::io::stdout();
    let mut out = std::io::BufWriter::new(stdout.lock());
    for line in input.lines() {
        let line = line.expect("read line");
        let fields: Vec<&str> = line.split(' ').filter(|s| !s.is_empty()).collect();
        let r = catch_unwind(AssertUnwindSafe(|| dispatch(&fields)));
        match r {
            Ok(s) => writeln!(out, "{}", s).unwrap(),
            Err(_) => writeln!(out, "PANIC").unwrap(),
        }
    }
    out.flush().unwrap();
}
