// sjh_rawde — implementation side of the `impl Deserializer for &RawValue` / `IntoDeserializer for &RawValue` /
// `value::to_raw_value` correspondence (model Model/RawDe.v, driver Extract/Driver_rawde.v).  Only under feature raw_value.
//   rd <cfg> <ty> <hex text>     let raw: Box<RawValue> = from_str(text) (else `capture-failed`); T::deserialize(&*raw) through the
//                                universal seed of sjh_typed.rs -> ok <dval> | err <code> <cat> <line> <col> <cls>
//                                suffix ` DIFF-from_str`          when the result differs from from_str::<T>(raw.get())
//                                suffix ` DIFF-into_deserializer` when T::deserialize(raw.into_deserializer()) differs
//   rs <cfg> <ty> <hex text>     from_str::<T>(raw.get()) on the captured text (the comparison point, same answer format)
//   rtr <cfg> [<ftab>] <sval>    serde_json::value::to_raw_value(&x) -> ok <hex of raw.get()> | err <code name>
//                                suffix ` DIFF-reparse` when RawValue::from_string(raw.get()) does not give the same text back
// <ty>, <dval>: Extract/Driver_typed.v; <sval>, <ftab>: Extract/Driver_ser.v.
// The universe / <ty> parser / <dval> printer / universal seed below are copied verbatim from sjh_typed.rs (lines 22-776),
// the call tree `Sv` with its Serialize impl and parser from sjh_ser.rs (module `svm`).
#![allow(clippy::all)]
#![allow(dead_code)]
#![allow(unused_imports)]

#[path = "../canon.rs"]
mod canon;
#[path = "../rw.rs"]
mod rw;

use canon::{cat_name, code_name, hex, kind_id, msg_class, show_value, unhex};
use rw::{ChunkReader, ChunkWriter};
use serde::de::{self, DeserializeSeed, Deserializer, EnumAccess, IgnoredAny, MapAccess, SeqAccess, Unexpected, VariantAccess, Visitor};
use serde::ser::{self, Serialize, SerializeMap, SerializeSeq, SerializeStruct, SerializeStructVariant, SerializeTuple, SerializeTupleStruct, SerializeTupleVariant, Serializer};
use serde::Deserialize;
use serde_json::de::Read as JRead;
use serde_json::{Map, Number, Value};
use std::collections::{BTreeMap, HashMap};
use std::fmt;
use std::io::{BufRead, Write};
use std::panic::{catch_unwind, AssertUnwindSafe};
use std::sync::Mutex;

// ------------------------------------------------------------------------------------------------ universe
#[derive(Clone, Copy, PartialEq, Debug)]
enum IntTy { I8, I16, I32, I64, I128, U8, U16, U32, U64, U128 }

impl IntTy {
    fn min(self) -> i128 {
        match self {
            IntTy::I8 => i8::MIN as i128, IntTy::I16 => i16::MIN as i128, IntTy::I32 => i32::MIN as i128,
            IntTy::I64 => i64::MIN as i128, IntTy::I128 => i128::MIN, _ => 0,
        }
    }
    // max as u128 (all maxima are non-negative)
    fn max(self) -> u128 {
        match self {
            IntTy::I8 => i8::MAX as u128, IntTy::I16 => i16::MAX as u128, IntTy::I32 => i32::MAX as u128,
            IntTy::I64 => i64::MAX as u128, IntTy::I128 => i128::MAX as u128, IntTy::U8 => u8::MAX as u128,
            IntTy::U16 => u16::MAX as u128, IntTy::U32 => u32::MAX as u128, IntTy::U64 => u64::MAX as u128,
            IntTy::U128 => u128::MAX,
        }
    }
    fn holds_i(self, v: i128) -> bool { if v < 0 { v >= self.min() } else { (v as u128) <= self.max() } }
    fn holds_u(self, v: u128) -> bool { v <= self.max() }
}

enum KTy { Str, Int(IntTy), Bool, Char, F32, F64, Option(Box<KTy>), Newtype(Box<KTy>), UnitEnum(&'static [&'static str]) }

struct Fields { names: &'static [&'static str], tys: Vec<Ty> }

enum Variant { Unit, Newtype(Ty), Tuple(Vec<Ty>), Struct(Fields) }

enum Ty {
    Value, Ignored, Raw, Bool, Int(IntTy), F32, F64, Char, Str, BorrowedStr, Bytes, Unit, UnitStruct,
    Option(Box<Ty>), Newtype(Box<Ty>), Seq(Box<Ty>), Tuple(Vec<Ty>), TupleStruct(Vec<Ty>), Map(KTy, Box<Ty>),
    Struct(Fields), Enum(&'static [&'static str], Vec<Variant>),
}

#[derive(Clone, PartialEq, Debug)]
enum DVal {
    Value(String), Ignored, Raw(Vec<u8>), Bool(bool), IntI(i128), IntU(u128), Float(u64), Char(u32),
    Str(Vec<u8>, bool), Bytes(Vec<u8>), Unit, None, Some(Box<DVal>), Newtype(Box<DVal>), Seq(Vec<DVal>),
    Map(Vec<(DVal, DVal)>), Struct(Vec<DVal>), Variant(Vec<u8>, Box<DVal>),
}

fn intern(s: String) -> &'static str {
    static TABLE: Mutex<Option<HashMap<String, &'static str>>> = Mutex::new(None);
    let mut g = TABLE.lock().unwrap();
    let t = g.get_or_insert_with(HashMap::new);
    if let Some(x) = t.get(&s) {
        return x;
    }
    let l: &'static str = Box::leak(s.clone().into_boxed_str());
    t.insert(s, l);
    l
}

// ------------------------------------------------------------------------------------------------ <ty> parser
struct P<'a> { b: &'a [u8], i: usize }

impl<'a> P<'a> {
    fn peek(&self) -> Option<u8> { self.b.get(self.i).copied() }
    fn eat(&mut self, c: u8) -> Option<()> { if self.peek() == Some(c) { self.i += 1; Some(()) } else { None } }
    fn run(&mut self, f: impl Fn(u8) -> bool) -> &'a [u8] {
        let s = self.i;
        while self.i < self.b.len() && f(self.b[self.i]) { self.i += 1; }
        &self.b[s..self.i]
    }
    fn hexfield(&mut self) -> Option<Vec<u8>> {
        let h = self.run(|c| c.is_ascii_digit() || (b'a'..=b'f').contains(&c) || c == b'-');
        if h.is_empty() { return None; }
        unhex(std::str::from_utf8(h).ok()?)
    }
    fn name(&mut self) -> Option<&'static str> { Some(intern(String::from_utf8(self.hexfield()?).ok()?)) }
    fn intty(&mut self, signed: bool) -> Option<IntTy> {
        let d = self.peek()?;
        self.i += 1;
        Some(match (signed, d) {
            (true, b'0') => IntTy::I8, (true, b'1') => IntTy::I16, (true, b'2') => IntTy::I32, (true, b'3') => IntTy::I64, (true, b'4') => IntTy::I128,
            (false, b'0') => IntTy::U8, (false, b'1') => IntTy::U16, (false, b'2') => IntTy::U32, (false, b'3') => IntTy::U64, (false, b'4') => IntTy::U128,
            _ => return None,
        })
    }
    fn kty(&mut self) -> Option<KTy> {
        let c = self.peek()?;
        self.i += 1;
        Some(match c {
            b's' => KTy::Str,
            b'i' => KTy::Int(self.intty(true)?),
            b'n' => KTy::Int(self.intty(false)?),
            b'b' => KTy::Bool,
            b'c' => KTy::Char,
            b'f' => KTy::F32,
            b'd' => KTy::F64,
            b'o' => KTy::Option(Box::new(self.kty()?)),
            b'w' => KTy::Newtype(Box::new(self.kty()?)),
            b'e' => {
                self.eat(b'(')?;
                let mut names = vec![];
                loop {
                    if self.eat(b')').is_some() { break; }
                    if self.eat(b',').is_some() { continue; }
                    names.push(self.name()?);
                }
                KTy::UnitEnum(Box::leak(names.into_boxed_slice()))
            }
            _ => return None,
        })
    }
    fn tys(&mut self) -> Option<Vec<Ty>> {
        let mut v = vec![];
        loop {
            if self.eat(b')').is_some() { return Some(v); }
            if self.eat(b',').is_some() { continue; }
            v.push(self.ty()?);
        }
    }
    fn fields(&mut self) -> Option<Fields> {
        let mut names = vec![];
        let mut tys = vec![];
        loop {
            if self.eat(b')').is_some() { break; }
            if self.eat(b',').is_some() { continue; }
            names.push(self.name()?);
            self.eat(b':')?;
            tys.push(self.ty()?);
        }
        Some(Fields { names: Box::leak(names.into_boxed_slice()), tys })
    }
    fn ty(&mut self) -> Option<Ty> {
        let c = self.peek()?;
        self.i += 1;
        Some(match c {
            b'v' => Ty::Value, b'g' => Ty::Ignored, b'r' => Ty::Raw, b'b' => Ty::Bool,
            b'i' => Ty::Int(self.intty(true)?),
            b'n' => Ty::Int(self.intty(false)?),
            b'f' => Ty::F32, b'd' => Ty::F64, b'c' => Ty::Char, b's' => Ty::Str, b'z' => Ty::BorrowedStr,
            b'y' => Ty::Bytes, b'u' => Ty::Unit, b'U' => Ty::UnitStruct,
            b'o' => Ty::Option(Box::new(self.ty()?)),
            b'w' => Ty::Newtype(Box::new(self.ty()?)),
            b'a' => Ty::Seq(Box::new(self.ty()?)),
            b't' => { self.eat(b'(')?; Ty::Tuple(self.tys()?) }
            b'T' => { self.eat(b'(')?; Ty::TupleStruct(self.tys()?) }
            b'm' => { let k = self.kty()?; Ty::Map(k, Box::new(self.ty()?)) }
            b'S' => { self.eat(b'(')?; Ty::Struct(self.fields()?) }
            b'E' => {
                self.eat(b'(')?;
                let mut names = vec![];
                let mut vs = vec![];
                loop {
                    if self.eat(b')').is_some() { break; }
                    if self.eat(b',').is_some() { continue; }
                    names.push(self.name()?);
                    self.eat(b':')?;
                    let k = self.peek()?;
                    self.i += 1;
                    vs.push(match k {
                        b'u' => Variant::Unit,
                        b'w' => Variant::Newtype(self.ty()?),
                        b't' => { self.eat(b'(')?; Variant::Tuple(self.tys()?) }
                        b'S' => { self.eat(b'(')?; Variant::Struct(self.fields()?) }
                        _ => return None,
                    });
                }
                Ty::Enum(Box::leak(names.into_boxed_slice()), vs)
            }
            _ => return None,
        })
    }

    // ---- canonical Value text (as printed by canon::show_value)
    fn value(&mut self) -> Option<Value> {
        let c = self.peek()?;
        self.i += 1;
        match c {
            b'n' => Some(Value::Null),
            b't' => Some(Value::Bool(true)),
            b'f' => Some(Value::Bool(false)),
            b'u' => {
                let d = self.run(|c| c.is_ascii_digit());
                Some(Value::Number(Number::from(std::str::from_utf8(d).ok()?.parse::<u64>().ok()?)))
            }
            b'i' => {
                self.eat(b'-')?;
                let d = self.run(|c| c.is_ascii_digit());
                Some(Value::Number(Number::from(format!("-{}", std::str::from_utf8(d).ok()?).parse::<i64>().ok()?)))
            }
            b'd' => {
                if self.i + 16 > self.b.len() { return None; }
                let h = std::str::from_utf8(&self.b[self.i..self.i + 16]).ok()?;
                self.i += 16;
                Some(Value::Number(Number::from_f64(f64::from_bits(u64::from_str_radix(h, 16).ok()?))?))
            }
            b'l' => {
                let lit = String::from_utf8(self.hexfield()?).ok()?;
                serde_json::from_str::<Value>(&lit).ok()
            }
            b's' => Some(Value::String(String::from_utf8(self.hexfield()?).ok()?)),
            b'a' => {
                self.eat(b'(')?;
                let mut v = vec![];
                if self.eat(b')').is_some() { return Some(Value::Array(v)); }
                loop {
                    v.push(self.value()?);
                    if self.eat(b',').is_some() { continue; }
                    self.eat(b')')?;
                    return Some(Value::Array(v));
                }
            }
            b'o' => {
                self.eat(b'(')?;
                let mut m = Map::new();
                if self.eat(b')').is_some() { return Some(Value::Object(m)); }
                loop {
                    let k = String::from_utf8(self.hexfield()?).ok()?;
                    self.eat(b':')?;
                    let x = self.value()?;
                    m.insert(k, x);
                    if self.eat(b',').is_some() { continue; }
                    self.eat(b')')?;
                    return Some(Value::Object(m));
                }
            }
            _ => None,
        }
    }

    // ---- <dval>
    fn dlist(&mut self) -> Option<Vec<DVal>> {
        self.eat(b'(')?;
        let mut v = vec![];
        if self.eat(b')').is_some() { return Some(v); }
        loop {
            v.push(self.dval()?);
            if self.eat(b',').is_some() { continue; }
            self.eat(b')')?;
            return Some(v);
        }
    }
    fn dval(&mut self) -> Option<DVal> {
        let c = self.peek()?;
        self.i += 1;
        Some(match c {
            b'v' => { let s = self.i; let v = self.value()?; let _ = v; DVal::Value(String::from_utf8(self.b[s..self.i].to_vec()).ok()?) }
            b'g' => DVal::Ignored,
            b'r' => DVal::Raw(self.hexfield()?),
            b'T' => DVal::Bool(true),
            b'F' => DVal::Bool(false),
            b'i' => {
                let neg = self.eat(b'-').is_some();
                let d = std::str::from_utf8(self.run(|c| c.is_ascii_digit())).ok()?;
                if neg { DVal::IntI(format!("-{}", d).parse::<i128>().ok()?) } else { norm_u(d.parse::<u128>().ok()?) }
            }
            b'd' => {
                if self.i + 16 > self.b.len() { return None; }
                let h = std::str::from_utf8(&self.b[self.i..self.i + 16]).ok()?;
                self.i += 16;
                DVal::Float(u64::from_str_radix(h, 16).ok()?)
            }
            b'c' => DVal::Char(std::str::from_utf8(self.run(|c| c.is_ascii_digit())).ok()?.parse().ok()?),
            b's' => DVal::Str(self.hexfield()?, false),
            b'z' => DVal::Str(self.hexfield()?, true),
            b'y' => DVal::Bytes(self.hexfield()?),
            b'u' => DVal::Unit,
            b'n' => DVal::None,
            b'o' => DVal::Some(Box::new(self.dval()?)),
            b'w' => DVal::Newtype(Box::new(self.dval()?)),
            b'a' => DVal::Seq(self.dlist()?),
            b'S' => DVal::Struct(self.dlist()?),
            b'm' => {
                self.eat(b'(')?;
                let mut v = vec![];
                if self.eat(b')').is_some() { return Some(DVal::Map(v)); }
                loop {
                    let k = self.dval()?;
                    self.eat(b':')?;
                    let x = self.dval()?;
                    v.push((k, x));
                    if self.eat(b',').is_some() { continue; }
                    self.eat(b')')?;
                    break;
                }
                DVal::Map(v)
            }
            b'e' => {
                let n = self.hexfield()?;
                self.eat(b':')?;
                DVal::Variant(n, Box::new(self.dval()?))
            }
            _ => return None,
        })
    }
}

// integers are one mathematical value: non-negative ones are held as IntU
fn norm_u(v: u128) -> DVal { DVal::IntU(v) }
fn norm_i(v: i128) -> DVal { if v >= 0 { DVal::IntU(v as u128) } else { DVal::IntI(v) } }

fn parse_ty(s: &str) -> Option<&'static Ty> {
    static CACHE: Mutex<Option<HashMap<String, Option<&'static Ty>>>> = Mutex::new(None);
    {
        let mut g = CACHE.lock().unwrap();
        if let Some(x) = g.get_or_insert_with(HashMap::new).get(s) {
            return *x;
        }
    }
    let mut p = P { b: s.as_bytes(), i: 0 };
    let r = match p.ty() {
        Some(t) if p.i == s.len() => { let l: &'static Ty = Box::leak(Box::new(t)); Some(l) }
        _ => None,
    };
    CACHE.lock().unwrap().as_mut().unwrap().insert(s.to_string(), r);
    r
}

fn parse_dval(s: &str) -> Option<DVal> {
    let mut p = P { b: s.as_bytes(), i: 0 };
    let d = p.dval()?;
    if p.i == s.len() { Some(d) } else { None }
}

fn parse_value_text(s: &str) -> Option<Value> {
    let mut p = P { b: s.as_bytes(), i: 0 };
    let v = p.value()?;
    if p.i == s.len() { Some(v) } else { None }
}

fn kty_has(k: &KTy, f: &dyn Fn(&KTy) -> bool) -> bool {
    f(k) || match k { KTy::Option(x) | KTy::Newtype(x) => kty_has(x, f), _ => false }
}

fn ty_has_raw(t: &Ty) -> bool {
    match t {
        Ty::Raw => true,
        Ty::Option(x) | Ty::Newtype(x) | Ty::Seq(x) => ty_has_raw(x),
        Ty::Tuple(v) | Ty::TupleStruct(v) => v.iter().any(ty_has_raw),
        Ty::Map(_, v) => ty_has_raw(v),
        Ty::Struct(f) => f.tys.iter().any(ty_has_raw),
        Ty::Enum(_, vs) => vs.iter().any(|v| match v {
            Variant::Unit => false,
            Variant::Newtype(t) => ty_has_raw(t),
            Variant::Tuple(v) => v.iter().any(ty_has_raw),
            Variant::Struct(f) => f.tys.iter().any(ty_has_raw),
        }),
        _ => false,
    }
}

// ------------------------------------------------------------------------------------------------ <dval> printer
fn show_dval(d: &DVal, s: &mut String) {
    match d {
        DVal::Value(t) => { s.push('v'); s.push_str(t); }
        DVal::Ignored => s.push('g'),
        DVal::Raw(b) => { s.push('r'); s.push_str(&hex(b)); }
        DVal::Bool(true) => s.push('T'),
        DVal::Bool(false) => s.push('F'),
        DVal::IntI(z) => { s.push('i'); s.push_str(&z.to_string()); }
        DVal::IntU(z) => { s.push('i'); s.push_str(&z.to_string()); }
        DVal::Float(b) => s.push_str(&format!("d{:016x}", b)),
        DVal::Char(c) => s.push_str(&format!("c{}", c)),
        DVal::Str(b, false) => { s.push('s'); s.push_str(&hex(b)); }
        DVal::Str(b, true) => { s.push('z'); s.push_str(&hex(b)); }
        DVal::Bytes(b) => { s.push('y'); s.push_str(&hex(b)); }
        DVal::Unit => s.push('u'),
        DVal::None => s.push('n'),
        DVal::Some(x) => { s.push('o'); show_dval(x, s); }
        DVal::Newtype(x) => { s.push('w'); show_dval(x, s); }
        DVal::Seq(l) => { s.push_str("a("); show_list(l, s); s.push(')'); }
        DVal::Struct(l) => { s.push_str("S("); show_list(l, s); s.push(')'); }
        DVal::Map(l) => {
            s.push_str("m(");
            for (i, (k, v)) in l.iter().enumerate() {
                if i > 0 { s.push(','); }
                show_dval(k, s);
                s.push(':');
                show_dval(v, s);
            }
            s.push(')');
        }
        DVal::Variant(n, p) => { s.push('e'); s.push_str(&hex(n)); s.push(':'); show_dval(p, s); }
    }
}

fn show_list(l: &[DVal], s: &mut String) {
    for (i, x) in l.iter().enumerate() {
        if i > 0 { s.push(','); }
        show_dval(x, s);
    }
}

fn dval_text(d: &DVal) -> String { let mut s = String::new(); show_dval(d, &mut s); s }

fn show_terr(e: &serde_json::Error) -> String {
    if e.is_io() {
        let k = e.io_error_kind().map(kind_id).unwrap_or(0);
        return format!("err Io io {}", k);
    }
    let cls = if e.is_data() { msg_class(e) } else { "-" };
    format!("err {} {} {} {} {}", code_name(e), cat_name(e), e.line(), e.column(), cls)
}

fn show_tres(r: Result<DVal, serde_json::Error>) -> String {
    match r {
        Ok(d) => format!("ok {}", dval_text(&d)),
        Err(e) => show_terr(&e),
    }
}

// ------------------------------------------------------------------------------------------------ the universal seed
#[derive(Clone, Copy)]
struct Seed(&'static Ty);
#[derive(Clone, Copy)]
struct KSeed(&'static KTy);

struct BoolV;
impl<'de> Visitor<'de> for BoolV {
    type Value = DVal;
    fn expecting(&self, f: &mut fmt::Formatter) -> fmt::Result { f.write_str("a boolean") }
    fn visit_bool<E: de::Error>(self, v: bool) -> Result<DVal, E> { Ok(DVal::Bool(v)) }
}

// serde's primitive integer impls: every integer visit accepted iff the value is in the target's range
struct IntV(IntTy);
impl<'de> Visitor<'de> for IntV {
    type Value = DVal;
    fn expecting(&self, f: &mut fmt::Formatter) -> fmt::Result { write!(f, "{:?}", self.0) }
    fn visit_i64<E: de::Error>(self, v: i64) -> Result<DVal, E> {
        if self.0.holds_i(v as i128) { Ok(norm_i(v as i128)) } else { Err(E::invalid_value(Unexpected::Signed(v), &self)) }
    }
    fn visit_u64<E: de::Error>(self, v: u64) -> Result<DVal, E> {
        if self.0.holds_u(v as u128) { Ok(norm_u(v as u128)) } else { Err(E::invalid_value(Unexpected::Unsigned(v), &self)) }
    }
    fn visit_i128<E: de::Error>(self, v: i128) -> Result<DVal, E> {
        if self.0.holds_i(v) { Ok(norm_i(v)) } else { Err(E::invalid_value(Unexpected::Other("i128"), &self)) }
    }
    fn visit_u128<E: de::Error>(self, v: u128) -> Result<DVal, E> {
        if self.0.holds_u(v) { Ok(norm_u(v)) } else { Err(E::invalid_value(Unexpected::Other("u128"), &self)) }
    }
}

struct F64V;
impl<'de> Visitor<'de> for F64V {
    type Value = DVal;
    fn expecting(&self, f: &mut fmt::Formatter) -> fmt::Result { f.write_str("f64") }
    fn visit_f64<E: de::Error>(self, v: f64) -> Result<DVal, E> { Ok(DVal::Float(v.to_bits())) }
    fn visit_u64<E: de::Error>(self, v: u64) -> Result<DVal, E> { Ok(DVal::Float((v as f64).to_bits())) }
    fn visit_i64<E: de::Error>(self, v: i64) -> Result<DVal, E> { Ok(DVal::Float((v as f64).to_bits())) }
}

struct F32V;
impl<'de> Visitor<'de> for F32V {
    type Value = DVal;
    fn expecting(&self, f: &mut fmt::Formatter) -> fmt::Result { f.write_str("f32") }
    fn visit_f32<E: de::Error>(self, v: f32) -> Result<DVal, E> { Ok(DVal::Float((v as f64).to_bits())) }
    fn visit_f64<E: de::Error>(self, v: f64) -> Result<DVal, E> { Ok(DVal::Float(((v as f32) as f64).to_bits())) }
    fn visit_u64<E: de::Error>(self, v: u64) -> Result<DVal, E> { Ok(DVal::Float(((v as f32) as f64).to_bits())) }
    fn visit_i64<E: de::Error>(self, v: i64) -> Result<DVal, E> { Ok(DVal::Float(((v as f32) as f64).to_bits())) }
}

struct CharV;
impl<'de> Visitor<'de> for CharV {
    type Value = DVal;
    fn expecting(&self, f: &mut fmt::Formatter) -> fmt::Result { f.write_str("a character") }
    fn visit_char<E: de::Error>(self, v: char) -> Result<DVal, E> { Ok(DVal::Char(v as u32)) }
    fn visit_str<E: de::Error>(self, v: &str) -> Result<DVal, E> {
        let mut it = v.chars();
        match (it.next(), it.next()) {
            (Some(c), None) => Ok(DVal::Char(c as u32)),
            _ => Err(E::invalid_value(Unexpected::Str(v), &self)),
        }
    }
}

struct StrV;
impl<'de> Visitor<'de> for StrV {
    type Value = DVal;
    fn expecting(&self, f: &mut fmt::Formatter) -> fmt::Result { f.write_str("a string") }
    fn visit_str<E: de::Error>(self, v: &str) -> Result<DVal, E> { Ok(DVal::Str(v.as_bytes().to_vec(), false)) }
    fn visit_string<E: de::Error>(self, v: String) -> Result<DVal, E> { Ok(DVal::Str(v.into_bytes(), false)) }
    fn visit_borrowed_str<E: de::Error>(self, v: &'de str) -> Result<DVal, E> { Ok(DVal::Str(v.as_bytes().to_vec(), true)) }
}

struct BStrV;
impl<'de> Visitor<'de> for BStrV {
    type Value = DVal;
    fn expecting(&self, f: &mut fmt::Formatter) -> fmt::Result { f.write_str("a borrowed string") }
    fn visit_borrowed_str<E: de::Error>(self, v: &'de str) -> Result<DVal, E> { Ok(DVal::Str(v.as_bytes().to_vec(), true)) }
}

struct UnitV;
impl<'de> Visitor<'de> for UnitV {
    type Value = DVal;
    fn expecting(&self, f: &mut fmt::Formatter) -> fmt::Result { f.write_str("unit") }
    fn visit_unit<E: de::Error>(self) -> Result<DVal, E> { Ok(DVal::Unit) }
}

struct OptV(&'static Ty);
impl<'de> Visitor<'de> for OptV {
    type Value = DVal;
    fn expecting(&self, f: &mut fmt::Formatter) -> fmt::Result { f.write_str("option") }
    fn visit_none<E: de::Error>(self) -> Result<DVal, E> { Ok(DVal::None) }
    fn visit_unit<E: de::Error>(self) -> Result<DVal, E> { Ok(DVal::None) }
    fn visit_some<D: Deserializer<'de>>(self, d: D) -> Result<DVal, D::Error> { Ok(DVal::Some(Box::new(Seed(self.0).deserialize(d)?))) }
}

struct NewV(&'static Ty);
impl<'de> Visitor<'de> for NewV {
    type Value = DVal;
    fn expecting(&self, f: &mut fmt::Formatter) -> fmt::Result { f.write_str("newtype struct") }
    fn visit_newtype_struct<D: Deserializer<'de>>(self, d: D) -> Result<DVal, D::Error> { Ok(DVal::Newtype(Box::new(Seed(self.0).deserialize(d)?))) }
}

struct SeqV(&'static Ty);
impl<'de> Visitor<'de> for SeqV {
    type Value = DVal;
    fn expecting(&self, f: &mut fmt::Formatter) -> fmt::Result { f.write_str("a sequence") }
    fn visit_seq<A: SeqAccess<'de>>(self, mut seq: A) -> Result<DVal, A::Error> {
        let mut v = vec![];
        while let Some(x) = seq.next_element_seed(Seed(self.0))? {
            v.push(x);
        }
        Ok(DVal::Seq(v))
    }
}

// tuple / tuple struct / tuple variant / positional struct: exactly one next_element per component
struct TupV(&'static [Ty], bool);
impl<'de> Visitor<'de> for TupV {
    type Value = DVal;
    fn expecting(&self, f: &mut fmt::Formatter) -> fmt::Result { write!(f, "a tuple of size {}", self.0.len()) }
    fn visit_seq<A: SeqAccess<'de>>(self, mut seq: A) -> Result<DVal, A::Error> {
        let mut v = vec![];
        for (i, t) in self.0.iter().enumerate() {
            match seq.next_element_seed(Seed(t))? {
                Some(x) => v.push(x),
                None => return Err(de::Error::invalid_length(i, &self)),
            }
        }
        Ok(if self.1 { DVal::Struct(v) } else { DVal::Seq(v) })
    }
}

struct MapV(&'static KTy, &'static Ty);
impl<'de> Visitor<'de> for MapV {
    type Value = DVal;
    fn expecting(&self, f: &mut fmt::Formatter) -> fmt::Result { f.write_str("a map") }
    fn visit_map<A: MapAccess<'de>>(self, mut map: A) -> Result<DVal, A::Error> {
        let mut v = vec![];
        while let Some(k) = map.next_key_seed(KSeed(self.0))? {
            let x = map.next_value_seed(Seed(self.1))?;
            v.push((k, x));
        }
        Ok(DVal::Map(v))
    }
}

// field identifier as serde_derive generates it: index of a known name, or "ignore"
struct FieldSeed(&'static [&'static str]);
impl<'de> DeserializeSeed<'de> for FieldSeed {
    type Value = Option<usize>;
    fn deserialize<D: Deserializer<'de>>(self, d: D) -> Result<Option<usize>, D::Error> { d.deserialize_identifier(self) }
}
impl<'de> Visitor<'de> for FieldSeed {
    type Value = Option<usize>;
    fn expecting(&self, f: &mut fmt::Formatter) -> fmt::Result { f.write_str("field identifier") }
    fn visit_str<E: de::Error>(self, v: &str) -> Result<Option<usize>, E> { Ok(self.0.iter().position(|n| *n == v)) }
    fn visit_bytes<E: de::Error>(self, v: &[u8]) -> Result<Option<usize>, E> { Ok(self.0.iter().position(|n| n.as_bytes() == v)) }
    fn visit_u64<E: de::Error>(self, v: u64) -> Result<Option<usize>, E> { Ok(if (v as usize) < self.0.len() { Some(v as usize) } else { None }) }
}

struct StructV(&'static Fields);
impl<'de> Visitor<'de> for StructV {
    type Value = DVal;
    fn expecting(&self, f: &mut fmt::Formatter) -> fmt::Result { write!(f, "struct with {} elements", self.0.tys.len()) }
    fn visit_seq<A: SeqAccess<'de>>(self, seq: A) -> Result<DVal, A::Error> { TupV(&self.0.tys, true).visit_seq(seq) }
    fn visit_map<A: MapAccess<'de>>(self, mut map: A) -> Result<DVal, A::Error> {
        let fs = self.0;
        let mut slots: Vec<Option<DVal>> = fs.tys.iter().map(|_| None).collect();
        while let Some(key) = map.next_key_seed(FieldSeed(fs.names))? {
            match key {
                Some(i) => {
                    if slots[i].is_some() {
                        return Err(de::Error::duplicate_field(fs.names[i]));
                    }
                    slots[i] = Some(map.next_value_seed(Seed(&fs.tys[i]))?);
                }
                None => {
                    let _ = map.next_value::<IgnoredAny>()?;
                }
            }
        }
        let mut out = vec![];
        for (i, s) in slots.into_iter().enumerate() {
            match s {
                Some(d) => out.push(d),
                None => match fs.tys[i] {
                    // serde::__private::de::missing_field: Option fields default to None
                    Ty::Option(_) => out.push(DVal::None),
                    _ => return Err(de::Error::missing_field(fs.names[i])),
                },
            }
        }
        Ok(DVal::Struct(out))
    }
}

struct VariantSeed(&'static [&'static str]);
impl<'de> DeserializeSeed<'de> for VariantSeed {
    type Value = usize;
    fn deserialize<D: Deserializer<'de>>(self, d: D) -> Result<usize, D::Error> { d.deserialize_identifier(self) }
}
impl<'de> Visitor<'de> for VariantSeed {
    type Value = usize;
    fn expecting(&self, f: &mut fmt::Formatter) -> fmt::Result { f.write_str("variant identifier") }
    fn visit_str<E: de::Error>(self, v: &str) -> Result<usize, E> {
        match self.0.iter().position(|n| *n == v) {
            Some(i) => Ok(i),
            None => Err(E::unknown_variant(v, self.0)),
        }
    }
    fn visit_bytes<E: de::Error>(self, v: &[u8]) -> Result<usize, E> {
        match self.0.iter().position(|n| n.as_bytes() == v) {
            Some(i) => Ok(i),
            None => Err(E::unknown_variant(&String::from_utf8_lossy(v), self.0)),
        }
    }
    fn visit_u64<E: de::Error>(self, v: u64) -> Result<usize, E> {
        if (v as usize) < self.0.len() { Ok(v as usize) } else { Err(E::invalid_value(Unexpected::Unsigned(v), &"variant index")) }
    }
}

struct EnumV(&'static [&'static str], &'static [Variant]);
impl<'de> Visitor<'de> for EnumV {
    type Value = DVal;
    fn expecting(&self, f: &mut fmt::Formatter) -> fmt::Result { f.write_str("enum") }
    fn visit_enum<A: EnumAccess<'de>>(self, data: A) -> Result<DVal, A::Error> {
        let (i, variant) = data.variant_seed(VariantSeed(self.0))?;
        let payload = match &self.1[i] {
            Variant::Unit => { variant.unit_variant()?; DVal::Unit }
            Variant::Newtype(t) => variant.newtype_variant_seed(Seed(t))?,
            Variant::Tuple(ts) => variant.tuple_variant(ts.len(), TupV(ts, false))?,
            Variant::Struct(fs) => variant.struct_variant(fs.names, StructV(fs))?,
        };
        Ok(DVal::Variant(self.0[i].as_bytes().to_vec(), Box::new(payload)))
    }
}

struct KEnumV(&'static [&'static str]);
impl<'de> Visitor<'de> for KEnumV {
    type Value = DVal;
    fn expecting(&self, f: &mut fmt::Formatter) -> fmt::Result { f.write_str("unit enum") }
    fn visit_enum<A: EnumAccess<'de>>(self, data: A) -> Result<DVal, A::Error> {
        let (i, variant) = data.variant_seed(VariantSeed(self.0))?;
        variant.unit_variant()?;
        Ok(DVal::Variant(self.0[i].as_bytes().to_vec(), Box::new(DVal::Unit)))
    }
}

struct KOptV(&'static KTy);
impl<'de> Visitor<'de> for KOptV {
    type Value = DVal;
    fn expecting(&self, f: &mut fmt::Formatter) -> fmt::Result { f.write_str("option") }
    fn visit_none<E: de::Error>(self) -> Result<DVal, E> { Ok(DVal::None) }
    fn visit_unit<E: de::Error>(self) -> Result<DVal, E> { Ok(DVal::None) }
    fn visit_some<D: Deserializer<'de>>(self, d: D) -> Result<DVal, D::Error> { Ok(DVal::Some(Box::new(KSeed(self.0).deserialize(d)?))) }
}

struct KNewV(&'static KTy);
impl<'de> Visitor<'de> for KNewV {
    type Value = DVal;
    fn expecting(&self, f: &mut fmt::Formatter) -> fmt::Result { f.write_str("newtype struct") }
    fn visit_newtype_struct<D: Deserializer<'de>>(self, d: D) -> Result<DVal, D::Error> { Ok(DVal::Newtype(Box::new(KSeed(self.0).deserialize(d)?))) }
}

fn de_int<'de, D: Deserializer<'de>>(t: IntTy, d: D) -> Result<DVal, D::Error> {
    match t {
        IntTy::I8 => d.deserialize_i8(IntV(t)),
        IntTy::I16 => d.deserialize_i16(IntV(t)),
        IntTy::I32 => d.deserialize_i32(IntV(t)),
        IntTy::I64 => d.deserialize_i64(IntV(t)),
        IntTy::I128 => d.deserialize_i128(IntV(t)),
        IntTy::U8 => d.deserialize_u8(IntV(t)),
        IntTy::U16 => d.deserialize_u16(IntV(t)),
        IntTy::U32 => d.deserialize_u32(IntV(t)),
        IntTy::U64 => d.deserialize_u64(IntV(t)),
        IntTy::U128 => d.deserialize_u128(IntV(t)),
    }
}

impl<'de> DeserializeSeed<'de> for Seed {
    type Value = DVal;
    fn deserialize<D: Deserializer<'de>>(self, d: D) -> Result<DVal, D::Error> {
        match self.0 {
            Ty::Value => Value::deserialize(d).map(|v| DVal::Value(show_value(&v))),
            Ty::Ignored => IgnoredAny::deserialize(d).map(|_| DVal::Ignored),
            Ty::Raw => {
                #[cfg(feature = "raw_value")]
                {
                    <Box<serde_json::value::RawValue>>::deserialize(d).map(|r| DVal::Raw(r.get().as_bytes().to_vec()))
                }
                #[cfg(not(feature = "raw_value"))]
                {
                    let _ = d;
                    Err(de::Error::custom("raw_value feature not enabled"))
                }
            }
            Ty::Bool => d.deserialize_bool(BoolV),
            Ty::Int(t) => de_int(*t, d),
            Ty::F32 => d.deserialize_f32(F32V),
            Ty::F64 => d.deserialize_f64(F64V),
            Ty::Char => d.deserialize_char(CharV),
            Ty::Str => d.deserialize_string(StrV),
            Ty::BorrowedStr => d.deserialize_str(BStrV),
            Ty::Bytes => serde_bytes::ByteBuf::deserialize(d).map(|b| DVal::Bytes(b.into_vec())),
            Ty::Unit => d.deserialize_unit(UnitV),
            Ty::UnitStruct => d.deserialize_unit_struct("U", UnitV),
            Ty::Option(t) => d.deserialize_option(OptV(t)),
            Ty::Newtype(t) => d.deserialize_newtype_struct("N", NewV(t)),
            Ty::Seq(t) => d.deserialize_seq(SeqV(t)),
            Ty::Tuple(ts) => d.deserialize_tuple(ts.len(), TupV(ts, false)),
            Ty::TupleStruct(ts) => d.deserialize_tuple_struct("T", ts.len(), TupV(ts, false)),
            Ty::Map(k, v) => d.deserialize_map(MapV(k, v)),
            Ty::Struct(fs) => d.deserialize_struct("S", fs.names, StructV(fs)),
            Ty::Enum(names, vs) => d.deserialize_enum("E", names, EnumV(names, vs)),
        }
    }
}

impl<'de> DeserializeSeed<'de> for KSeed {
    type Value = DVal;
    fn deserialize<D: Deserializer<'de>>(self, d: D) -> Result<DVal, D::Error> {
        match self.0 {
            KTy::Str => d.deserialize_string(StrV),
            KTy::Int(t) => de_int(*t, d),
            KTy::Bool => d.deserialize_bool(BoolV),
            KTy::Char => d.deserialize_char(CharV),
            KTy::F32 => d.deserialize_f32(F32V),
            KTy::F64 => d.deserialize_f64(F64V),
            KTy::Option(k) => d.deserialize_option(KOptV(k)),
            KTy::Newtype(k) => d.deserialize_newtype_struct("N", KNewV(k)),
            KTy::UnitEnum(names) => d.deserialize_enum("K", names, KEnumV(names)),
        }
    }
}

// ------------------------------------------------------------------------------------------------ the serializer call tree (sjh_ser.rs)
mod svm {
use crate::canon::{hex, unhex};
use serde::ser::{
    Serialize, SerializeMap, SerializeSeq, SerializeStruct, SerializeStructVariant, SerializeTuple, SerializeTupleStruct,
    SerializeTupleVariant, Serializer,
};
use std::cell::RefCell;
use std::collections::HashMap;
use std::fmt;
// ---------------------------------------------------------------- the call tree
#[derive(Debug, Clone)]
pub enum Sv {
    Bool(bool),
    I8(i8),
    I16(i16),
    I32(i32),
    I64(i64),
    I128(i128),
    U8(u8),
    U16(u16),
    U32(u32),
    U64(u64),
    U128(u128),
    F32(u32),
    F64(u64),
    Char(char),
    Str(String),
    Bytes(Vec<u8>),
    None,
    Some(Box<Sv>),
    Unit,
    UnitStruct,
    UnitVariant(&'static str),
    NewtypeStruct(Box<Sv>),
    NewtypeVariant(&'static str, Box<Sv>),
    Seq(Option<usize>, Vec<Sv>),
    Tuple(Vec<Sv>),
    TupleStruct(Vec<Sv>),
    TupleVariant(&'static str, Vec<Sv>),
    Map(Option<usize>, Vec<(Sv, Sv)>),
    Struct(Vec<(&'static str, Sv)>),
    StructVariant(&'static str, Vec<(&'static str, Sv)>),
    CollectStr(Vec<String>),
    NumLit(String),
}

thread_local! {
    static INTERN: RefCell<HashMap<String, &'static str>> = RefCell::new(HashMap::new());
}
fn intern(s: String) -> &'static str {
    INTERN.with(|m| {
        let mut m = m.borrow_mut();
        if let Some(x) = m.get(&s) {
            return *x;
        }
        let l: &'static str = Box::leak(s.clone().into_boxed_str());
        m.insert(s, l);
        l
    })
}

const NUMBER_TOKEN: &str = "$serde_json::private::Number";

struct Chunks<'a>(&'a [String]);
impl<'a> fmt::Display for Chunks<'a> {
    fn fmt(&self, f: &mut fmt::Formatter) -> fmt::Result {
        for c in self.0 {
            f.write_str(c)?;
        }
        Ok(())
    }
}

impl Serialize for Sv {
    fn serialize<S: Serializer>(&self, s: S) -> Result<S::Ok, S::Error> {
        match self {
            Sv::Bool(b) => s.serialize_bool(*b),
            Sv::I8(x) => s.serialize_i8(*x),
            Sv::I16(x) => s.serialize_i16(*x),
            Sv::I32(x) => s.serialize_i32(*x),
            Sv::I64(x) => s.serialize_i64(*x),
            Sv::I128(x) => s.serialize_i128(*x),
            Sv::U8(x) => s.serialize_u8(*x),
            Sv::U16(x) => s.serialize_u16(*x),
            Sv::U32(x) => s.serialize_u32(*x),
            Sv::U64(x) => s.serialize_u64(*x),
            Sv::U128(x) => s.serialize_u128(*x),
            Sv::F32(b) => s.serialize_f32(f32::from_bits(*b)),
            Sv::F64(b) => s.serialize_f64(f64::from_bits(*b)),
            Sv::Char(c) => s.serialize_char(*c),
            Sv::Str(x) => s.serialize_str(x),
            Sv::Bytes(x) => s.serialize_bytes(x),
            Sv::None => s.serialize_none(),
            Sv::Some(v) => s.serialize_some(&**v),
            Sv::Unit => s.serialize_unit(),
            Sv::UnitStruct => s.serialize_unit_struct("U"),
            Sv::UnitVariant(n) => s.serialize_unit_variant("E", 0, n),
            Sv::NewtypeStruct(v) => s.serialize_newtype_struct("N", &**v),
            Sv::NewtypeVariant(n, v) => s.serialize_newtype_variant("E", 1, n, &**v),
            Sv::Seq(h, es) => {
                let mut q = s.serialize_seq(*h)?;
                for e in es {
                    q.serialize_element(e)?;
                }
                q.end()
            }
            Sv::Tuple(es) => {
                let mut q = s.serialize_tuple(es.len())?;
                for e in es {
                    q.serialize_element(e)?;
                }
                q.end()
            }
            Sv::TupleStruct(es) => {
                let mut q = s.serialize_tuple_struct("T", es.len())?;
                for e in es {
                    q.serialize_field(e)?;
                }
                q.end()
            }
            Sv::TupleVariant(n, es) => {
                let mut q = s.serialize_tuple_variant("E", 2, n, es.len())?;
                for e in es {
                    q.serialize_field(e)?;
                }
                q.end()
            }
            Sv::Map(h, kvs) => {
                let mut q = s.serialize_map(*h)?;
                for (k, v) in kvs {
                    q.serialize_key(k)?;
                    q.serialize_value(v)?;
                }
                q.end()
            }
            Sv::Struct(fs) => {
                let mut q = s.serialize_struct("S", fs.len())?;
                for (k, v) in fs {
                    q.serialize_field(k, v)?;
                }
                q.end()
            }
            Sv::StructVariant(n, fs) => {
                let mut q = s.serialize_struct_variant("E", 3, n, fs.len())?;
                for (k, v) in fs {
                    q.serialize_field(k, v)?;
                }
                q.end()
            }
            Sv::CollectStr(chunks) => s.collect_str(&Chunks(chunks)),
            Sv::NumLit(lit) => {
                // exactly what `impl Serialize for Number` does under arbitrary_precision
                let mut q = s.serialize_struct(NUMBER_TOKEN, 1)?;
                q.serialize_field(NUMBER_TOKEN, lit)?;
                q.end()
            }
        }
    }
}

// ---------------------------------------------------------------- decoding of the <sval> field
struct P<'a> {
    b: &'a [u8],
    i: usize,
}
impl<'a> P<'a> {
    fn peek(&self) -> Option<u8> {
        self.b.get(self.i).copied()
    }
    fn eat(&mut self, c: u8) -> Option<()> {
        if self.peek() == Some(c) {
            self.i += 1;
            Some(())
        } else {
            None
        }
    }
    fn run(&mut self, f: fn(u8) -> bool) -> &'a [u8] {
        let s = self.i;
        while self.i < self.b.len() && f(self.b[self.i]) {
            self.i += 1;
        }
        &self.b[s..self.i]
    }
    // "<hex>;" or "-;"
    fn hexsemi(&mut self) -> Option<Vec<u8>> {
        if self.peek() == Some(b'-') {
            self.i += 1;
            self.eat(b';')?;
            return Some(vec![]);
        }
        let r = self.run(|c| c.is_ascii_digit() || (b'a'..=b'f').contains(&c));
        if r.is_empty() {
            return None;
        }
        self.eat(b';')?;
        unhex(std::str::from_utf8(r).ok()?)
    }
    fn string(&mut self) -> Option<String> {
        String::from_utf8(self.hexsemi()?).ok()
    }
    fn fixhex(&mut self, n: usize) -> Option<u64> {
        if self.i + n > self.b.len() {
            return None;
        }
        let t = std::str::from_utf8(&self.b[self.i..self.i + n]).ok()?;
        if !t.bytes().all(|c| c.is_ascii_digit() || (b'a'..=b'f').contains(&c)) {
            return None;
        }
        self.i += n;
        u64::from_str_radix(t, 16).ok()
    }
    fn hint(&mut self) -> Option<Option<usize>> {
        if self.peek() == Some(b'?') {
            self.i += 1;
            self.eat(b'(')?;
            return Some(None);
        }
        let d = self.run(|c| c.is_ascii_digit());
        if d.is_empty() {
            return None;
        }
        let n: usize = std::str::from_utf8(d).ok()?.parse().ok()?;
        self.eat(b'(')?;
        Some(Some(n))
    }
    fn elems(&mut self) -> Option<Vec<Sv>> {
        let mut v = vec![];
        loop {
            if self.peek() == Some(b')') {
                self.i += 1;
                return Some(v);
            }
            v.push(self.sval()?);
        }
    }
    fn fields(&mut self) -> Option<Vec<(&'static str, Sv)>> {
        let mut v = vec![];
        loop {
            if self.peek() == Some(b')') {
                self.i += 1;
                return Some(v);
            }
            let k = intern(self.string()?);
            v.push((k, self.sval()?));
        }
    }
    fn sval(&mut self) -> Option<Sv> {
        let c = self.peek()?;
        self.i += 1;
        Some(match c {
            b'T' => Sv::Bool(true),
            b'F' => Sv::Bool(false),
            b'I' => {
                let t = self.peek()?;
                self.i += 1;
                let neg = self.eat(b'-').is_some();
                let d = self.run(|c| c.is_ascii_digit());
                if d.is_empty() {
                    return None;
                }
                let mut txt = String::new();
                if neg {
                    txt.push('-');
                }
                txt.push_str(std::str::from_utf8(d).ok()?);
                self.eat(b';')?;
                match t {
                    b'a' => Sv::I8(txt.parse().ok()?),
                    b'b' => Sv::I16(txt.parse().ok()?),
                    b'c' => Sv::I32(txt.parse().ok()?),
                    b'd' => Sv::I64(txt.parse().ok()?),
                    b'e' => Sv::I128(txt.parse().ok()?),
                    b'f' => Sv::U8(txt.parse().ok()?),
                    b'g' => Sv::U16(txt.parse().ok()?),
                    b'h' => Sv::U32(txt.parse().ok()?),
                    b'i' => Sv::U64(txt.parse().ok()?),
                    b'j' => Sv::U128(txt.parse().ok()?),
                    _ => return None,
                }
            }
            b'f' => Sv::F32(self.fixhex(8)? as u32),
            b'd' => Sv::F64(self.fixhex(16)?),
            b'c' => {
                let r = self.run(|c| c.is_ascii_digit() || (b'a'..=b'f').contains(&c));
                if r.is_empty() {
                    return None;
                }
                let n = u32::from_str_radix(std::str::from_utf8(r).ok()?, 16).ok()?;
                self.eat(b';')?;
                Sv::Char(char::from_u32(n)?)
            }
            b's' => Sv::Str(self.string()?),
            b'y' => Sv::Bytes(self.hexsemi()?),
            b'N' => Sv::None,
            b'O' => Sv::Some(Box::new(self.sval()?)),
            b'U' => Sv::Unit,
            b'u' => Sv::UnitStruct,
            b'v' => Sv::UnitVariant(intern(self.string()?)),
            b'n' => Sv::NewtypeStruct(Box::new(self.sval()?)),
            b'w' => {
                let n = intern(self.string()?);
                Sv::NewtypeVariant(n, Box::new(self.sval()?))
            }
            b'Q' => {
                let h = self.hint()?;
                Sv::Seq(h, self.elems()?)
            }
            b't' => {
                self.eat(b'(')?;
                Sv::Tuple(self.elems()?)
            }
            b'r' => {
                self.eat(b'(')?;
                Sv::TupleStruct(self.elems()?)
            }
            b'V' => {
                let n = intern(self.string()?);
                self.eat(b'(')?;
                Sv::TupleVariant(n, self.elems()?)
            }
            b'M' => {
                let h = self.hint()?;
                let mut v = vec![];
                loop {
                    if self.peek() == Some(b')') {
                        self.i += 1;
                        break;
                    }
                    let k = self.sval()?;
                    let x = self.sval()?;
                    v.push((k, x));
                }
                Sv::Map(h, v)
            }
            b'R' => {
                self.eat(b'(')?;
                Sv::Struct(self.fields()?)
            }
            b'W' => {
                let n = intern(self.string()?);
                self.eat(b'(')?;
                Sv::StructVariant(n, self.fields()?)
            }
            b'C' => {
                self.eat(b'(')?;
                let mut v = vec![];
                loop {
                    if self.peek() == Some(b')') {
                        self.i += 1;
                        break;
                    }
                    v.push(self.string()?);
                }
                Sv::CollectStr(v)
            }
            b'L' => Sv::NumLit(self.string()?),
            _ => return None,
        })
    }
}

pub fn parse_sval(s: &str) -> Option<Sv> {
    let mut p = P { b: s.as_bytes(), i: 0 };
    let v = p.sval()?;
    if p.i == s.len() {
        Some(v)
    } else {
        None
    }
}

// ---------------------------------------------------------------- writers
}

// ------------------------------------------------------------------------------------------------ ops
#[cfg(feature = "raw_value")]
mod imp {
    use super::*;
    use serde::de::IntoDeserializer;
    use serde_json::value::RawValue;

    // serde_json::from_str::<T>(text) = from_trait: seed.deserialize(&mut de), then de.end()
    fn from_str_seed(text: &str, ty: &'static Ty) -> Result<DVal, serde_json::Error> {
        let mut de = serde_json::Deserializer::from_str(text);
        let v = Seed(ty).deserialize(&mut de)?;
        de.end()?;
        Ok(v)
    }

    fn capture(hx: &str) -> Result<Box<RawValue>, String> {
        let data = match unhex(hx) { Some(d) => d, None => return Err("BADCASE".into()) };
        let s = match String::from_utf8(data) { Ok(s) => s, Err(_) => return Err("SKIP".into()) };
        match serde_json::from_str::<Box<RawValue>>(&s) { Ok(r) => Ok(r), Err(_) => Err("capture-failed".into()) }
    }

    pub fn run(f: &[&str]) -> String {
        match f[0] {
            "rd" if f.len() == 4 => {
                let ty = match parse_ty(f[2]) { Some(t) => t, None => return "BADCASE".into() };
                let raw = match capture(f[3]) { Ok(r) => r, Err(e) => return e };
                // impl Deserializer for &RawValue
                let a = show_tres(Seed(ty).deserialize(&*raw));
                // from_str::<T>(raw.get()): the same seed on a from_str Deserializer, then end()
                let b = show_tres(from_str_seed(raw.get(), ty));
                // impl IntoDeserializer for &RawValue
                let c = show_tres(Seed(ty).deserialize((&*raw).into_deserializer()));
                let mut out = a.clone();
                if a != b { out.push_str(" DIFF-from_str"); }
                if a != c { out.push_str(" DIFF-into_deserializer"); }
                out
            }
            "rs" if f.len() == 4 => {
                let ty = match parse_ty(f[2]) { Some(t) => t, None => return "BADCASE".into() };
                let raw = match capture(f[3]) { Ok(r) => r, Err(e) => return e };
                show_tres(from_str_seed(raw.get(), ty))
            }
            "rtr" if f.len() == 3 || f.len() == 4 => {
                let v = match svm::parse_sval(f[f.len() - 1]) { Some(v) => v, None => return "BADCASE".into() };
                match serde_json::value::to_raw_value(&v) {
                    Ok(r) => {
                        let mut out = format!("ok {}", if r.get().is_empty() { "-".to_string() } else { hex(r.get().as_bytes()) });
                        match RawValue::from_string(r.get().to_owned()) {
                            Ok(r2) if r2.get() == r.get() => {}
                            _ => out.push_str(" DIFF-reparse"),
                        }
                        out
                    }
                    Err(e) => format!("err {}", code_name(&e)),
                }
            }
            _ => "BADCASE".into(),
        }
    }
}

#[cfg(not(feature = "raw_value"))]
mod imp {
    pub fn run(_f: &[&str]) -> String { "SKIP".into() }
}

fn main() {
    let args: Vec<String> = std::env::args().collect();
    std::panic::set_hook(Box::new(|_| {}));
    let stdin = std::io::stdin();
    let input: Box<dyn BufRead> = if args.len() > 1 {
        Box::new(std::io::BufReader::new(std::fs::File::open(&args[1]).expect("case file")))
    } else {
        Box::new(stdin.lock())
    };
    let stdout = std::io::stdout();
    let mut out = std::io::BufWriter::new(stdout.lock());
    for line in input.lines() {
        let line = line.expect("read line");
        let fields: Vec<&str> = line.split(' ').filter(|s| !s.is_empty()).collect();
        if fields.is_empty() { writeln!(out, "BADCASE").unwrap(); continue; }
        match catch_unwind(AssertUnwindSafe(|| imp::run(&fields))) {
            Ok(s) => writeln!(out, "{}", s).unwrap(),
            Err(_) => writeln!(out, "PANIC").unwrap(),
        }
    }
    out.flush().unwrap();
}
