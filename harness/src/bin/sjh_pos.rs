// sjh_pos — implementation side of the position-bookkeeping correspondence (model: Model/Pos.v, theorems Proofs/PosRefine.v,
// driver Extract/Driver_pos.v).  Drives the REAL readers of serde_json (path dependency on /repo) through the public (doc-hidden)
// methods of the sealed `de::Read` trait and prints, after every operation, what position() / byte_offset() / peek_position() report.
//   pos <hex input|-> <ops over n p d> [<io error kind index>]
//     -> for IoRead and then SliceRead, after EVERY op: line:col:byte_offset:peekline:peekcol joined by ','; the two separated by ' | '
//        (a panicking position() prints PANIC:PANIC, as the model does for SliceRead::position_of_index past the end)
//   StrRead is run too (valid UTF-8 inputs): a trace differing from SliceRead's is reported as a third ' | ' field.
#![allow(clippy::all)]
#![allow(dead_code)]

#[path = "../canon.rs"]
mod canon;
#[path = "../rw.rs"]
mod rw;

use canon::unhex;
use serde_json::de::{IoRead, Read, SliceRead, StrRead};
use std::io::{BufRead, Write};
use std::panic::{catch_unwind, AssertUnwindSafe};

fn lc<'de, R: Read<'de>>(r: &R, peek: bool) -> String {
    let p = catch_unwind(AssertUnwindSafe(|| {
        let p = if peek { r.peek_position() } else { r.position() };
        (p.line, p.column)
    }));
    match p {
        Ok((l, c)) => format!("{}:{}", l, c),
        Err(_) => "PANIC:PANIC".to_string(),
    }
}

fn trace<'de, R: Read<'de>>(r: &mut R, ops: &str) -> String {
    let mut out: Vec<String> = Vec::new();
    for o in ops.chars() {
        match o {
            'n' => {
                let _ = r.next();
            }
            'p' => {
                let _ = r.peek();
            }
            'd' => r.discard(),
            _ => return "BADCASE".into(),
        }
        out.push(format!("{}:{}:{}", lc(r, false), r.byte_offset(), lc(r, true)));
    }
    out.join(",")
}

fn run(f: &[&str]) -> String {
    if f.len() < 2 || f[0] != "pos" {
        return "BADCASE".into();
    }
    let input = match unhex(f[1]) {
        Some(b) => b,
        None => return "BADCASE".into(),
    };
    let ops = if f.len() > 2 { f[2] } else { "" };
    let kind = if f.len() > 3 { f[3].parse::<usize>().ok() } else { None };
    let io = {
        // chunking: 4th field's presence makes the reader fail (persistently) once all bytes are delivered; chunk size varies with the input length
        let mut rd = rw::ChunkReader::from_spec(&input, if input.len() % 3 == 0 { "r1" } else if input.len() % 3 == 1 { "rx7" } else { "r5" });
        if let Some(k) = kind {
            rd.fail_at = Some(input.len());
            rd.fail_kind = canon::kind_of(k as u32);
        }
        let mut r = IoRead::new(rd);
        trace(&mut r, ops)
    };
    let sl = {
        let mut r = SliceRead::new(&input);
        trace(&mut r, ops)
    };
    let mut out = format!("{} | {}", io, sl);
    if let Ok(s) = std::str::from_utf8(&input) {
        let mut r = StrRead::new(s);
        let st = trace(&mut r, ops);
        if st != sl {
            out.push_str(" | STR-DIFFERS ");
            out.push_str(&st);
        }
    }
    out
}

fn main() {
    let args: Vec<String> = std::env::args().collect();
    std::panic::set_hook(Box::new(|_| {}));
    let stdin = std::io::stdin();
    let input: Box<dyn BufRead> = if args.len() > 1 {
        Box::new(std::io::BufReader::new(std::fs::File::open(&args[1]).expect("case file")))
    } else {
        Box::new(stdin.lock())
    };
    let stdout = std::io::stdout();
    let mut out = std::io::BufWriter::new(stdout.lock());
    for line in input.lines() {
        let line = line.expect("read line");
        let fields: Vec<&str> = line.split(' ').filter(|s| !s.is_empty()).collect();
        match catch_unwind(AssertUnwindSafe(|| run(&fields))) {
            Ok(s) => writeln!(out, "{}", s).unwrap(),
            Err(_) => writeln!(out, "PANIC").unwrap(),
        }
    }
    out.flush().unwrap();
}
