// sjh_lex — implementation side of the C07 check (float_roundtrip: decimal -> float is correctly rounded).
//
// Public-API ops (every build):
//   f64 <hexlit>            from_str / from_slice / from_reader (two chunkings) ::<f64>, `[lit]` as Vec<f64>, and the number
//                           inside a Value must all agree           -> `ok <16 hex bits>` | `err <code>` | `SRC-DISAGREE ...`
//   f32 <hexlit>            the same for f32                        -> `ok <8 hex bits>`  | ...
//   rt64 <16 hex bits>      to_string / to_vec / to_value->to_string agree, text is an RFC 8259 number containing '.' or 'e',
//                           parses back to the same bits            -> `ok <hex of text>` | `null` (non finite) | failure word
//   rt32 <8 hex bits>       the same for f32
//   sweep32 <lo> <hi>       rt32 for every bit pattern in [lo, hi)  -> `ok <finite> <nonfinite>` | `fail <bits> <texthex> <got>`
//   sweep64 <start> <step> <n>   rt64 for n bit patterns start, start+step, ...
// Internal ops (only when compiled with RUSTFLAGS='--cfg fast_arithmetic="64"'; `SKIP` otherwise) on the real
// /repo/src/lexical sources, included by path:
//   lx c <d|s> <mant> <exp>                 parse_concise_float step by step (which path, ExtendedFloat before rounding, valid, result)
//   lx t <d|s> <inthex> <frachex> <exp>     parse_truncated_float step by step
//   ef mul|norm|round ...                   ExtendedFloat::mul / normalize / into_float + into_downward_float
//   bi <op> ...                             limb arithmetic of math.rs (imul_small iadd_small imul_pow5 imul_pow2 imul_pow10 hi64 bit_length compare from_u64)
// Protocol of the model side: /verif/coq/theories/Extract/Driver_lex.v.
#![allow(clippy::all)]
#![allow(dead_code, unused_imports, unused_macros, unexpected_cfgs, unreachable_pub)]

extern crate alloc;
// parse.rs names the external crate `itoa` (u64 -> decimal digits); this crate has no such dependency, so the name is
// bound to this crate root, which provides a two-function stand-in (only used by the internal ops).
extern crate self as itoa;

#[path = "../canon.rs"]
mod canon;
#[path = "../rw.rs"]
mod rw;

use canon::{code_name, hex, unhex};
use rw::ChunkReader;
use std::io::{BufRead, Write};
use std::panic::{catch_unwind, AssertUnwindSafe};

pub struct Buffer {
    s: String,
}
impl Buffer {
    pub fn new() -> Buffer {
        Buffer { s: String::new() }
    }
    pub fn format(&mut self, v: u64) -> &str {
        self.s = format!("{}", v);
        &self.s
    }
}

#[cfg(fast_arithmetic = "64")]
mod lexical {
    #[path = "/repo/src/lexical/algorithm.rs"]
    pub mod algorithm;
    #[path = "/repo/src/lexical/bhcomp.rs"]
    pub mod bhcomp;
    #[path = "/repo/src/lexical/bignum.rs"]
    pub mod bignum;
    #[path = "/repo/src/lexical/cached.rs"]
    pub mod cached;
    #[path = "/repo/src/lexical/cached_float80.rs"]
    pub mod cached_float80;
    #[path = "/repo/src/lexical/digit.rs"]
    pub mod digit;
    #[path = "/repo/src/lexical/errors.rs"]
    pub mod errors;
    #[path = "/repo/src/lexical/exponent.rs"]
    pub mod exponent;
    #[path = "/repo/src/lexical/float.rs"]
    pub mod float;
    #[path = "/repo/src/lexical/large_powers.rs"]
    pub mod large_powers;
    #[path = "/repo/src/lexical/large_powers64.rs"]
    pub mod large_powers64;
    #[path = "/repo/src/lexical/math.rs"]
    pub mod math;
    #[path = "/repo/src/lexical/num.rs"]
    pub mod num;
    #[path = "/repo/src/lexical/parse.rs"]
    pub mod parse;
    #[path = "/repo/src/lexical/rounding.rs"]
    pub mod rounding;
    #[path = "/repo/src/lexical/shift.rs"]
    pub mod shift;
    #[path = "/repo/src/lexical/small_powers.rs"]
    pub mod small_powers;
}

fn main() {
    let args: Vec<String> = std::env::args().collect();
    if args.len() > 1 && args[1] == "--internal" {
        println!("{}", if cfg!(fast_arithmetic = "64") { "yes" } else { "no" });
        return;
    }
    if std::env::var_os("SJH_LEX_VERBOSE").is_none() {
        std::panic::set_hook(Box::new(|_| {}));
    }
    let stdin = std::io::stdin();
    let input: Box<dyn BufRead> = if args.len() > 1 {
        Box::new(std::io::BufReader::new(std::fs::File::open(&args[1]).expect("case file")))
    } else {
        Box::new(stdin.lock())
    };
    let stdout = std::io::stdout();
    let mut out = std::io::BufWriter::new(stdout.lock());
    for line in input.lines() {
        let line = line.expect("read line");
        let fields: Vec<&str> = line.split(' ').filter(|s| !s.is_empty()).collect();
        let r = catch_unwind(AssertUnwindSafe(|| dispatch(&fields)));
        match r {
            Ok(s) => writeln!(out, "{}", s).unwrap(),
            Err(_) => writeln!(out, "PANIC").unwrap(),
        }
    }
    out.flush().unwrap();
}

// ---------------------------------------------------------------------------------------------- public API ops
trait Fl: Copy + serde::de::DeserializeOwned + serde::Serialize {
    fn bits_hex(self) -> String;
    fn from_hex(s: &str) -> Option<Self>;
    fn finite(self) -> bool;
    fn same(self, o: Self) -> bool;
    fn of_f64(x: f64) -> Option<Self>; // exact conversion from the f64 a Value holds, when meaningful
}
impl Fl for f64 {
    fn bits_hex(self) -> String {
        format!("{:016x}", self.to_bits())
    }
    fn from_hex(s: &str) -> Option<f64> {
        u64::from_str_radix(s, 16).ok().map(f64::from_bits)
    }
    fn finite(self) -> bool {
        self.is_finite()
    }
    fn same(self, o: f64) -> bool {
        self.to_bits() == o.to_bits()
    }
    fn of_f64(x: f64) -> Option<f64> {
        Some(x)
    }
}
impl Fl for f32 {
    fn bits_hex(self) -> String {
        format!("{:08x}", self.to_bits())
    }
    fn from_hex(s: &str) -> Option<f32> {
        u32::from_str_radix(s, 16).ok().map(f32::from_bits)
    }
    fn finite(self) -> bool {
        self.is_finite()
    }
    fn same(self, o: f32) -> bool {
        self.to_bits() == o.to_bits()
    }
    fn of_f64(_: f64) -> Option<f32> {
        None
    }
}

fn show<T: Fl>(r: &Result<T, serde_json::Error>) -> String {
    match r {
        Ok(v) => format!("ok {}", v.bits_hex()),
        Err(e) => format!("err {}", code_name(e)),
    }
}

fn parse_lit<T: Fl>(data: &[u8]) -> String {
    let mut outs: Vec<String> = vec![];
    if let Ok(s) = std::str::from_utf8(data) {
        outs.push(show(&serde_json::from_str::<T>(s)));
    }
    outs.push(show(&serde_json::from_slice::<T>(data)));
    outs.push(show(&serde_json::from_reader::<_, T>(ChunkReader::from_spec(data, "r1"))));
    outs.push(show(&serde_json::from_reader::<_, T>(ChunkReader::from_spec(data, "rx3"))));
    // as an array element (the literal is then ended by a delimiter instead of the end of input)
    let mut arr = Vec::with_capacity(data.len() + 4);
    arr.extend_from_slice(b"[ ");
    arr.extend_from_slice(data);
    arr.extend_from_slice(b"]");
    let ra = serde_json::from_slice::<Vec<T>>(&arr).map(|v| v[0]);
    outs.push(show(&ra));
    let rb = serde_json::from_reader::<_, (T,)>(ChunkReader::from_spec(&arr, "r2")).map(|v| v.0);
    outs.push(show(&rb));
    // inside a Value (f64 only): a float Number must carry the same bits
    if let Ok(v) = serde_json::from_slice::<serde_json::Value>(data) {
        if let serde_json::Value::Number(n) = &v {
            let is_float = if cfg!(feature = "arbitrary_precision") { true } else { n.is_f64() };
            if is_float {
                if let Some(x) = n.as_f64() {
                    if let Some(t) = T::of_f64(x) {
                        outs.push(format!("ok {}", t.bits_hex()));
                    }
                }
            }
        }
    } else if T::of_f64(0.0).is_some() && !cfg!(feature = "arbitrary_precision") {
        outs.push(match serde_json::from_slice::<serde_json::Value>(data) {
            Err(e) => format!("err {}", code_name(&e)),
            Ok(_) => unreachable!(),
        });
    }
    if outs.iter().all(|s| *s == outs[0]) {
        outs[0].clone()
    } else {
        format!("SRC-DISAGREE {}", outs.join("|"))
    }
}

// RFC 8259 number:  -? (0 | [1-9][0-9]*) (\. [0-9]+)? ([eE] [+-]? [0-9]+)?
fn is_json_number(t: &[u8]) -> bool {
    let mut i = 0;
    let n = t.len();
    if i < n && t[i] == b'-' {
        i += 1;
    }
    if i >= n {
        return false;
    }
    if t[i] == b'0' {
        i += 1;
    } else if (b'1'..=b'9').contains(&t[i]) {
        while i < n && t[i].is_ascii_digit() {
            i += 1;
        }
    } else {
        return false;
    }
    if i < n && t[i] == b'.' {
        i += 1;
        let s = i;
        while i < n && t[i].is_ascii_digit() {
            i += 1;
        }
        if i == s {
            return false;
        }
    }
    if i < n && (t[i] == b'e' || t[i] == b'E') {
        i += 1;
        if i < n && (t[i] == b'+' || t[i] == b'-') {
            i += 1;
        }
        let s = i;
        while i < n && t[i].is_ascii_digit() {
            i += 1;
        }
        if i == s {
            return false;
        }
    }
    i == n
}

fn has_dot_or_e(t: &[u8]) -> bool {
    t.iter().any(|&c| c == b'.' || c == b'e' || c == b'E')
}

fn roundtrip<T: Fl>(f: T) -> String {
    let text = match serde_json::to_string(&f) {
        Ok(s) => s,
        Err(_) => return "SERERR".into(),
    };
    if !f.finite() {
        return text; // "null"
    }
    let v2 = serde_json::to_vec(&f).unwrap_or_default();
    let mut v3 = Vec::new();
    let _ = serde_json::to_writer(&mut v3, &f);
    let v4 = serde_json::to_value(f).ok().and_then(|v| serde_json::to_string(&v).ok()).unwrap_or_default();
    let v5 = serde_json::to_string_pretty(&f).unwrap_or_default();
    // Value::from(f32) goes through f64: its text may differ for f32, so it is compared for f64 only
    let value_ok = T::of_f64(0.0).is_none() || v4 == text;
    if v2 != text.as_bytes() || v3 != text.as_bytes() || v5 != text || !value_ok {
        return format!("SER-DISAGREE {} {} {} {}", hex(text.as_bytes()), hex(&v2), hex(v4.as_bytes()), hex(v5.as_bytes()));
    }
    let t = text.as_bytes();
    if !is_json_number(t) {
        return format!("BADSYNTAX {}", hex(t));
    }
    if !has_dot_or_e(t) {
        return format!("NODOT {}", hex(t));
    }
    match serde_json::from_str::<T>(&text) {
        Ok(g) if g.same(f) => {}
        Ok(g) => return format!("RTFAIL {} {}", hex(t), g.bits_hex()),
        Err(e) => return format!("RTERR {} {}", hex(t), code_name(&e)),
    }
    match serde_json::from_reader::<_, T>(ChunkReader::from_spec(t, "r1")) {
        Ok(g) if g.same(f) => {}
        Ok(g) => return format!("RTFAIL-reader {} {}", hex(t), g.bits_hex()),
        Err(e) => return format!("RTERR-reader {} {}", hex(t), code_name(&e)),
    }
    // through a Value (f64): Value -> f64 must give the bits back as well
    if T::of_f64(0.0).is_some() {
        match serde_json::from_str::<serde_json::Value>(&text) {
            Ok(v) => match v.as_f64().and_then(T::of_f64) {
                Some(g) if g.same(f) => {}
                Some(g) => return format!("RTFAIL-value {} {}", hex(t), g.bits_hex()),
                None => return format!("RTFAIL-value {} none", hex(t)),
            },
            Err(e) => return format!("RTERR-value {} {}", hex(t), code_name(&e)),
        }
    }
    format!("ok {}", hex(t))
}

fn sweep32(lo: u64, hi: u64) -> String {
    let mut finite: u64 = 0;
    let mut nonfinite: u64 = 0;
    let mut buf: Vec<u8> = Vec::with_capacity(64);
    let mut b = lo;
    while b < hi {
        let f = f32::from_bits(b as u32);
        if !f.is_finite() {
            nonfinite += 1;
            b += 1;
            continue;
        }
        buf.clear();
        if serde_json::to_writer(&mut buf, &f).is_err() {
            return format!("fail {:08x} - sererr", b);
        }
        if !is_json_number(&buf) || !has_dot_or_e(&buf) {
            return format!("fail {:08x} {} syntax", b, hex(&buf));
        }
        match serde_json::from_slice::<f32>(&buf) {
            Ok(g) if g.to_bits() == b as u32 => {}
            Ok(g) => return format!("fail {:08x} {} {:08x}", b, hex(&buf), g.to_bits()),
            Err(e) => return format!("fail {:08x} {} err-{}", b, hex(&buf), code_name(&e)),
        }
        finite += 1;
        b += 1;
    }
    format!("ok {} {}", finite, nonfinite)
}

fn sweep64(start: u64, step: u64, n: u64) -> String {
    let mut finite: u64 = 0;
    let mut nonfinite: u64 = 0;
    let mut buf: Vec<u8> = Vec::with_capacity(64);
    let mut b = start;
    for _ in 0..n {
        let f = f64::from_bits(b);
        if !f.is_finite() {
            nonfinite += 1;
        } else {
            buf.clear();
            if serde_json::to_writer(&mut buf, &f).is_err() {
                return format!("fail {:016x} - sererr", b);
            }
            if !is_json_number(&buf) || !has_dot_or_e(&buf) {
                return format!("fail {:016x} {} syntax", b, hex(&buf));
            }
            match serde_json::from_slice::<f64>(&buf) {
                Ok(g) if g.to_bits() == b => {}
                Ok(g) => return format!("fail {:016x} {} {:016x}", b, hex(&buf), g.to_bits()),
                Err(e) => return format!("fail {:016x} {} err-{}", b, hex(&buf), code_name(&e)),
            }
            finite += 1;
        }
        b = b.wrapping_add(step);
    }
    format!("ok {} {}", finite, nonfinite)
}

fn dispatch(f: &[&str]) -> String {
    if f.is_empty() {
        return "BADCASE".into();
    }
    match f[0] {
        "f64" if f.len() == 2 => match unhex(f[1]) {
            Some(d) => parse_lit::<f64>(&d),
            None => "BADCASE".into(),
        },
        "f32" if f.len() == 2 => match unhex(f[1]) {
            Some(d) => parse_lit::<f32>(&d),
            None => "BADCASE".into(),
        },
        "rt64" if f.len() == 2 => match f64::from_hex(f[1]) {
            Some(x) => roundtrip::<f64>(x),
            None => "BADCASE".into(),
        },
        "rt32" if f.len() == 2 => match f32::from_hex(f[1]) {
            Some(x) => roundtrip::<f32>(x),
            None => "BADCASE".into(),
        },
        "sweep32" if f.len() == 3 => match (f[1].parse::<u64>(), f[2].parse::<u64>()) {
            (Ok(lo), Ok(hi)) if lo <= hi && hi <= (1u64 << 32) => sweep32(lo, hi),
            _ => "BADCASE".into(),
        },
        "sweep64" if f.len() == 4 => match (f[1].parse::<u64>(), f[2].parse::<u64>(), f[3].parse::<u64>()) {
            (Ok(s), Ok(st), Ok(n)) => sweep64(s, st, n),
            _ => "BADCASE".into(),
        },
        "lx" | "ef" | "bi" => internal(f),
        // sq <src b|r> <kind:hexlit>,<kind:hexlit>,...   (kind = d | s): ONE Deserializer over the literals joined by a space, driven item by item
        // with f64::deserialize / f32::deserialize; a failing item is swallowed (as a lenient wrapper would) and the next one is read from the
        // same Deserializer -> per item `ok <bits>` | `err <code>`, joined by ','
        "sq" if f.len() == 3 => {
            let mut text: Vec<u8> = vec![];
            let mut kinds = vec![];
            for it in f[2].split(',') {
                let (k, h) = match it.split_once(':') { Some(x) => x, None => return "BADCASE".into() };
                let lit = match unhex(h) { Some(d) => d, None => return "BADCASE".into() };
                if !text.is_empty() { text.push(b' '); }
                text.extend_from_slice(&lit);
                kinds.push(k == "s");
            }
            fn drive<'de, R: serde_json::de::Read<'de>>(mut de: serde_json::Deserializer<R>, kinds: &[bool]) -> String {
                use serde::Deserialize;
                let mut out = vec![];
                for single in kinds {
                    let r = if *single {
                        f32::deserialize(&mut de).map(|x| format!("ok {:08x}", x.to_bits()))
                    } else {
                        f64::deserialize(&mut de).map(|x| format!("ok {:016x}", x.to_bits()))
                    };
                    out.push(match r { Ok(s) => s, Err(e) => format!("err {}", code_name(&e)) });
                }
                out.join(",")
            }
            if f[1].starts_with('r') {
                drive(serde_json::Deserializer::from_reader(rw::ChunkReader::new(&text, 1)), &kinds)
            } else {
                drive(serde_json::Deserializer::from_slice(&text), &kinds)
            }
        }
        _ => "BADCASE".into(),
    }
}

// ---------------------------------------------------------------------------------------------- internal ops
#[cfg(not(fast_arithmetic = "64"))]
fn internal(_: &[&str]) -> String {
    "SKIP".into()
}

#[cfg(fast_arithmetic = "64")]
fn internal(f: &[&str]) -> String {
    internal_ops::run(f).unwrap_or_else(|| "BADCASE".into())
}

#[cfg(fast_arithmetic = "64")]
mod internal_ops {
    use super::lexical::algorithm::{fallback_path, fast_path, moderate_path};
    use super::lexical::bhcomp::bhcomp;
    use super::lexical::digit::{add_digit, to_digit};
    use super::lexical::exponent::mantissa_exponent;
    use super::lexical::float::ExtendedFloat;
    use super::lexical::math::{Limb, Math};
    use super::lexical::num::Float;
    use super::lexical::parse::{parse_concise_float, parse_truncated_float};
    use super::unhex;

    trait FB: Float {
        fn hexbits(self) -> String;
    }
    impl FB for f64 {
        fn hexbits(self) -> String {
            format!("{:016x}", self.to_bits())
        }
    }
    impl FB for f32 {
        fn hexbits(self) -> String {
            format!("{:08x}", self.to_bits())
        }
    }

    #[derive(Clone, Default)]
    struct Big {
        data: Vec<Limb>,
    }
    impl Math for Big {
        fn data(&self) -> &Vec<Limb> {
            &self.data
        }
        fn data_mut(&mut self) -> &mut Vec<Limb> {
            &mut self.data
        }
    }

    fn limbs(s: &str) -> Option<Big> {
        if s == "-" {
            return Some(Big::default());
        }
        let mut v = vec![];
        for t in s.split(',') {
            v.push(t.parse::<u64>().ok()?);
        }
        Some(Big { data: v })
    }
    fn show_limbs(b: &Big) -> String {
        if b.data.is_empty() {
            return "-".into();
        }
        b.data.iter().map(|x| x.to_string()).collect::<Vec<_>>().join(",")
    }

    // the tail shared by parse_concise_float and fallback_path, step by step
    fn slow_steps<F: FB>(fp: ExtendedFloat, valid: bool, integer: &[u8], fraction: &[u8], exponent: i32) -> (String, F) {
        if valid {
            let r = fp.into_float::<F>();
            return (format!("mod {} {} {}", fp.mant, fp.exp, r.hexbits()), r);
        }
        let b = fp.into_downward_float::<F>();
        if b.is_special() {
            return (format!("spec {} {} {}", fp.mant, fp.exp, b.hexbits()), b);
        }
        let r = bhcomp(b, integer, fraction, exponent);
        (format!("bh {} {} {} {}", fp.mant, fp.exp, b.hexbits(), r.hexbits()), r)
    }

    fn lx_concise<F: FB>(mant: u64, exp: i32) -> String {
        let whole: F = parse_concise_float::<F>(mant, exp);
        let (s, r): (String, F) = match fast_path::<F>(mant, exp) {
            Some(x) => (format!("fast {}", x.hexbits()), x),
            None => {
                let (fp, valid) = moderate_path::<F>(mant, exp, false);
                let digits = format!("{}", mant);
                slow_steps::<F>(fp, valid, digits.as_bytes(), &[], exp)
            }
        };
        if r.hexbits() != whole.hexbits() {
            return format!("MISMATCH {} whole={}", s, whole.hexbits());
        }
        s
    }

    fn lx_truncated<F: FB>(integer: &[u8], fraction0: &[u8], exponent: i32) -> String {
        let whole: F = parse_truncated_float::<F>(integer, fraction0, exponent);
        // the body of parse_truncated_float
        let mut fraction = fraction0;
        while fraction.last() == Some(&b'0') {
            fraction = &fraction[..fraction.len() - 1];
        }
        let mut truncated = 0;
        let mut mantissa: u64 = 0;
        let mut iter = integer.iter().chain(fraction);
        for &c in &mut iter {
            mantissa = match add_digit(mantissa, to_digit(c).unwrap()) {
                Some(v) => v,
                None => {
                    truncated = 1 + iter.count();
                    break;
                }
            };
        }
        let mant_exp = mantissa_exponent(exponent, fraction.len(), truncated);
        let (fp, valid) = moderate_path::<F>(mantissa, mant_exp, true);
        let (s, r) = slow_steps::<F>(fp, valid, integer, fraction, exponent);
        let via_fallback: F = fallback_path::<F>(integer, fraction, mantissa, exponent, mant_exp, true);
        if r.hexbits() != whole.hexbits() || via_fallback.hexbits() != whole.hexbits() {
            return format!("MISMATCH {} {} {} whole={} fallback={}", mantissa, mant_exp, s, whole.hexbits(), via_fallback.hexbits());
        }
        format!("{} {} {}", mantissa, mant_exp, s)
    }

    pub fn run(f: &[&str]) -> Option<String> {
        match (f[0], f.get(1).copied()) {
            ("lx", Some("c")) if f.len() == 5 => {
                let mant = f[3].parse::<u64>().ok()?;
                let exp = f[4].parse::<i32>().ok()?;
                Some(if f[2] == "s" { lx_concise::<f32>(mant, exp) } else { lx_concise::<f64>(mant, exp) })
            }
            ("lx", Some("t")) if f.len() == 6 => {
                let i = unhex(f[3])?;
                let fr = unhex(f[4])?;
                let exp = f[5].parse::<i32>().ok()?;
                if !i.iter().chain(fr.iter()).all(|c| c.is_ascii_digit()) {
                    return None;
                }
                Some(if f[2] == "s" { lx_truncated::<f32>(&i, &fr, exp) } else { lx_truncated::<f64>(&i, &fr, exp) })
            }
            ("ef", Some("mul")) if f.len() == 6 => {
                let a = ExtendedFloat { mant: f[2].parse().ok()?, exp: f[3].parse().ok()? };
                let b = ExtendedFloat { mant: f[4].parse().ok()?, exp: f[5].parse().ok()? };
                let c = a.mul(&b);
                Some(format!("{} {}", c.mant, c.exp))
            }
            ("ef", Some("norm")) if f.len() == 4 => {
                let mut a = ExtendedFloat { mant: f[2].parse().ok()?, exp: f[3].parse().ok()? };
                let sh = a.normalize();
                Some(format!("{} {} {}", a.mant, a.exp, sh))
            }
            ("ef", Some("round")) if f.len() == 5 => {
                let a = ExtendedFloat { mant: f[3].parse().ok()?, exp: f[4].parse().ok()? };
                Some(if f[2] == "s" {
                    format!("{} {}", a.into_float::<f32>().hexbits(), a.into_downward_float::<f32>().hexbits())
                } else {
                    format!("{} {}", a.into_float::<f64>().hexbits(), a.into_downward_float::<f64>().hexbits())
                })
            }
            ("bi", Some(op)) => {
                let mut x = limbs(f.get(2)?)?;
                match op {
                    "imul_small" => x.imul_small(f.get(3)?.parse().ok()?),
                    "iadd_small" => x.iadd_small(f.get(3)?.parse().ok()?),
                    "imul_pow5" => x.imul_pow5(f.get(3)?.parse().ok()?),
                    "imul_pow2" => x.imul_pow2(f.get(3)?.parse().ok()?),
                    "imul_pow10" => x.imul_pow10(f.get(3)?.parse().ok()?),
                    "hi64" => {
                        let (v, t) = x.hi64();
                        return Some(format!("{} {}", v, t as u8));
                    }
                    "bit_length" => return Some(format!("{}", x.bit_length())),
                    "compare" => {
                        let y = limbs(f.get(3)?)?;
                        return Some(match x.compare(&y) {
                            std::cmp::Ordering::Less => "lt",
                            std::cmp::Ordering::Equal => "eq",
                            std::cmp::Ordering::Greater => "gt",
                        }
                        .into());
                    }
                    "from_u64" => {
                        let y = Big::from_u64(f.get(2)?.parse().ok()?);
                        return Some(show_limbs(&y));
                    }
                    _ => return None,
                }
                Some(show_limbs(&x))
            }
            _ => None,
        }
    }
}
