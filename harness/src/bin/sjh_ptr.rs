// sjh_ptr — implementation side of the C18 correspondence check: Value::pointer / pointer_mut / take / get / get_mut /
// Index / IndexMut / PartialEq with primitives, run on the real serde_json (path dependency on /repo).
// Protocol: see /verif/coq/theories/Extract/Driver_ptr.v — same input lines, same output format.
#![allow(clippy::all)]
#![allow(dead_code)]

#[path = "../canon.rs"]
mod canon;
#[path = "../rw.rs"]
mod rw;

use canon::{show_value, unhex};
use serde_json::{Map, Number, Value};
use std::io::{BufRead, Write};
use std::panic::{catch_unwind, AssertUnwindSafe};

// ---- canonical value text -> Value ------------------------------------------------------------------------
struct P<'a> {
    b: &'a [u8],
    i: usize,
}

impl<'a> P<'a> {
    fn peek(&self) -> Option<u8> {
        self.b.get(self.i).copied()
    }
    fn eat(&mut self, c: u8) -> Option<()> {
        if self.peek() == Some(c) {
            self.i += 1;
            Some(())
        } else {
            None
        }
    }
    fn run(&mut self, f: impl Fn(u8) -> bool) -> &'a [u8] {
        let s = self.i;
        while self.i < self.b.len() && f(self.b[self.i]) {
            self.i += 1;
        }
        &self.b[s..self.i]
    }
    fn hexfield(&mut self) -> Option<Vec<u8>> {
        if self.peek() == Some(b'-') {
            self.i += 1;
            return Some(vec![]);
        }
        let h = self.run(|c| c.is_ascii_digit() || (b'a'..=b'f').contains(&c));
        if h.is_empty() {
            return None;
        }
        unhex(std::str::from_utf8(h).ok()?)
    }
    fn value(&mut self) -> Option<Value> {
        let c = self.peek()?;
        self.i += 1;
        match c {
            b'n' => Some(Value::Null),
            b't' => Some(Value::Bool(true)),
            b'f' => Some(Value::Bool(false)),
            b'u' => {
                let d = self.run(|c| c.is_ascii_digit());
                let n: u64 = std::str::from_utf8(d).ok()?.parse().ok()?;
                Some(Value::Number(Number::from(n)))
            }
            b'i' => {
                self.eat(b'-')?;
                let d = self.run(|c| c.is_ascii_digit());
                let n: i64 = format!("-{}", std::str::from_utf8(d).ok()?).parse().ok()?;
                Some(Value::Number(Number::from(n)))
            }
            b'd' => {
                if self.i + 16 > self.b.len() {
                    return None;
                }
                let h = std::str::from_utf8(&self.b[self.i..self.i + 16]).ok()?;
                self.i += 16;
                let bits = u64::from_str_radix(h, 16).ok()?;
                Some(Value::Number(Number::from_f64(f64::from_bits(bits))?))
            }
            b's' => {
                let b = self.hexfield()?;
                Some(Value::String(String::from_utf8(b).ok()?))
            }
            b'a' => {
                self.eat(b'(')?;
                let mut v = vec![];
                if self.eat(b')').is_some() {
                    return Some(Value::Array(v));
                }
                loop {
                    v.push(self.value()?);
                    if self.eat(b',').is_some() {
                        continue;
                    }
                    self.eat(b')')?;
                    return Some(Value::Array(v));
                }
            }
            b'o' => {
                self.eat(b'(')?;
                let mut m = Map::new();
                if self.eat(b')').is_some() {
                    return Some(Value::Object(m));
                }
                loop {
                    let k = String::from_utf8(self.hexfield()?).ok()?;
                    self.eat(b':')?;
                    let x = self.value()?;
                    m.insert(k, x);
                    if self.eat(b',').is_some() {
                        continue;
                    }
                    self.eat(b')')?;
                    return Some(Value::Object(m));
                }
            }
            _ => None,
        }
    }
}

fn parse_value(s: &str) -> Option<Value> {
    let mut p = P { b: s.as_bytes(), i: 0 };
    let v = p.value()?;
    if p.i == s.len() {
        Some(v)
    } else {
        None
    }
}

fn show_opt(o: Option<&Value>) -> String {
    match o {
        Some(v) => show_value(v),
        None => "none".into(),
    }
}

fn marker() -> Value {
    Value::String("MARK".into())
}

fn tf(b: bool) -> String {
    if b { "t".into() } else { "f".into() }
}

// every PartialEq instance of partial_eq.rs for the type must give the same answer
fn all_same(v: &[bool]) -> String {
    if v.iter().all(|x| *x == v[0]) {
        tf(v[0])
    } else {
        format!("MISMATCH{:?}", v)
    }
}

macro_rules! eq_num {
    ($v:expr, $ty:ty, $x:expr) => {{
        let x: $ty = $x;
        let mut vm = $v.clone();
        let r = vec![$v == x, x == $v, &$v == x, &mut vm == x];
        all_same(&r)
    }};
}

fn do_eq(v: Value, ty: &str, cmp: &str) -> String {
    macro_rules! int {
        ($t:ty) => {
            match cmp.parse::<$t>() {
                Ok(x) => eq_num!(v, $t, x),
                Err(_) => "BADCASE".into(),
            }
        };
    }
    match ty {
        "i8" => int!(i8),
        "i16" => int!(i16),
        "i32" => int!(i32),
        "i64" => int!(i64),
        "isize" => int!(isize),
        "u8" => int!(u8),
        "u16" => int!(u16),
        "u32" => int!(u32),
        "u64" => int!(u64),
        "usize" => int!(usize),
        "f32" => match (cmp.len(), u32::from_str_radix(cmp, 16)) {
            (8, Ok(b)) => eq_num!(v, f32, f32::from_bits(b)),
            _ => "BADCASE".into(),
        },
        "f64" => match (cmp.len(), u64::from_str_radix(cmp, 16)) {
            (16, Ok(b)) => eq_num!(v, f64, f64::from_bits(b)),
            _ => "BADCASE".into(),
        },
        "bool" => match cmp {
            "t" => eq_num!(v, bool, true),
            "f" => eq_num!(v, bool, false),
            _ => "BADCASE".into(),
        },
        "str" => match unhex(cmp).and_then(|b| String::from_utf8(b).ok()) {
            Some(s) => {
                let st: &str = &s;
                let r = vec![v == *st, v == st, *st == v, st == v, v == s, s == v];
                all_same(&r)
            }
            None => "BADCASE".into(),
        },
        _ => "BADCASE".into(),
    }
}

fn dispatch(f: &[&str]) -> String {
    if f.len() < 3 {
        return "BADCASE".into();
    }
    let mut v = match parse_value(f[1]) {
        Some(v) => v,
        None => return "BADCASE".into(),
    };
    let hexstr = |s: &str| unhex(s).and_then(|b| String::from_utf8(b).ok());
    match (f[0], f.len()) {
        ("pt", 3) => match hexstr(f[2]) {
            Some(p) => show_opt(v.pointer(&p)),
            None => "BADCASE".into(),
        },
        ("pm", 3) => match hexstr(f[2]) {
            Some(p) => {
                match v.pointer_mut(&p) {
                    Some(r) => *r = marker(),
                    None => return "none".into(),
                }
                show_value(&v)
            }
            None => "BADCASE".into(),
        },
        ("tk", 3) => match hexstr(f[2]) {
            Some(p) => match v.pointer_mut(&p).map(Value::take) {
                Some(x) => format!("{} {}", show_value(&x), show_value(&v)),
                None => "none".into(),
            },
            None => "BADCASE".into(),
        },
        ("gi", 3) => match f[2].parse::<usize>() {
            Ok(i) => show_opt(v.get(i)),
            Err(_) => "BADCASE".into(),
        },
        ("gk", 3) => match hexstr(f[2]) {
            Some(k) => {
                let a = show_opt(v.get(k.as_str()));
                let b = show_opt(v.get(&k));
                let c = show_opt(v.get(k.clone()));
                if a == b && b == c { a } else { format!("MISMATCH {} {} {}", a, b, c) }
            }
            None => "BADCASE".into(),
        },
        ("gmi", 3) => match f[2].parse::<usize>() {
            Ok(i) => {
                match v.get_mut(i) {
                    Some(r) => *r = marker(),
                    None => return "none".into(),
                }
                show_value(&v)
            }
            Err(_) => "BADCASE".into(),
        },
        ("gmk", 3) => match hexstr(f[2]) {
            Some(k) => {
                match v.get_mut(k.as_str()) {
                    Some(r) => *r = marker(),
                    None => return "none".into(),
                }
                show_value(&v)
            }
            None => "BADCASE".into(),
        },
        ("xi", 3) => match f[2].parse::<usize>() {
            Ok(i) => show_value(&v[i]),
            Err(_) => "BADCASE".into(),
        },
        ("xk", 3) => match hexstr(f[2]) {
            Some(k) => {
                let a = show_value(&v[k.as_str()]);
                let b = show_value(&v[&k]);
                let c = show_value(&v[k.clone()]);
                if a == b && b == c { a } else { format!("MISMATCH {} {} {}", a, b, c) }
            }
            None => "BADCASE".into(),
        },
        ("mi", 3) => match f[2].parse::<usize>() {
            Ok(i) => {
                let r = &mut v[i];
                let old = show_value(r);
                *r = marker();
                format!("{} {}", old, show_value(&v))
            }
            Err(_) => "BADCASE".into(),
        },
        ("mk", 3) => match hexstr(f[2]) {
            Some(k) => {
                let r = &mut v[k.as_str()];
                let old = show_value(r);
                *r = marker();
                format!("{} {}", old, show_value(&v))
            }
            None => "BADCASE".into(),
        },
        ("eq", 4) => do_eq(v, f[2], f[3]),
        _ => "BADCASE".into(),
    }
}

fn main() {
    let args: Vec<String> = std::env::args().collect();
    std::panic::set_hook(Box::new(|_| {}));
    let stdin = std::io::stdin();
    let input: Box<dyn BufRead> = if args.len() > 1 {
        Box::new(std::io::BufReader::new(std::fs::File::open(&args[1]).expect("case file")))
    } else {
        Box::new(stdin.lock())
    };
    let stdout = std::io::stdout();
    let mut out = std::io::BufWriter::new(stdout.lock());
    for line in input.lines() {
        let line = line.expect("read line");
        let fields: Vec<&str> = line.split(' ').filter(|s| !s.is_empty()).collect();
        let r = catch_unwind(AssertUnwindSafe(|| dispatch(&fields)));
        match r {
            Ok(s) => writeln!(out, "{}", s).unwrap(),
            Err(_) => writeln!(out, "PANIC").unwrap(),
        }
    }
    out.flush().unwrap();
}
