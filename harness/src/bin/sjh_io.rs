// sjh_io — fault injection on stream iteration (C13): sio <cfg> <item v|i> <k> <kind> <n> <hex>
// The reader delivers the first k bytes (under several chunkings, with Interrupted interleaved) and then fails with <kind>,
// either persistently or ONCE (after a one-shot failure it continues with the remaining bytes); every variant must give the
// same history: items, then the Io error once, then None forever.
#[path = "../canon.rs"]
mod canon;
use canon::*;
use serde::de::IgnoredAny;
use serde_json::Value;
use std::io::{self, BufRead, Read, Write};
use std::panic::{catch_unwind, AssertUnwindSafe};

struct FaultReader<'a> {
    data: &'a [u8],
    pos: usize,
    chunk: usize,
    fail_at: usize,
    kind: io::ErrorKind,
    one_shot: bool,
    fired: bool,
    tick: u64,
    interrupts: bool,
}

impl<'a> Read for FaultReader<'a> {
    fn read(&mut self, buf: &mut [u8]) -> io::Result<usize> {
        if buf.is_empty() {
            return Ok(0);
        }
        self.tick += 1;
        if self.interrupts && self.tick % 3 == 0 {
            return Err(io::Error::new(io::ErrorKind::Interrupted, "interrupted"));
        }
        let mut want = self.chunk.max(1);
        if self.pos >= self.fail_at && !(self.one_shot && self.fired) {
            self.fired = true;
            return Err(io::Error::new(self.kind, "injected"));
        }
        if !(self.one_shot && self.fired) {
            want = want.min(self.fail_at.saturating_sub(self.pos).max(1));
        }
        let n = want.min(buf.len()).min(self.data.len() - self.pos);
        buf[..n].copy_from_slice(&self.data[self.pos..self.pos + n]);
        self.pos += n;
        Ok(n)
    }
}

// route 0: Deserializer::from_reader(rd).into_iter(); 1: the IoRead stays with the caller and is lent as `&mut IoRead` to Deserializer::new(..).into_iter();
// 2: the same through StreamDeserializer::new(&mut io_read) — the failure latch must work through the forwarding `impl Read for &mut R` as well
fn hist_route<T: serde::de::DeserializeOwned>(rd: FaultReader, n: usize, show: fn(&T) -> String, route: u8) -> String {
    let mut io_read = serde_json::de::IoRead::new(rd);
    match route {
        1 => run_hist(serde_json::Deserializer::new(&mut io_read).into_iter::<T>(), n, show),
        _ => run_hist(serde_json::StreamDeserializer::<_, T>::new(&mut io_read), n, show),
    }
}
fn run_hist<'de, R: serde_json::de::Read<'de>, T: serde::de::Deserialize<'de>>(mut st: serde_json::StreamDeserializer<'de, R, T>, n: usize, show: fn(&T) -> String) -> String {
    let mut parts = vec![];
    for _ in 0..n {
        let s = match st.next() {
            None => "N".to_string(),
            Some(Ok(v)) => format!("V{}", show(&v)),
            Some(Err(e)) => show_err_item(&e),
        };
        parts.push(format!("{}@{}", s, st.byte_offset()));
    }
    parts.join(" ")
}
fn hist<T: serde::de::DeserializeOwned>(rd: FaultReader, n: usize, show: fn(&T) -> String) -> String {
    let mut st = serde_json::Deserializer::from_reader(rd).into_iter::<T>();
    let mut parts = vec![];
    for _ in 0..n {
        let s = match st.next() {
            None => "N".to_string(),
            Some(Ok(v)) => format!("V{}", show(&v)),
            Some(Err(e)) => show_err_item(&e),
        };
        parts.push(format!("{}@{}", s, st.byte_offset()));
    }
    parts.join(" ")
}

#[derive(serde::Deserialize, Debug)]
#[allow(dead_code)]
struct TS { a: u8, b: Option<bool> }
#[derive(serde::Deserialize, Debug)]
#[allow(dead_code)]
enum TE { A(u8), B { x: u8 }, C, D(u8, u8) }

fn show_res<T: std::fmt::Debug>(r: Result<T, serde_json::Error>) -> String {
    match r {
        Ok(v) => format!("ok {}", hex(format!("{:?}", v).as_bytes())),
        Err(e) => if e.is_io() { show_err_item(&e) } else { format!("{} {}", show_err_item(&e), msg_class(&e)) },
    }
}

// tio <type 0..7> <k|-> <kind> <hex> : typed targets (real derive / std types) over a reader failing once k bytes were delivered ("-" = never)
fn typed_io(f: &[&str]) -> String {
    let data = match unhex(f[4]) { Some(d) => d, None => return "BADCASE".into() };
    let kind = kind_of(f[3].parse().unwrap_or(1));
    let k: usize = if f[2] == "-" { usize::MAX } else { f[2].parse().unwrap_or(0) };
    let mut outs: Vec<String> = vec![];
    // persistent failures under three chunkings, and ONE-SHOT failures (the reader fails once and then goes on delivering the remaining
    // bytes: std::io::Bytes does not latch errors, so code that keeps reading after an error — end_seq()/end_map() after a failed
    // visitor — sees more input and may replace the Io error by a later one)
    for (chunk, interrupts, one_shot) in [(1usize, false, false), (3, true, false), (64, false, false), (1, false, true), (5, true, true)] {
        let rd = FaultReader { data: &data, pos: 0, chunk, fail_at: k.min(data.len() + 1), kind, one_shot, fired: false, tick: 0, interrupts };
        let rd = if k == usize::MAX { FaultReader { fail_at: usize::MAX, ..rd } } else { rd };
        let s = match f[1] {
            "0" => show_res(serde_json::from_reader::<_, Vec<u8>>(rd)),
            "1" => show_res(serde_json::from_reader::<_, std::collections::BTreeMap<String, u8>>(rd)),
            "2" => show_res(serde_json::from_reader::<_, (u8,)>(rd)),
            "3" => show_res(serde_json::from_reader::<_, TS>(rd)),
            "4" => show_res(serde_json::from_reader::<_, TE>(rd)),
            "5" => show_res(serde_json::from_reader::<_, Vec<(u8, String)>>(rd)),
            "6" => show_res(serde_json::from_reader::<_, std::collections::BTreeMap<i32, Vec<i128>>>(rd)),
            _ => show_res(serde_json::from_reader::<_, Option<Vec<TE>>>(rd)),
        };
        outs.push(s);
    }
    if outs.iter().all(|s| *s == outs[0]) { outs[0].clone() } else { format!("SCHEDULE-DEPENDENT {}", outs.join(" | ")) }
}

fn dispatch(f: &[&str]) -> String {
    if f.len() == 5 && f[0] == "tio" {
        return typed_io(f);
    }
    if f.len() != 7 || f[0] != "sio" {
        return "BADCASE".into();
    }
    let data = match unhex(f[6]) { Some(d) => d, None => return "BADCASE".into() };
    let k: usize = f[3].parse().unwrap_or(0);
    let kind = kind_of(f[4].parse().unwrap_or(1));
    let n: usize = f[5].parse().unwrap_or(4);
    let ign = f[2].starts_with('i');
    fn sv(v: &Value) -> String { show_value(v) }
    fn si(_: &IgnoredAny) -> String { "n".into() }
    let mut outs: Vec<String> = vec![];
    for (chunk, interrupts, one_shot) in [(1usize, false, false), (3, false, false), (64, true, false), (1, false, true), (5, true, true)] {
        let rd = FaultReader { data: &data, pos: 0, chunk, fail_at: k.min(data.len()), kind, one_shot, fired: false, tick: 0, interrupts };
        let route = ((chunk + k) % 3) as u8;
        let h = match (route, ign) {
            (0, true) => hist::<IgnoredAny>(rd, n, si),
            (0, false) => hist::<Value>(rd, n, sv),
            (r, true) => hist_route::<IgnoredAny>(rd, n, si, r),
            (r, false) => hist_route::<Value>(rd, n, sv, r),
        };
        // after the first error item only None items are compared (the one-shot reader differs from the persistent one only there if the latch is missing)
        outs.push(h);
    }
    if outs.iter().all(|s| *s == outs[0]) {
        outs[0].clone()
    } else {
        format!("SCHEDULE-DEPENDENT {}", outs.join(" | "))
    }
}

fn main() {
    std::panic::set_hook(Box::new(|_| {}));
    let args: Vec<String> = std::env::args().collect();
    let input: Box<dyn BufRead> = if args.len() > 1 {
        Box::new(io::BufReader::new(std::fs::File::open(&args[1]).expect("case file")))
    } else {
        Box::new(io::BufReader::new(io::stdin()))
    };
    let stdout = io::stdout();
    let mut out = io::BufWriter::new(stdout.lock());
    for line in input.lines() {
        let line = line.expect("line");
        let fields: Vec<&str> = line.split(' ').filter(|s| !s.is_empty()).collect();
        match catch_unwind(AssertUnwindSafe(|| dispatch(&fields))) {
            Ok(s) => writeln!(out, "{}", s).unwrap(),
            Err(_) => writeln!(out, "PANIC").unwrap(),
        }
    }
    out.flush().unwrap();
}
