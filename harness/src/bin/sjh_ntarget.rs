// sjh_ntarget — implementation side of the `serde_json::Number`-as-deserialization-target correspondence.
// Protocol: /verif/coq/theories/Extract/Driver_ntarget.v (model: /verif/coq/theories/Model/NumberTarget.v).
//
//   nt <cfg> <src> <hex>        serde_json::from_str / from_slice / from_reader ::<Number>      (src: s | b | r<k> | rx<seed>)
//   nv <cfg> <hex> [<ftab>]     v = from_slice::<Value>(text); from_value::<Number>(v.clone()) and Number::deserialize(&v)
//                               (the two must print the same line, otherwise "REF-MISMATCH <owned> ; <ref>"); <ftab> is ignored here
//   nvf <hex>                   the <ftab> of the document: "-" or <16 hex bits>=<hex ryu text>:<hex Display text>,... for the finite
//                               as_f64() of the Value's numbers (arbitrary_precision builds; "-" otherwise)
// answer:  ok <num> | err <code> <cat> <line> <col> <msgclass|-> | err Io io <kind> | parse-err (nv: the text is not a Value) | SKIP
// <cfg> is not interpreted here except for `u` (unbounded_depth + disable_recursion_limit): the build's features decide.
#![allow(clippy::all)]
#![allow(dead_code)]
#![allow(unused_imports)]

#[path = "../canon.rs"]
mod canon;
#[path = "../rw.rs"]
mod rw;

use canon::{cat_name, code_name, hex, kind_id, msg_class, show_number, unhex};
use rw::ChunkReader;
use serde::Deserialize;
use serde_json::de::Read as JRead;
use serde_json::{Number, Value};
use std::io::{BufRead, Write};
use std::panic::{catch_unwind, AssertUnwindSafe};

fn show_terr(e: &serde_json::Error) -> String {
    if e.is_io() {
        let k = e.io_error_kind().map(kind_id).unwrap_or(0);
        return format!("err Io io {}", k);
    }
    let cls = if e.is_data() { msg_class(e) } else { "-" };
    format!("err {} {} {} {} {}", code_name(e), cat_name(e), e.line(), e.column(), cls)
}

fn show_nres(r: Result<Number, serde_json::Error>) -> String {
    match r {
        Ok(n) => format!("ok {}", show_number(&n)),
        Err(e) => show_terr(&e),
    }
}

#[cfg(feature = "unbounded_depth")]
fn parse_unlimited<'de, R: JRead<'de>>(read: R) -> Result<Number, serde_json::Error> {
    let mut de = serde_json::Deserializer::new(read);
    de.disable_recursion_limit();
    let v = Number::deserialize(&mut de)?;
    de.end()?;
    Ok(v)
}

fn parse_src(cfg: &str, src: &str, data: &[u8]) -> Option<Result<Number, serde_json::Error>> {
    if cfg.contains('u') {
        #[cfg(feature = "unbounded_depth")]
        {
            return Some(if src.starts_with('s') {
                let s = std::str::from_utf8(data).ok()?;
                parse_unlimited(serde_json::de::StrRead::new(s))
            } else if src.starts_with('b') {
                parse_unlimited(serde_json::de::SliceRead::new(data))
            } else {
                parse_unlimited(serde_json::de::IoRead::new(ChunkReader::from_spec(data, src)))
            });
        }
        #[cfg(not(feature = "unbounded_depth"))]
        {
            return None;
        }
    }
    Some(if src.starts_with('s') {
        let s = std::str::from_utf8(data).ok()?;
        serde_json::from_str::<Number>(s)
    } else if src.starts_with('b') {
        serde_json::from_slice::<Number>(data)
    } else {
        serde_json::from_reader::<_, Number>(ChunkReader::from_spec(data, src))
    })
}

fn collect_floats(v: &Value, out: &mut Vec<f64>) {
    match v {
        Value::Number(n) => {
            if let Some(f) = n.as_f64() {
                if f.is_finite() {
                    out.push(f);
                }
            }
        }
        Value::Array(a) => {
            for x in a {
                collect_floats(x, out);
            }
        }
        Value::Object(m) => {
            for (_, x) in m {
                collect_floats(x, out);
            }
        }
        _ => {}
    }
}

fn ftab_of(v: &Value) -> String {
    let mut fs = vec![];
    collect_floats(v, &mut fs);
    let mut seen = std::collections::BTreeSet::new();
    let mut parts = vec![];
    for f in fs {
        if !seen.insert(f.to_bits()) {
            continue;
        }
        // Number::from_f64 formats with ryu::Buffer::format_finite in arbitrary_precision builds
        let ryu = match Number::from_f64(f) {
            Some(n) => n.to_string(),
            None => continue,
        };
        parts.push(format!("{:016x}={}:{}", f.to_bits(), hex(ryu.as_bytes()), hex(f.to_string().as_bytes())));
    }
    if parts.is_empty() {
        "-".into()
    } else {
        parts.join(",")
    }
}

fn dispatch(f: &[&str]) -> String {
    if f.is_empty() {
        return "BADCASE".into();
    }
    match f[0] {
        "nt" if f.len() == 4 => {
            let data = match unhex(f[3]) {
                Some(d) => d,
                None => return "BADCASE".into(),
            };
            match parse_src(f[1], f[2], &data) {
                Some(r) => show_nres(r),
                None => "SKIP".into(),
            }
        }
        "nv" if f.len() == 3 || f.len() == 4 => {
            let data = match unhex(f[2]) {
                Some(d) => d,
                None => return "BADCASE".into(),
            };
            let v: Value = match serde_json::from_slice(&data) {
                Ok(v) => v,
                Err(_) => return "parse-err".into(),
            };
            let by_ref = show_nres(Number::deserialize(&v));
            let owned = show_nres(serde_json::from_value::<Number>(v));
            if owned == by_ref {
                owned
            } else {
                format!("REF-MISMATCH {} ; {}", owned, by_ref)
            }
        }
        "nvf" if f.len() == 2 => {
            let data = match unhex(f[1]) {
                Some(d) => d,
                None => return "BADCASE".into(),
            };
            if !cfg!(feature = "arbitrary_precision") {
                return "-".into();
            }
            match serde_json::from_slice::<Value>(&data) {
                Ok(v) => ftab_of(&v),
                Err(_) => "-".into(),
            }
        }
        _ => "BADCASE".into(),
    }
}

fn features() -> String {
    let mut v = String::new();
    if cfg!(feature = "preserve_order") {
        v.push('p');
    }
    if cfg!(feature = "float_roundtrip") {
        v.push('f');
    }
    if cfg!(feature = "arbitrary_precision") {
        v.push('a');
    }
    if cfg!(feature = "raw_value") {
        v.push('r');
    }
    if cfg!(feature = "unbounded_depth") {
        v.push('U');
    }
    if v.is_empty() {
        v.push('-');
    }
    v
}

fn main() {
    let args: Vec<String> = std::env::args().collect();
    if args.len() > 1 && args[1] == "--features" {
        println!("{}", features());
        return;
    }
    std::panic::set_hook(Box::new(|_| {}));
    let stdin = std::io::stdin();
    let input: Box<dyn BufRead> = if args.len() > 1 {
        Box::new(std::io::BufReader::new(std::fs::File::open(&args[1]).expect("case file")))
    } else {
        Box::new(stdin.lock())
    };
    let stdout = std::io::stdout();
    let mut out = std::io::BufWriter::new(stdout.lock());
    for line in input.lines() {
        let line = line.expect("read line");
        let fields: Vec<&str> = line.split(' ').filter(|s| !s.is_empty()).collect();
        let r = catch_unwind(AssertUnwindSafe(|| dispatch(&fields)));
        match r {
            Ok(s) => writeln!(out, "{}", s).unwrap(),
            Err(_) => writeln!(out, "PANIC").unwrap(),
        }
    }
    out.flush().unwrap();
}
