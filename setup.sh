#!/bin/sh
# setup.sh — build the framework from files on disk only (offline): Coq development (full .vo build),
# extraction + OCaml drivers, Rust harness for every feature configuration.
set -e
cd "$(dirname "$0")"
export CARGO_NET_OFFLINE=true
tools/build_model.sh
python3 - <<'PY'
import sys
sys.path.insert(0, 'tools')
import engine
res = engine.build_harness(list(engine.CONFIGS))
bad = [c for c, (ok, out) in res.items() if not ok]
for c in bad:
    print(res[c][1][-2000:])
print('harness configs built:', [c for c in res if c not in bad], 'failed:', bad)
sys.exit(1 if bad else 0)
PY
echo SETUP-OK
