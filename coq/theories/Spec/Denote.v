(* Spec/Denote.v — the abstract value a well-formed text denotes, and the language InLang.
   Number literals: [num_den] gives the meaning of one literal standing alone (computed by the number
   model on the literal in isolation); its arithmetic content is characterised separately
   (integers exact: C06; float_roundtrip = nearest-even: C07; default build: C08; arbitrary_precision = the literal: C20). *)
From SJ Require Import Base.Bytes Base.Utf8 Base.FloatB Model.Read Model.Num Model.Value Model.De Spec.Syntax.
Open Scope N_scope.

Definition env0 (c : cfg) : env := mkEnv RSlice TEof c.

(* the literal without its sign *)
Definition render_abs (n : numlit) : bytes := render_num (mkNum false (nint n) (nfrac n) (nexp n)).

Definition num_den (c : cfg) (n : numlit) : option value :=
  match parse_any_number (env0 c) (negb (nneg n)) (init_st (render_abs n)) with
  | Ok (p, _) => Some (visit_number_cfg (env0 c) p)
  | _ => None
  end.

Fixpoint sequence {A} (l : list (option A)) : option (list A) :=
  match l with
  | [] => Some []
  | None :: _ => None
  | Some a :: r => option_map (cons a) (sequence r)
  end.

Fixpoint denote (cf : cfg) (c : cst) : option value :=
  match c with
  | CNull => Some VNull
  | CTrue => Some (VBool true)
  | CFalse => Some (VBool false)
  | CNum n => num_den cf n
  | CStr s => option_map VStr (str_text s)
  | CArr _ es => option_map VArr (denote_elems cf es)
  | CObj _ ms => option_map (fun l => VObj (map_of_entries (preserve_order cf) l)) (denote_members cf ms)
  end
with denote_elems (cf : cfg) (es : elems) : option (list value) :=
  match es with
  | ENil => Some []
  | ECons _ c _ rest =>
    match denote cf c, denote_elems cf rest with
    | Some v, Some vs => Some (v :: vs)
    | _, _ => None
    end
  end
with denote_members (cf : cfg) (ms : members) : option (list (bytes * value)) :=
  match ms with
  | MNil => Some []
  | MCons _ k _ _ c _ rest =>
    match str_text k, denote cf c, denote_members cf rest with
    | Some kb, Some v, Some vs => Some ((kb, v) :: vs)
    | _, _, _ => None
    end
  end.

(* exactly one RFC 8259 JSON text surrounded by optional whitespace, whose strings are UTF-8 with paired
   surrogates, whose numbers are in range (denote is defined), nested at most 127 deep unless the limit is off *)
Definition InLang (cf : cfg) (bs : bytes) : Prop :=
  exists w1 c w2,
    bs = w1 ++ render c ++ w2 /\ ws_ok w1 = true /\ ws_ok w2 = true /\ wfb c = true
    /\ (exists v, denote cf c = Some v)
    /\ (limit_disabled cf = false -> (cdepth c <= 127)%nat).

Definition Denotes (cf : cfg) (bs : bytes) (v : value) : Prop :=
  exists w1 c w2,
    bs = w1 ++ render c ++ w2 /\ ws_ok w1 = true /\ ws_ok w2 = true /\ wfb c = true
    /\ denote cf c = Some v
    /\ (limit_disabled cf = false -> (cdepth c <= 127)%nat).
