(* Spec/Syntax.v — RFC 8259 as a PRINTER: concrete syntax trees, [render], well-formedness.
   The JSON language is the image of [render] on well-formed trees.  Nothing here mentions the
   implementation or the generated tables: constants are those of the RFC. *)
From SJ Require Import Base.Bytes Base.Utf8.
Open Scope N_scope.

Definition ws_byte (b : byte) : bool := (b =? 32) || (b =? 9) || (b =? 10) || (b =? 13).
Definition ws_ok (w : bytes) : bool := forallb ws_byte w.

(* one piece of a string literal *)
Inductive strpiece :=
  | PRaw (b : byte)                  (* an unescaped byte: not a quote, not a backslash, >= 0x20 *)
  | PEsc (c : byte)                  (* backslash followed by one of: quote backslash / b f n r t  (c is that letter) *)
  | PU4 (h1 h2 h3 h4 : byte).        (* backslash u XXXX, four hex digits of either case *)

Record numlit := mkNum {
  nneg : bool;
  nint : bytes;                                   (* "0" or [1-9][0-9]* *)
  nfrac : option bytes;                           (* digits after '.', at least one *)
  nexp : option (byte * option byte * bytes)      (* e|E, optional sign, digits (at least one) *)
}.

Inductive cst :=
  | CNull | CTrue | CFalse
  | CNum (n : numlit)
  | CStr (s : list strpiece)
  | CArr (w : bytes) (es : elems)        (* w: the whitespace of an empty array "[ w ]" *)
  | CObj (w : bytes) (ms : members)
with elems :=
  | ENil
  | ECons (w1 : bytes) (c : cst) (w2 : bytes) (rest : elems)
with members :=
  | MNil
  | MCons (w1 : bytes) (k : list strpiece) (w2 w3 : bytes) (c : cst) (w4 : bytes) (rest : members).

Scheme cst_mut := Induction for cst Sort Prop
  with elems_mut := Induction for elems Sort Prop
  with members_mut := Induction for members Sort Prop.
Combined Scheme cst_elems_members_ind from cst_mut, elems_mut, members_mut.

(* ---- printer ---------------------------------------------------------------------------- *)
Definition render_piece (p : strpiece) : bytes :=
  match p with
  | PRaw b => [b]
  | PEsc c => [92; c]
  | PU4 a b c d => [92; 117; a; b; c; d]
  end.
Definition render_str (s : list strpiece) : bytes := 34 :: flat_map render_piece s ++ [34].

Definition render_num (n : numlit) : bytes :=
  (if nneg n then [45] else []) ++ nint n
  ++ (match nfrac n with Some f => 46 :: f | None => [] end)
  ++ (match nexp n with
      | Some (e, sg, ds) => e :: (match sg with Some c => [c] | None => [] end) ++ ds
      | None => []
      end).

Fixpoint render (c : cst) : bytes :=
  match c with
  | CNull => [110; 117; 108; 108]
  | CTrue => [116; 114; 117; 101]
  | CFalse => [102; 97; 108; 115; 101]
  | CNum n => render_num n
  | CStr s => render_str s
  | CArr w ENil => 91 :: w ++ [93]
  | CArr _ es => 91 :: render_elems es ++ [93]
  | CObj w MNil => 123 :: w ++ [125]
  | CObj _ ms => 123 :: render_members ms ++ [125]
  end
with render_elems (es : elems) : bytes :=
  match es with
  | ENil => []
  | ECons w1 c w2 ENil => w1 ++ render c ++ w2
  | ECons w1 c w2 rest => w1 ++ render c ++ w2 ++ 44 :: render_elems rest
  end
with render_members (ms : members) : bytes :=
  match ms with
  | MNil => []
  | MCons w1 k w2 w3 c w4 MNil => w1 ++ render_str k ++ w2 ++ 58 :: w3 ++ render c ++ w4
  | MCons w1 k w2 w3 c w4 rest => w1 ++ render_str k ++ w2 ++ 58 :: w3 ++ render c ++ w4 ++ 44 :: render_members rest
  end.

(* ---- well-formedness (boolean) -------------------------------------------------------------- *)
Definition hex_byte (b : byte) : bool :=
  ((48 <=? b) && (b <=? 57)) || ((65 <=? b) && (b <=? 70)) || ((97 <=? b) && (b <=? 102)).
Definition esc_letter (c : byte) : bool :=
  (c =? 34) || (c =? 92) || (c =? 47) || (c =? 98) || (c =? 102) || (c =? 110) || (c =? 114) || (c =? 116).

Definition piece_ok (p : strpiece) : bool :=
  match p with
  | PRaw b => negb (b =? 34) && negb (b =? 92) && (32 <=? b) && (b <? 256)
  | PEsc c => esc_letter c
  | PU4 a b c d => hex_byte a && hex_byte b && hex_byte c && hex_byte d
  end.
Definition str_ok (s : list strpiece) : bool := forallb piece_ok s.

Definition digits_ok (l : bytes) : bool := match l with [] => false | _ => forallb is_digit l end.
Definition int_ok (l : bytes) : bool :=
  match l with
  | [48] => true
  | d :: r => is_digit19 d && forallb is_digit r
  | [] => false
  end.
Definition num_ok (n : numlit) : bool :=
  int_ok (nint n)
  && (match nfrac n with Some f => digits_ok f | None => true end)
  && (match nexp n with
      | Some (e, sg, ds) => ((e =? 101) || (e =? 69))
                            && (match sg with Some c => (c =? 43) || (c =? 45) | None => true end)
                            && digits_ok ds
      | None => true
      end).

Fixpoint wfb (c : cst) : bool :=
  match c with
  | CNull | CTrue | CFalse => true
  | CNum n => num_ok n
  | CStr s => str_ok s
  | CArr w es => ws_ok w && wfb_elems es
  | CObj w ms => ws_ok w && wfb_members ms
  end
with wfb_elems (es : elems) : bool :=
  match es with
  | ENil => true
  | ECons w1 c w2 rest => ws_ok w1 && wfb c && ws_ok w2 && wfb_elems rest
  end
with wfb_members (ms : members) : bool :=
  match ms with
  | MNil => true
  | MCons w1 k w2 w3 c w4 rest =>
    ws_ok w1 && str_ok k && ws_ok w2 && ws_ok w3 && wfb c && ws_ok w4 && wfb_members rest
  end.

(* nesting depth: number of containers on the deepest path *)
Fixpoint cdepth (c : cst) : nat :=
  match c with
  | CArr _ es => S (cdepth_elems es)
  | CObj _ ms => S (cdepth_members ms)
  | _ => O
  end
with cdepth_elems (es : elems) : nat :=
  match es with ENil => O | ECons _ c _ rest => Nat.max (cdepth c) (cdepth_elems rest) end
with cdepth_members (ms : members) : nat :=
  match ms with MNil => O | MCons _ _ _ _ c _ rest => Nat.max (cdepth c) (cdepth_members rest) end.

(* ---- string contents (RFC 8259 section 7) ------------------------------------------------------ *)
Definition hexv (b : byte) : N :=
  if b <=? 57 then b - 48 else if b <=? 70 then b - 55 else b - 87.
Definition u4_val (a b c d : byte) : N := ((hexv a * 16 + hexv b) * 16 + hexv c) * 16 + hexv d.
Definition esc_val (c : byte) : byte :=
  if c =? 98 then 8 else if c =? 102 then 12 else if c =? 110 then 10
  else if c =? 114 then 13 else if c =? 116 then 9 else c.

Definition is_hi_surr (n : N) : bool := (55296 <=? n) && (n <=? 56319).
Definition is_lo_surr (n : N) : bool := (56320 <=? n) && (n <=? 57343).

(* decoded contents of a string literal; None when a \u surrogate is not correctly paired *)
Fixpoint str_decode (s : list strpiece) : option bytes :=
  match s with
  | [] => Some []
  | PRaw b :: r => option_map (cons b) (str_decode r)
  | PEsc c :: r => option_map (cons (esc_val c)) (str_decode r)
  | PU4 a b c d :: r =>
    let n := u4_val a b c d in
    if is_lo_surr n then None
    else if is_hi_surr n then
      match r with
      | PU4 a' b' c' d' :: r' =>
        let n2 := u4_val a' b' c' d' in
        if is_lo_surr n2 then
          option_map (app (utf8_encode ((n - 55296) * 1024 + (n2 - 56320) + 65536))) (str_decode r')
        else None
      | _ => None
      end
    else option_map (app (utf8_encode n)) (str_decode r)
  end.

(* a string literal is acceptable as text when its surrogates pair and the decoded bytes are UTF-8 *)
Definition str_text (s : list strpiece) : option bytes :=
  match str_decode s with
  | Some b => if utf8_valid b then Some b else None
  | None => None
  end.
