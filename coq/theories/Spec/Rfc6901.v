(* Spec/Rfc6901.v — JSON Pointer (RFC 6901) as a reference evaluator over [value], written from the RFC text,
   independently of how src/value/mod.rs does it.

   §3  json-pointer    = *( "/" reference-token )
       reference-token = *( unescaped / escaped )        escaped = "~" ( "0" / "1" )
       (a "~" that is not followed by 0 or 1 is not valid RFC syntax; serde_json takes it literally, and so does this
        evaluator — that choice is part of property C18)
   §4  evaluation: each reference token is unescaped "by first transforming any occurrence of the sequence '~1' to '/',
       and then transforming any occurrence of the sequence '~0' to '~'", which the RFC words so as "to avoid the error of
       turning '~01' first into '~1' and then into '/'"; the intended result is ONE left-to-right pass, below.
       object: the member whose name equals the unescaped token;
       array:  array-index = %x30 / ( %x31-39 *(%x30-39) )  — "0", or digits without a leading "0" — selecting the
               element with that zero-based index; "-" (the nonexistent element after the last one) and everything else is
               an error here (= no value).
   A pointer that is neither empty nor begins with "/" is not a JSON Pointer: no value. *)
From SJ Require Import Base.Bytes Model.Value.
Open Scope N_scope.

(* one left-to-right pass: ~1 -> "/", ~0 -> "~", any other "~" stays *)
Fixpoint unescape (t : bytes) : bytes :=
  match t with
  | [] => []
  | 126 :: 49 :: r => 47 :: unescape r
  | 126 :: 48 :: r => 126 :: unescape r
  | c :: r => c :: unescape r
  end.

(* the reference tokens of "/" tok "/" tok ... : [cur] is the token being read, reversed *)
Fixpoint tokens_from (cur : bytes) (s : bytes) : list bytes :=
  match s with
  | [] => [rev cur]
  | c :: r => if c =? 47 then rev cur :: tokens_from [] r else tokens_from (c :: cur) r
  end.
Definition reference_tokens (p : bytes) : option (list bytes) :=
  match p with
  | [] => Some []
  | c :: r => if c =? 47 then Some (tokens_from [] r) else None
  end.

(* array-index: the number denoted, if the token matches the array-index production *)
Definition decimal_value (s : bytes) : N := fold_left (fun acc c => acc * 10 + (c - 48)) s 0.
Definition array_index (t : bytes) : option N :=
  match t with
  | [] => None
  | c :: r =>
    if (c =? 48) && (match r with [] => true | _ => false end) then Some 0             (* "0" *)
    else if is_digit19 c && forallb is_digit r then Some (decimal_value t)             (* %x31-39 *(%x30-39) *)
    else None
  end.

Definition member (name : bytes) (m : list (bytes * value)) : option value :=
  option_map snd (find (fun kv => beq_bytes (fst kv) name) m).

Definition eval_token (v : value) (tok : bytes) : option value :=
  match v with
  | VObj m => member tok m
  | VArr l => match array_index tok with
              | Some i => if i <? N.of_nat (length l) then nth_error l (N.to_nat i) else None
              | None => None
              end
  | _ => None
  end.

Fixpoint eval_tokens (v : value) (toks : list bytes) : option value :=
  match toks with
  | [] => Some v
  | t :: r => match eval_token v (unescape t) with
              | Some c => eval_tokens c r
              | None => None
              end
  end.

Definition rfc6901_eval (v : value) (p : bytes) : option value :=
  match reference_tokens p with
  | Some toks => eval_tokens v toks
  | None => None
  end.
