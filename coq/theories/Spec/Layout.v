(* Spec/Layout.v — what the serialiser has to produce, independently of how it does it:
     - [nows]    : a CST without any insignificant whitespace (compact output is [render] of such a tree);
     - [layout]  : the pretty layout of a CST as a pure recursive printer: one element per line, depth x indent,
                   ": " after keys, empty containers as [] and {} (the whitespace fields of the CST are ignored:
                   it is the same token stream laid out differently);
     - [relayout]: the same layout expressed by filling in the whitespace fields (so that, for a whitespace indent,
                   pretty output is again [render] of a well-formed CST with the same denotation);
     - [wfs]     : well-formed call trees (what the Rust types and the serde contract guarantee);
     - [image]   : the data-model image of a call tree as a Value: non-finite floats -> null, bytes -> array of numbers,
                   variants externally tagged, scalar map keys as their text, duplicate keys resolved by map insertion
                   (last value wins), char -> its UTF-8 string, unit/None -> null, newtype/Some -> the inner value.
                   Numbers are "the number their text denotes" ([num_image]): the text of an integer is its minimal
                   decimal spelling; the text of a float is ryu's (a parameter). *)
From SJ Require Import Base.Bytes Base.Utf8 Base.FloatB Model.Read Model.Num Model.Value Model.De Model.Sval
  Spec.Syntax Spec.Denote.
Open Scope N_scope.

(* ---- no insignificant whitespace ------------------------------------------------------------ *)
Definition emptyb (w : bytes) : bool := match w with [] => true | _ => false end.

Fixpoint nows (c : cst) : bool :=
  match c with
  | CArr w es => emptyb w && nows_elems es
  | CObj w ms => emptyb w && nows_members ms
  | _ => true
  end
with nows_elems (es : elems) : bool :=
  match es with
  | ENil => true
  | ECons w1 c w2 rest => emptyb w1 && nows c && emptyb w2 && nows_elems rest
  end
with nows_members (ms : members) : bool :=
  match ms with
  | MNil => true
  | MCons w1 _ w2 w3 c w4 rest => emptyb w1 && emptyb w2 && emptyb w3 && nows c && emptyb w4 && nows_members rest
  end.

(* ---- the pretty layout ----------------------------------------------------------------------- *)
Definition rep (ind : bytes) (d : nat) : bytes := concat (repeat ind d).
Definition nl (ind : bytes) (d : nat) : bytes := 10 :: rep ind d.          (* line break and d indents *)

Fixpoint layout (ind : bytes) (d : nat) (c : cst) : bytes :=
  match c with
  | CArr _ ENil => [91; 93]
  | CArr _ es => 91 :: layout_elems ind (S d) es ++ nl ind d ++ [93]
  | CObj _ MNil => [123; 125]
  | CObj _ ms => 123 :: layout_members ind (S d) ms ++ nl ind d ++ [125]
  | _ => render c
  end
with layout_elems (ind : bytes) (d : nat) (es : elems) : bytes :=
  match es with
  | ENil => []
  | ECons _ c _ ENil => nl ind d ++ layout ind d c
  | ECons _ c _ rest => nl ind d ++ layout ind d c ++ 44 :: layout_elems ind d rest
  end
with layout_members (ind : bytes) (d : nat) (ms : members) : bytes :=
  match ms with
  | MNil => []
  | MCons _ k _ _ c _ MNil => nl ind d ++ render_str k ++ [58; 32] ++ layout ind d c
  | MCons _ k _ _ c _ rest => nl ind d ++ render_str k ++ [58; 32] ++ layout ind d c ++ 44 :: layout_members ind d rest
  end.

(* the same layout as a choice of whitespace fields *)
Fixpoint relayout (ind : bytes) (d : nat) (c : cst) : cst :=
  match c with
  | CArr _ es => CArr [] (relayout_elems ind (S d) es)
  | CObj _ ms => CObj [] (relayout_members ind (S d) ms)
  | _ => c
  end
with relayout_elems (ind : bytes) (d : nat) (es : elems) : elems :=
  match es with
  | ENil => ENil
  | ECons _ c _ rest =>
    ECons (nl ind d) (relayout ind d c) (match rest with ENil => nl ind (pred d) | _ => [] end) (relayout_elems ind d rest)
  end
with relayout_members (ind : bytes) (d : nat) (ms : members) : members :=
  match ms with
  | MNil => MNil
  | MCons _ k _ _ c _ rest =>
    MCons (nl ind d) k [] [32] (relayout ind d c) (match rest with MNil => nl ind (pred d) | _ => [] end) (relayout_members ind d rest)
  end.

(* ---- number texts ---------------------------------------------------------------------------- *)
Definition take_digits (l : bytes) : bytes * bytes :=
  (firstn (span_len is_digit l) l, skipn (span_len is_digit l) l).

(* split a text along the RFC 8259 number production; None if something is left over *)
Definition numlit_of_text (t : bytes) : option numlit :=
  let '(neg, t1) := match t with 45 :: r => (true, r) | _ => (false, t) end in
  let '(ip, t2) := take_digits t1 in
  let '(fr, t3) := match t2 with
                   | 46 :: r => let '(f, r') := take_digits r in (Some f, r')
                   | _ => (None, t2)
                   end in
  let '(ex, t4) := match t3 with
                   | e :: r =>
                     if (e =? 101) || (e =? 69) then
                       let '(sg, r1) := match r with
                                        | 43 :: r' => (Some 43, r')
                                        | 45 :: r' => (Some 45, r')
                                        | _ => (None, r)
                                        end in
                       let '(ds, r2) := take_digits r1 in (Some (e, sg, ds), r2)
                     else (None, t3)
                   | [] => (None, t3)
                   end in
  match t4 with [] => Some (mkNum neg ip fr ex) | _ :: _ => None end.

(* the text is a JSON number *)
Definition number_text_ok (t : bytes) : bool :=
  match numlit_of_text t with Some n => num_ok n | None => false end.
(* ... that re-parses as a float: it has a fraction or an exponent *)
Definition float_text_ok (t : bytes) : bool :=
  match numlit_of_text t with
  | Some n => num_ok n && (match nfrac n, nexp n with None, None => false | _, _ => true end)
  | None => false
  end.

(* f64 / f32 finiteness on bit patterns (the same functions as the model's, restated: exponent field not all ones) *)
Definition finite64 (b : N) : bool := negb ((b / 4503599627370496) mod 2048 =? 2047).
Definition finite32 (b : N) : bool := negb ((b / 8388608) mod 256 =? 255).

(* ---- well-formed call trees ------------------------------------------------------------------- *)
Definition hint_ok (h : option nat) (n : nat) : bool := match h with None => true | Some k => Nat.eqb k n end.
Definition is_byte (b : N) : bool := b <? 256.

Fixpoint wfs (v : sval) : bool :=
  match v with
  | SBool _ => true
  | SInt ty z => int_in_range ty z
  | SF32 b => b <? 4294967296
  | SF64 b => b <? 18446744073709551616
  | SChar c => is_scalar c
  | SStr s => utf8_valid s
  | SBytes s => forallb is_byte s
  | SNone | SUnit | SUnitStruct => true
  | SSome v => wfs v
  | SUnitVariant n => utf8_valid n
  | SNewtypeStruct v => wfs v
  | SNewtypeVariant n v => utf8_valid n && wfs v
  | SSeq h es => hint_ok h (length es) && forallb wfs es
  | STuple es => forallb wfs es
  | STupleStruct es => forallb wfs es
  | STupleVariant n es => utf8_valid n && forallb wfs es
  | SMap h kvs => hint_ok h (length kvs) && forallb (fun kv => wfs (fst kv) && wfs (snd kv)) kvs
  | SStruct fs => forallb (fun kv => utf8_valid (fst kv) && wfs (snd kv)) fs
  | SStructVariant n fs => utf8_valid n && forallb (fun kv => utf8_valid (fst kv) && wfs (snd kv)) fs
  | SCollectStr cs => forallb utf8_valid cs
  | SNumLit l => number_text_ok l
  end.

(* ---- which call trees are serialisable: every map key is a string, a string-like call, or a finite scalar ------------- *)
Fixpoint key_ok (k : sval) : bool :=
  match k with
  | SStr _ | SUnitVariant _ | SChar _ | SCollectStr _ | SBool _ | SInt _ _ => true
  | SF32 b => finite32 b
  | SF64 b => finite64 b
  | SSome v => key_ok v
  | SNewtypeStruct v => key_ok v
  | _ => false
  end.

Fixpoint serialisable (v : sval) : bool :=
  match v with
  | SSome v => serialisable v
  | SNewtypeStruct v => serialisable v
  | SNewtypeVariant _ v => serialisable v
  | SSeq _ es => forallb serialisable es
  | STuple es => forallb serialisable es
  | STupleStruct es => forallb serialisable es
  | STupleVariant _ es => forallb serialisable es
  | SMap _ kvs => forallb (fun kv => key_ok (fst kv) && serialisable (snd kv)) kvs
  | SStruct fs => forallb (fun kv => serialisable (snd kv)) fs
  | SStructVariant _ fs => forallb (fun kv => serialisable (snd kv)) fs
  | _ => true
  end.

(* what the theorems need of ryu (H1): the text of a finite float is an RFC 8259 number *)
Definition ryu_json (fmt32 fmt64 : N -> bytes) : Prop :=
  (forall b, finite32 b = true -> number_text_ok (fmt32 b) = true)
  /\ (forall b, finite64 b = true -> number_text_ok (fmt64 b) = true).

(* ---- the data-model image --------------------------------------------------------------------- *)
Definition NUMBER_TOKEN_TEXT : bytes :=
  [36;115;101;114;100;101;95;106;115;111;110;58;58;112;114;105;118;97;116;101;58;58;78;117;109;98;101;114].

Definition itoa_text (z : Z) : bytes := if (z <? 0)%Z then 45 :: itoa (Z.to_N (- z)) else itoa (Z.to_N z).

Section Image.
  Variable cf : cfg.
  Variable fmt32 fmt64 : N -> bytes.      (* the float texts *)

  (* the Value a number text denotes on its own *)
  Definition num_image (t : bytes) : option value :=
    match numlit_of_text t with Some n => num_den cf n | None => None end.

  Definition obj_of (es : list (bytes * value)) : value := VObj (map_of_entries (preserve_order cf) es).

  (* map keys: strings and string-like calls as they are, the other scalars as their text; None = not a valid key *)
  Fixpoint key_text (k : sval) : option bytes :=
    match k with
    | SStr s => Some s
    | SUnitVariant n => Some n
    | SChar c => Some (utf8_encode c)
    | SCollectStr cs => Some (concat cs)
    | SBool b => Some (if b then [116; 114; 117; 101] else [102; 97; 108; 115; 101])
    | SInt _ z => Some (itoa_text z)
    | SF32 b => if finite32 b then Some (fmt32 b) else None
    | SF64 b => if finite64 b then Some (fmt64 b) else None
    | SSome v => key_text v
    | SNewtypeStruct v => key_text v
    | _ => None
    end.

  Definition pair_opt {A B} (a : option A) (b : option B) : option (A * B) :=
    match a, b with Some x, Some y => Some (x, y) | _, _ => None end.

  Fixpoint image (v : sval) : option value :=
    match v with
    | SBool b => Some (VBool b)
    | SInt _ z => num_image (itoa_text z)
    | SF32 b => if finite32 b then num_image (fmt32 b) else Some VNull
    | SF64 b => if finite64 b then num_image (fmt64 b) else Some VNull
    | SChar c => Some (VStr (utf8_encode c))
    | SStr s => Some (VStr s)
    | SBytes s => option_map VArr (sequence (map (fun b => num_image (itoa_text (Z.of_N b))) s))
    | SNone | SUnit | SUnitStruct => Some VNull
    | SSome v => image v
    | SUnitVariant n => Some (VStr n)
    | SNewtypeStruct v => image v
    | SNewtypeVariant n v => option_map (fun x => obj_of [(n, x)]) (image v)
    | SSeq _ es => option_map VArr (sequence (map image es))
    | STuple es => option_map VArr (sequence (map image es))
    | STupleStruct es => option_map VArr (sequence (map image es))
    | STupleVariant n es => option_map (fun xs => obj_of [(n, VArr xs)]) (sequence (map image es))
    | SMap _ kvs => option_map obj_of (sequence (map (fun kv => pair_opt (key_text (fst kv)) (image (snd kv))) kvs))
    | SStruct fs => option_map obj_of (sequence (map (fun kv => pair_opt (Some (fst kv)) (image (snd kv))) fs))
    | SStructVariant n fs =>
      option_map (fun m => obj_of [(n, obj_of m)]) (sequence (map (fun kv => pair_opt (Some (fst kv)) (image (snd kv))) fs))
    | SCollectStr cs => Some (VStr (concat cs))
    | SNumLit l =>
      if arbitrary_precision cf then num_image l
      else Some (obj_of [(NUMBER_TOKEN_TEXT, VStr l)])
    end.
End Image.
