(* Spec/Dict.v — the reference dictionary of property C17.

   Part 1: the simplest possible dictionary: an association list, lookups return the first match,
           insertion puts the new binding in front after deleting every old one.  Equality of
           dictionaries is extensional ([dict_eq]: same answer to every lookup) and therefore order-free.
   Part 2: what "iteration order" is supposed to be, stated on key sequences only:
           [ascending] (default configuration) and the insertion-order discipline with the documented
           swap / shift effects (preserve_order).
   Part 3: the vocabulary of operations of `serde_json::Map<String, Value>` (one constructor per public
           method of src/map.rs, or per way of using the entry API) and what each of them has to return /
           do to the CONTENTS, expressed with Part 1 only ([ref_step]), and to the ORDER, expressed with
           Part 2 only ([ord_step]).
   Part 4: vocabulary for the statements about Value: well-formed values, "the same value with object entries
           written in another order" ([vperm]), "every object ascending at every depth" ([all_sorted]).
   Definitions only; no lemma here. *)
From SJ Require Import Base.Bytes Base.FloatB Model.Value.
From Coq Require Import Sorting.Permutation Sorting.Sorted.
From Flocq Require Import Core BinarySingleNaN.
Open Scope N_scope.

(* ------------------------------------------------------------------ Part 1: dictionary *)
Definition dict (V : Type) := list (bytes * V).

Fixpoint dict_get {V} (k : bytes) (d : dict V) : option V :=
  match d with
  | [] => None
  | (k', v) :: d' => if beq_bytes k k' then Some v else dict_get k d'
  end.

Definition dict_mem {V} (k : bytes) (d : dict V) : bool :=
  match dict_get k d with Some _ => true | None => false end.

Definition dict_remove {V} (k : bytes) (d : dict V) : dict V :=
  filter (fun e => negb (beq_bytes k (fst e))) d.

Definition dict_insert {V} (k : bytes) (v : V) (d : dict V) : dict V :=
  (k, v) :: dict_remove k d.

Definition dict_size {V} (d : dict V) : nat := length d.

(* no key bound twice *)
Definition dict_wf {V} (d : dict V) : Prop := NoDup (map fst d).

(* order-free equality *)
Definition dict_eq {V} (d1 d2 : dict V) : Prop := forall k, dict_get k d1 = dict_get k d2.

(* keep the bindings satisfying f / rewrite every bound value *)
Definition dict_filter {V} (f : bytes -> V -> bool) (d : dict V) : dict V :=
  filter (fun e => f (fst e) (snd e)) d.
Definition dict_map {V} (g : bytes -> V -> V) (d : dict V) : dict V :=
  map (fun e => (fst e, g (fst e) (snd e))) d.
Definition dict_insert_all {V} (es : list (bytes * V)) (d : dict V) : dict V :=
  fold_left (fun acc e => dict_insert (fst e) (snd e) acc) es d.

(* ------------------------------------------------------------------ Part 2: order *)
Definition bytes_lt (a b : bytes) : Prop := bytes_ltb a b = true.

(* strictly ascending: every element is below every later one *)
Definition ascending (ks : list bytes) : Prop := StronglySorted bytes_lt ks.

Definition key_mem (k : bytes) (ks : list bytes) : bool := existsb (beq_bytes k) ks.

(* insert: an existing key keeps its slot, a new key goes to the end *)
Definition ord_insert (k : bytes) (ks : list bytes) : list bytes :=
  if key_mem k ks then ks else ks ++ [k].

(* shift removal: the others keep their relative order *)
Definition ord_shift_remove (k : bytes) (ks : list bytes) : list bytes :=
  filter (fun x => negb (beq_bytes k x)) ks.

(* swap removal: the LAST key moves into the hole (nothing else moves) *)
Fixpoint ord_swap_remove (k : bytes) (ks : list bytes) : list bytes :=
  match ks with
  | [] => []
  | x :: r =>
    if beq_bytes k x then
      match r with
      | [] => []
      | _ :: _ => last r x :: removelast r
      end
    else x :: ord_swap_remove k r
  end.

(* shift_insert: the key ends up at position i; all other keys keep their relative order.
   Defined when i <= number of OTHER keys (indexmap panics otherwise). *)
Definition ord_shift_insert_ok (i : nat) (k : bytes) (ks : list bytes) : bool :=
  Nat.leb i (length (ord_shift_remove k ks)).
Definition ord_shift_insert (i : nat) (k : bytes) (ks : list bytes) : list bytes :=
  let others := ord_shift_remove k ks in firstn i others ++ k :: skipn i others.

(* sort_keys: the ascending arrangement of the same keys (insertion sort) *)
Fixpoint ord_sort_ins (k : bytes) (ks : list bytes) : list bytes :=
  match ks with
  | [] => [k]
  | x :: r => if bytes_ltb x k then x :: ord_sort_ins k r else k :: x :: r
  end.
Definition ord_sort (ks : list bytes) : list bytes := fold_right ord_sort_ins [] ks.

Definition ord_insert_all (ks' ks : list bytes) : list bytes :=
  fold_left (fun acc k => ord_insert k acc) ks' ks.

(* ------------------------------------------------------------------ Part 3: operations *)
(* what the caller does with an OccupiedEntry / a VacantEntry *)
Inductive occ_act :=
  | OaGet                               (* key(), get() *)
  | OaModify (g : value -> value)       (* *get_mut() = g(..)  /  *into_mut() = g(..) ; observes the old value *)
  | OaInsert (v : value)                (* insert(v) -> old value *)
  | OaRemove | OaSwapRemove | OaShiftRemove                   (* -> value *)
  | OaRemoveEntry | OaSwapRemoveEntry | OaShiftRemoveEntry.   (* -> (key, value) *)
Inductive vac_act :=
  | VaKey                               (* key() only; entry dropped *)
  | VaInsert (v : value).               (* insert(v) -> &mut value *)

Inductive op :=
  | Clear
  | Get (k : bytes) | ContainsKey (k : bytes) | GetKeyValue (k : bytes)
  | GetMut (k : bytes) (g : value -> value)        (* if let Some(x) = get_mut(k) { *x = g(x) } *)
  | Insert (k : bytes) (v : value)
  | ShiftInsert (i : nat) (k : bytes) (v : value)  (* preserve_order only *)
  | Remove (k : bytes) | RemoveEntry (k : bytes)
  | SwapRemove (k : bytes) | SwapRemoveEntry (k : bytes)      (* preserve_order only *)
  | ShiftRemove (k : bytes) | ShiftRemoveEntry (k : bytes)    (* preserve_order only *)
  | Append (es : list (bytes * value))             (* other = es.collect(); self.append(&mut other) *)
  | Extend (es : list (bytes * value))
  | FromIter (es : list (bytes * value))           (* self = es.into_iter().collect() *)
  | EntryKey (k : bytes)                           (* entry(k).key() *)
  | EntryOrInsert (k : bytes) (v : value)
  | EntryOrInsertWith (k : bytes) (v : value)      (* observes whether the closure ran *)
  | EntryAndModify (k : bytes) (g : value -> value)
  | EntryAndModifyOrInsert (k : bytes) (g : value -> value) (v : value)
  | EntryMatch (k : bytes) (va : vac_act) (oa : occ_act)
  | Len | IsEmpty
  | Iter | IterRev | Keys | KeysRev | Values | ValuesRev | IntoIter | IntoValues
  | IterMut (g : bytes -> value -> value)          (* for (k, v) in map.iter_mut() { *v = g(k, v) } *)
  | ValuesMut (g : value -> value)
  | Retain (f : bytes -> value -> bool)            (* observes the keys in the order the predicate sees them *)
  | SortKeys
  | Index (k : bytes)                              (* map[k] *)
  | IndexMut (k : bytes) (v : value).              (* map[k] = v *)

Inductive obs :=
  | ONa                                 (* the method does not exist in this configuration *)
  | OPanic
  | OUnit
  | OBool (b : bool)
  | ONat (n : nat)
  | OVal (v : value)
  | OOptV (o : option value)
  | OKV (kv : bytes * value)
  | OOptKV (o : option (bytes * value))
  | OEntries (l : list (bytes * value))
  | OKeys (l : list bytes)
  | OVals (l : list value)
  | OCalled (called : bool) (v : value)
  | OEntry (occupied : bool) (k : bytes) (r : obs).

Definition occ_avail (po : bool) (a : occ_act) : bool :=
  match a with
  | OaSwapRemove | OaShiftRemove | OaSwapRemoveEntry | OaShiftRemoveEntry => po
  | _ => true
  end.
Definition avail (po : bool) (o : op) : bool :=
  match o with
  | ShiftInsert _ _ _ | SwapRemove _ | SwapRemoveEntry _ | ShiftRemove _ | ShiftRemoveEntry _ => po
  | EntryMatch _ _ oa => occ_avail po oa
  | _ => true
  end.

(* observations that list entries are only determined up to order by the dictionary *)
Inductive obs_agree : obs -> obs -> Prop :=
  | oa_same o : obs_agree o o
  | oa_entries l l' : Permutation l l' -> obs_agree (OEntries l) (OEntries l')
  | oa_keys l l' : Permutation l l' -> obs_agree (OKeys l) (OKeys l')
  | oa_vals l l' : Permutation l l' -> obs_agree (OVals l) (OVals l')
  | oa_entry b k r r' : obs_agree r r' -> obs_agree (OEntry b k r) (OEntry b k r').

(* ---- contents: every operation in terms of dict_get / dict_insert / dict_remove / filter / map *)
Definition ref_occ (k : bytes) (v0 : value) (d : dict value) (a : occ_act) : dict value * obs :=
  match a with
  | OaGet => (d, OVal v0)
  | OaModify g => (dict_insert k (g v0) d, OVal v0)
  | OaInsert v => (dict_insert k v d, OVal v0)
  | OaRemove | OaSwapRemove | OaShiftRemove => (dict_remove k d, OVal v0)
  | OaRemoveEntry | OaSwapRemoveEntry | OaShiftRemoveEntry => (dict_remove k d, OKV (k, v0))
  end.
Definition ref_vac (k : bytes) (d : dict value) (a : vac_act) : dict value * obs :=
  match a with
  | VaKey => (d, OUnit)
  | VaInsert v => (dict_insert k v d, OVal v)
  end.

Definition opt_kv (k : bytes) (o : option value) : option (bytes * value) :=
  match o with Some v => Some (k, v) | None => None end.

Definition ref_do (d : dict value) (o : op) : dict value * obs :=
  match o with
  | Clear => ([], OUnit)
  | Get k => (d, OOptV (dict_get k d))
  | ContainsKey k => (d, OBool (dict_mem k d))
  | GetKeyValue k => (d, OOptKV (opt_kv k (dict_get k d)))
  | GetMut k g =>
    match dict_get k d with
    | Some v0 => (dict_insert k (g v0) d, OOptV (Some v0))
    | None => (d, OOptV None)
    end
  | Insert k v => (dict_insert k v d, OOptV (dict_get k d))
  | ShiftInsert i k v =>
    if Nat.leb i (dict_size (dict_remove k d)) then (dict_insert k v d, OOptV (dict_get k d)) else (d, OPanic)
  | Remove k | SwapRemove k | ShiftRemove k => (dict_remove k d, OOptV (dict_get k d))
  | RemoveEntry k | SwapRemoveEntry k | ShiftRemoveEntry k => (dict_remove k d, OOptKV (opt_kv k (dict_get k d)))
  | Append es => (dict_insert_all es d, OUnit)
  | Extend es => (dict_insert_all es d, OUnit)
  | FromIter es => (dict_insert_all es [], OUnit)
  | EntryKey k => (d, OKeys [k])
  | EntryOrInsert k v =>
    match dict_get k d with
    | Some v0 => (d, OVal v0)
    | None => (dict_insert k v d, OVal v)
    end
  | EntryOrInsertWith k v =>
    match dict_get k d with
    | Some v0 => (d, OCalled false v0)
    | None => (dict_insert k v d, OCalled true v)
    end
  | EntryAndModify k g =>
    match dict_get k d with
    | Some v0 => (dict_insert k (g v0) d, OBool true)
    | None => (d, OBool false)
    end
  | EntryAndModifyOrInsert k g v =>
    match dict_get k d with
    | Some v0 => (dict_insert k (g v0) d, OVal (g v0))
    | None => (dict_insert k v d, OVal v)
    end
  | EntryMatch k va oa =>
    match dict_get k d with
    | Some v0 => let '(d', r) := ref_occ k v0 d oa in (d', OEntry true k r)
    | None => let '(d', r) := ref_vac k d va in (d', OEntry false k r)
    end
  | Len => (d, ONat (dict_size d))
  | IsEmpty => (d, OBool (Nat.eqb (dict_size d) 0))
  | Iter | IterRev | IntoIter => (d, OEntries d)
  | Keys | KeysRev => (d, OKeys (map fst d))
  | Values | ValuesRev | IntoValues => (d, OVals (map snd d))
  | IterMut g => (dict_map g d, OUnit)
  | ValuesMut g => (dict_map (fun _ => g) d, OUnit)
  | Retain f => (dict_filter f d, OKeys (map fst d))
  | SortKeys => (d, OUnit)
  | Index k => match dict_get k d with Some v => (d, OVal v) | None => (d, OPanic) end
  | IndexMut k v => match dict_get k d with Some _ => (dict_insert k v d, OUnit) | None => (d, OPanic) end
  end.

Definition ref_step (po : bool) (d : dict value) (o : op) : dict value * obs :=
  if avail po o then ref_do d o else (d, ONa).

Fixpoint ref_run (po : bool) (d : dict value) (ops : list op) : dict value * list obs :=
  match ops with
  | [] => (d, [])
  | o :: r => let '(d1, ob) := ref_step po d o in let '(d2, obs) := ref_run po d1 r in (d2, ob :: obs)
  end.

(* ---- order under preserve_order: the key sequence after an operation, from the key sequence before
        (the dictionary [d] is consulted only by [Retain], whose predicate looks at values) *)
Definition ord_occ (k : bytes) (ks : list bytes) (a : occ_act) : list bytes :=
  match a with
  | OaRemove | OaSwapRemove | OaRemoveEntry | OaSwapRemoveEntry => ord_swap_remove k ks
  | OaShiftRemove | OaShiftRemoveEntry => ord_shift_remove k ks
  | OaGet | OaModify _ | OaInsert _ => ks
  end.

Definition ord_step (d : dict value) (ks : list bytes) (o : op) : list bytes :=
  match o with
  | Clear => []
  | Insert k _ | EntryOrInsert k _ | EntryOrInsertWith k _ | EntryAndModifyOrInsert k _ _ => ord_insert k ks
  | ShiftInsert i k _ => if ord_shift_insert_ok i k ks then ord_shift_insert i k ks else ks
  | Remove k | RemoveEntry k | SwapRemove k | SwapRemoveEntry k => ord_swap_remove k ks
  | ShiftRemove k | ShiftRemoveEntry k => ord_shift_remove k ks
  | Append es | Extend es => ord_insert_all (map fst es) ks
  | FromIter es => ord_insert_all (map fst es) []
  | EntryMatch k va oa =>
    if key_mem k ks then ord_occ k ks oa
    else match va with VaInsert _ => ord_insert k ks | VaKey => ks end
  | Retain f => filter (fun k => match dict_get k d with Some v => f k v | None => false end) ks
  | SortKeys => ord_sort ks
  | _ => ks
  end.

(* the reference (contents, key order) after a history, preserve_order configuration *)
Fixpoint ord_run (d : dict value) (ks : list bytes) (ops : list op) : list bytes :=
  match ops with
  | [] => ks
  | o :: r => ord_run (fst (ref_step true d o)) (ord_step d ks o) r
  end.

(* ------------------------------------------------------------------ Part 4: values *)
(* what every Value built through the API satisfies: object keys are distinct (ascending in the default
   configuration) at every depth, floats are finite (Number::from_f64 refuses NaN and infinities) *)
Definition keys_ok (po : bool) (ks : list bytes) : Prop := if po then NoDup ks else ascending ks.

Fixpoint wfv (po : bool) (v : value) : Prop :=
  match v with
  | VNum (NFloat f) => is_finite f = true
  | VArr l => (fix all (l : list value) : Prop := match l with [] => True | x :: r => wfv po x /\ all r end) l
  | VObj m => keys_ok po (map fst m) /\
              (fix all (m : list (bytes * value)) : Prop := match m with [] => True | (_, x) :: r => wfv po x /\ all r end) m
  | _ => True
  end.


(* [vperm a b]: b is a with the entries of every object, at every depth, written in another order *)
Fixpoint vperm (a b : value) {struct a} : Prop :=
  match a, b with
  | VArr la, VArr lb =>
    (fix go (la lb : list value) {struct la} : Prop :=
       match la, lb with
       | [], [] => True
       | x :: la', y :: lb' => vperm x y /\ go la' lb'
       | _, _ => False
       end) la lb
  | VObj ma, VObj mb =>
    exists mb', Permutation mb' mb /\
      (fix go (ma mb' : list (bytes * value)) {struct ma} : Prop :=
         match ma, mb' with
         | [], [] => True
         | (k, x) :: ma', (k', y) :: r => k = k' /\ vperm x y /\ go ma' r
         | _, _ => False
         end) ma mb'
  | VArr _, _ | VObj _, _ => False
  | _, _ => a = b
  end.


Fixpoint all_sorted (v : value) : Prop :=
  match v with
  | VArr l => (fix all (l : list value) : Prop := match l with [] => True | x :: r => all_sorted x /\ all r end) l
  | VObj m => ascending (map fst m) /\
              (fix all (m : list (bytes * value)) : Prop := match m with [] => True | (_, x) :: r => all_sorted x /\ all r end) m
  | _ => True
  end.
