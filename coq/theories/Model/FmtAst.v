(* Model/FmtAst.v — the statement language tools/translate_fmt.py translates the bodies of the `Formatter` methods into
   (src/ser.rs: trait defaults = CompactFormatter, and the PrettyFormatter overrides), and its interpreter.

   Gen/FmtTables.v (GENERATED on every run) instantiates [fmt_table] with what the source says now; Proofs/SerFmt.v proves
   that the hand-written formatter functions of Model/Ser.v are exactly the interpretation of those statement lists, so a
   changed method body breaks a proof obligation.  The interpreter is the (small, trusted) semantics of the Rust subset:
     self.current_indent += 1 / -= 1      FIncIndent / FDecIndent   (usize; the decrement at 0 would panic in a debug build —
                                                                    [pred] here, as in Model/Ser.v, whose header states the invariant)
     self.has_value = b                   FSetHas b
     [tri!](writer.write_all(e))          FWrite e     one buffer handed to the writer
     [tri!](indent(writer, self.current_indent, self.indent))   FIndent      current_indent buffers, each = the indent string
     if self.has_value { .. }             FIfHas
     if first { .. } else { .. }          FIfFirst
     Ok(())                               FOk
   A write error ends the method at once in the code (tri! / tail call); the trace model of Ser.v keeps every buffer and lets
   the writer model (write_all over a failing writer, Proofs/SerWriter.v) cut the trace, so no error flow is needed here. *)
From SJ Require Import Base.Bytes Model.Ser.
Open Scope N_scope.

Inductive fexpr := FLit (b : bytes) | FIfFirstLit (a b : bytes).
Inductive fstmt :=
  | FIncIndent | FDecIndent | FSetHas (b : bool) | FWrite (e : fexpr) | FIndent
  | FIfHas (body : list fstmt) | FIfFirst (a b : list fstmt) | FOk.

Record fmt_table := {
  m_begin_array : list fstmt; m_end_array : list fstmt; m_begin_array_value : list fstmt; m_end_array_value : list fstmt;
  m_begin_object : list fstmt; m_end_object : list fstmt; m_begin_object_key : list fstmt; m_end_object_key : list fstmt;
  m_begin_object_value : list fstmt; m_end_object_value : list fstmt;
  m_write_null : list fstmt; m_begin_string : list fstmt; m_end_string : list fstmt
}.

Definition eval_fexpr (first : bool) (e : fexpr) : bytes :=
  match e with FLit b => b | FIfFirstLit a b => if first then a else b end.

Fixpoint run_stmt (ind : bytes) (first : bool) (s : fstmt) (st : fstate) {struct s} : list bytes * fstate :=
  let run_list := fix go (l : list fstmt) (st : fstate) {struct l} : list bytes * fstate :=
    match l with
    | [] => ([], st)
    | s :: r => let '(b1, st1) := run_stmt ind first s st in let '(b2, st2) := go r st1 in (b1 ++ b2, st2)
    end in
  match s with
  | FIncIndent => ([], mkFs (S (cur st)) (hasv st))
  | FDecIndent => ([], mkFs (pred (cur st)) (hasv st))
  | FSetHas b => ([], mkFs (cur st) b)
  | FWrite e => ([eval_fexpr first e], st)
  | FIndent => (indent_bufs (cur st) ind, st)
  | FIfHas body => if hasv st then run_list body st else ([], st)
  | FIfFirst a b => if first then run_list a st else run_list b st
  | FOk => ([], st)
  end.

Fixpoint run_stmts (ind : bytes) (first : bool) (l : list fstmt) (st : fstate) : list bytes * fstate :=
  match l with
  | [] => ([], st)
  | s :: r => let '(b1, st1) := run_stmt ind first s st in let '(b2, st2) := run_stmts ind first r st1 in (b1 ++ b2, st2)
  end.
