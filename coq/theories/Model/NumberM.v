(* Model/NumberM.v — the string-backed Number of the arbitrary_precision build.

   This file models the `#[cfg(feature = "arbitrary_precision")]` code: [cf] carries the other feature flags;
   wherever the crate has an arbitrary_precision variant, that variant is the one modelled here.

     src/de.rs      parse_any_signed_number, impl FromStr for Number, and — because parse_any_signed_number
                    peeks AGAIN after a failed parse — variants [scanS_*] of scan_or_eof / scan_exponent /
                    scan_decimal / scan_number / scan_integer / parse_any_number that also return the reader
                    cursor at the moment of return (their results are those of Model/Num.v: Proofs/ApNumber.v,
                    lemmas scanS_*_fst)
     src/number.rs  N = String; as_u64 / as_i64 / as_u128 / as_i128 / as_f64 / is_u64 / is_i64 / is_f64 / as_str,
                    Display, Serialize (token struct -> NumberStrEmitter -> write_number_str: the text as is),
                    From<ParserNumber>
     src/value/ser.rs NumberValueEmitter (to_value of a Number re-parses its text with Number::from_str)
     src/ser.rs     compact serialisation of a Value whose numbers are string-backed

   ASSUMED behaviour of the standard library (not verified, tied by the correspondence check, op `na`):
     * `str::parse::<uN>()` : optional '+', then at least one ASCII digit, nothing else, value in range;
       `str::parse::<iN>()` : optional '+' or '-', then at least one ASCII digit, nothing else, value in range
       (leading zeros are accepted; "-0" is 0 for signed targets and an error for unsigned ones;
       "1.0", "1e2" are errors).
     * `str::parse::<f64>()` : optional sign, then  digits [. digits] [(e|E) [sign] digits+]  with at least one
       digit before or after the point (also "inf"/"infinity"/"nan", which are not finite and are dropped by
       `.filter(is_finite)`), the result being the correctly rounded (nearest, ties to even) binary64 value,
       +-0 on underflow and infinity on overflow. *)
From SJ Require Import Base.Bytes Base.FloatB Gen.Tables Model.Read Model.Num Model.Value Model.De.
From Flocq Require Import Core BinarySingleNaN.
Open Scope N_scope.

(* ---- results together with the reader cursor at return ------------------------------------------------- *)
Definition rs (A : Type) : Type := (res (A * st) * st)%type.

Definition liftS {A} (s : st) (r : res (A * st)) : rs A :=
  (r, match r with Ok (_, s') => s' | _ => s end).

Definition bindS {A B} (m : rs A) (k : A -> st -> rs B) : rs B :=
  match fst m with
  | Ok (a, s) => k a s
  | Err c i => (Err c i, snd m)
  | OutOfFuel => (OutOfFuel, snd m)
  | Panic => (Panic, snd m)
  end.

Definition retS {A} (a : A) (s : st) : rs A := (Ok (a, s), s).
Definition errorS {A} (E : env) (s : st) (c : ecode) : rs A := (error E s c, s).
Definition peek_errorS {A} (E : env) (s : st) (c : ecode) : rs A := (peek_error E s c, s).

Definition scanS_or_eof (E : env) (s : st) : rs byte :=
  bindS (liftS s (next E s)) (fun o s1 =>
    match o with Some b => retS b s1 | None => errorS E s1 EofWhileParsingValue end).

Definition scanS_exponent (E : env) (e : byte) (s : st) : rs bytes :=
  let s0 := discard s in
  bindS (liftS s0 (peek_or_null E s0)) (fun c s1 =>
    let '(sgn, s2) := if c =? 43 then ([43], discard s1) else if c =? 45 then ([45], discard s1) else ([], s1) in
    bindS (scanS_or_eof E s2) (fun d s3 =>
      if is_digit d then
        let n := span_len is_digit (rest s3) in
        bindS (liftS (advance n s3) (peek_or_null E (advance n s3))) (fun _ s4 =>
          retS (e :: sgn ++ d :: firstn n (rest s3)) s4)
      else errorS E s3 InvalidNumber)).

Definition scanS_decimal (E : env) (s : st) : rs bytes :=
  let s0 := discard s in
  let n := span_len is_digit (rest s0) in
  let ds := firstn n (rest s0) in
  bindS (liftS (advance n s0) (peek_or_null E (advance n s0))) (fun c s1 =>
    if Nat.eqb n 0 then
      bindS (liftS s1 (peek E s1)) (fun o s2 =>
        match o with
        | Some _ => peek_errorS E s2 InvalidNumber
        | None => peek_errorS E s2 EofWhileParsingValue
        end)
    else if (c =? 101) || (c =? 69) then
      bindS (scanS_exponent E c s1) (fun ex s2 => retS (46 :: ds ++ ex) s2)
    else retS (46 :: ds) s1).

Definition scanS_number (E : env) (s : st) : rs bytes :=
  bindS (liftS s (peek_or_null E s)) (fun c s1 =>
    if c =? 46 then scanS_decimal E s1
    else if (c =? 101) || (c =? 69) then scanS_exponent E c s1
    else retS [] s1).

Definition scanS_integer (E : env) (s : st) : rs bytes :=
  bindS (scanS_or_eof E s) (fun c s1 =>
    if c =? 48 then
      bindS (liftS s1 (peek_or_null E s1)) (fun c2 s2 =>
        if is_digit c2 then peek_errorS E s2 InvalidNumber
        else bindS (scanS_number E s2) (fun t s3 => retS (48 :: t) s3))
    else if is_digit19 c then
      let n := span_len is_digit (rest s1) in
      bindS (liftS (advance n s1) (peek_or_null E (advance n s1))) (fun _ s2 =>
        bindS (scanS_number E s2) (fun t s3 => retS (c :: firstn n (rest s1) ++ t) s3))
    else errorS E s1 InvalidNumber).

(* the classification at the end of parse_any_number: `buf.parse::<u64>()` / `buf.parse::<i64>()`, "-0" kept as text *)
Definition ap_classify (positive : bool) (buf : bytes) : pnum :=
  if all_digits buf then
    let v := digits_val buf 0 in
    if positive then
      if (v <=? Z.of_N u64_max)%Z then PU64 (Z.to_N v) else PString buf
    else
      if (v <=? Z.of_N i64_min_abs)%Z && negb (v =? 0)%Z then PI64 (- v) else PString (45 :: buf)
  else PString (if positive then buf else 45 :: buf).

Definition parse_any_number_S (E : env) (positive : bool) (s : st) : rs pnum :=
  bindS (scanS_integer E s) (fun buf s1 => retS (ap_classify positive buf) s1).

(* ---- Deserializer::parse_any_signed_number ------------------------------------------------------------- *)
(* `fix_position` at its end is the identity here: every error built by error()/peek_error() has line >= 1. *)
Definition parse_any_signed_number (E : env) (s : st) : res pnum :=
  let* (o, s1) := peek E s in
  match o with
  | None => peek_error E s1 EofWhileParsingValue
  | Some b =>
    let vs : rs pnum :=
      if b =? 45 then parse_any_number_S E false (discard s1)
      else if is_digit b then parse_any_number_S E true s1
      else peek_errorS E s1 InvalidNumber in
    let* (o2, s3) := peek E (snd vs) in
    match o2 with
    | Some _ => peek_error E s3 InvalidNumber
    | None => let* (p, _) := fst vs in Ok p
    end
  end.

(* impl From<ParserNumber> for Number: itoa for the integer variants, the text itself for String.
   (F64 would go through ryu; parse_any_number never produces it in this build: Proofs/ApNumber.v.) *)
Definition number_of_pnum (p : pnum) : num := NLit (ap_lit_of p).

(* impl FromStr for Number *)
Definition number_from_str (cf : cfg) (s : bytes) : res num :=
  let* p := parse_any_signed_number (mkEnv RStr TEof cf) (init_st s) in
  Ok (number_of_pnum p).

(* ---- std integer parsing (assumed, see header) ------------------------------------------------------------ *)
Definition std_parse_int (signed : bool) (lo hi : Z) (l : bytes) : option Z :=
  let '(neg, ds) :=
    match l with
    | c :: r => if c =? 43 then (false, r)
                else if (c =? 45) && signed then (true, r)      (* unsigned: '-' is an invalid digit *)
                else (false, l)
    | [] => (false, l)
    end in
  if all_digits ds then
    let v := digits_val ds 0 in
    let z := if neg then (- v)%Z else v in
    if (lo <=? z)%Z && (z <=? hi)%Z then Some z else None
  else None.

Definition U64_MAX : Z := 18446744073709551615.
Definition I64_MIN : Z := -9223372036854775808.
Definition I64_MAX : Z := 9223372036854775807.
Definition U128_MAX : Z := 340282366920938463463374607431768211455.
Definition I128_MIN : Z := -170141183460469231731687303715884105728.
Definition I128_MAX : Z := 170141183460469231731687303715884105727.

(* ---- accessors on the text of a Number --------------------------------------------------------------------- *)
Definition ap_as_u64 (lit : bytes) : option Z := std_parse_int false 0 U64_MAX lit.
Definition ap_as_i64 (lit : bytes) : option Z := std_parse_int true I64_MIN I64_MAX lit.
Definition ap_as_u128 (lit : bytes) : option Z := std_parse_int false 0 U128_MAX lit.
Definition ap_as_i128 (lit : bytes) : option Z := std_parse_int true I128_MIN I128_MAX lit.

(* std float parsing (assumed, see header) *)
Definition strip_sign (l : bytes) : bool * bytes :=
  match l with
  | c :: r => if c =? 43 then (false, r) else if c =? 45 then (true, r) else (false, l)
  | [] => (false, l)
  end.

Definition is_e (c : byte) : bool := (c =? 101) || (c =? 69).

(* integer digits, fraction digits, written exponent *)
Definition dec_parts (r : bytes) : option (bytes * bytes * Z) :=
  let ni := span_len is_digit r in
  let ip := firstn ni r in
  let r1 := skipn ni r in
  let '(fp, r2) :=
    match r1 with
    | c :: t => if c =? 46 then let nf := span_len is_digit t in (firstn nf t, skipn nf t) else ([], r1)
    | [] => ([], r1)
    end in
  match ip ++ fp with
  | [] => None
  | _ :: _ =>
    match r2 with
    | [] => Some (ip, fp, 0%Z)
    | c :: t =>
      if is_e c then
        let '(eneg, ds) := strip_sign t in
        if all_digits ds then Some (ip, fp, if eneg then (- digits_val ds 0)%Z else digits_val ds 0)
        else None
      else None
    end
  end.

(* `s.parse::<f64>().ok().filter(|f| f.is_finite())` *)
Definition std_parse_f64_finite (l : bytes) : option b64 :=
  let '(neg, r) := strip_sign l in
  match dec_parts r with
  | None => None
  | Some (ip, fp, ex) =>
    let f := rne_decimal (digits_val (ip ++ fp) 0) (ex - Z.of_nat (length fp)) in
    if b64_is_inf f then None else Some (if neg then b64_neg f else f)
  end.

Definition ap_as_f64 (lit : bytes) : option b64 := std_parse_f64_finite lit.

Definition is_some {A} (o : option A) : bool := match o with Some _ => true | None => false end.

Definition ap_is_u64 (lit : bytes) : bool := is_some (ap_as_u64 lit).
Definition ap_is_i64 (lit : bytes) : bool := is_some (ap_as_i64 lit).
Definition float_char (c : byte) : bool := (c =? 46) || (c =? 101) || (c =? 69).
Definition ap_is_f64 (lit : bytes) : bool :=
  if existsb float_char lit then is_some (ap_as_f64 lit) else false.

(* as_str / Display / Debug body / Serialize into a serde_json::Serializer (write_number_str): the text *)
Definition number_text (n : num) : bytes :=
  match n with
  | NLit s => s
  | NPos n => itoa n                             (* not string-backed: only for totality *)
  | NNeg z => 45 :: itoa (Z.to_N (- z))
  | NFloat _ => []
  end.
Definition ap_as_str (n : num) : bytes := number_text n.
Definition ap_display (n : num) : bytes := number_text n.
Definition ap_serialize (n : num) : bytes := number_text n.

(* to_value(&number): Serialize for Number -> value::Serializer::serialize_struct(TOKEN) -> SerializeMap::Number ->
   NumberValueEmitter::serialize_str = `value.parse::<Number>()` *)
Definition number_to_value (cf : cfg) (n : num) : res value :=
  let* m := number_from_str cf (number_text n) in Ok (VNum m).

(* ---- compact serialisation of a Value (src/ser.rs with CompactFormatter) ------------------------------------- *)
Definition hex_lc (n : N) : N := if n <? 10 then 48 + n else 87 + n.
Definition esc_byte (b : byte) : bytes :=
  let e := nth (N.to_nat b) ESCAPE_TABLE 0 in
  if e =? 0 then [b]
  else if e =? 117 then [92; 117; 48; 48; hex_lc (b / 16); hex_lc (b mod 16)]
  else [92; e].
Definition ser_str (s : bytes) : bytes := 34 :: flat_map esc_byte s ++ [34].

Fixpoint ser_value (v : value) : bytes :=
  match v with
  | VNull => [110; 117; 108; 108]
  | VBool true => [116; 114; 117; 101]
  | VBool false => [102; 97; 108; 115; 101]
  | VNum n => ap_serialize n
  | VStr s => ser_str s
  | VArr l =>
    91 :: (fix go (l : list value) (first : bool) : bytes :=
             match l with
             | [] => []
             | x :: r => (if first then [] else [44]) ++ ser_value x ++ go r false
             end) l true ++ [93]
  | VObj l =>
    123 :: (fix go (l : list (bytes * value)) (first : bool) : bytes :=
              match l with
              | [] => []
              | (k, x) :: r => (if first then [] else [44]) ++ ser_str k ++ 58 :: ser_value x ++ go r false
              end) l true ++ [125]
  end.
