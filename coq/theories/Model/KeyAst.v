(* Model/KeyAst.v — the classification tools/translate_keys.py translates the 31 method bodies of the two map-key serializers into
   (src/ser.rs `impl ser::Serializer for MapKeySerializer<'a, W, F>`; src/value/ser.rs `impl serde::Serializer for MapKeySerializer`), the serde method
   each node of the data-model tree stands for, and what each class means for the two models (Ser.key_ser, ValueSer.key_string).
   Gen/KeyTables.v (GENERATED on every run) holds what the sources say now; Proofs/SerKeys.v proves the models equal to the tables' meaning. *)
From SJ Require Import Base.Bytes Base.Utf8 Model.Read Model.Num Model.Sval Model.Ser Model.ValueSer.
Open Scope N_scope.

Inductive kmethod :=
  | m_str | m_unit_variant | m_newtype_struct | m_bool
  | m_i8 | m_i16 | m_i32 | m_i64 | m_i128 | m_u8 | m_u16 | m_u32 | m_u64 | m_u128
  | m_f32 | m_f64 | m_char | m_bytes | m_unit | m_unit_struct | m_newtype_variant | m_none | m_some
  | m_seq | m_tuple | m_tuple_struct | m_tuple_variant | m_map | m_struct | m_struct_variant | m_collect_str.

Inductive kclass := KAsStr | KDelegate | KQuotedBool | KQuotedInt | KQuotedFloat | KReject | KCollect.

Definition kmethod_eqb (a b : kmethod) : bool :=
  match a, b with
  | m_str, m_str | m_unit_variant, m_unit_variant | m_newtype_struct, m_newtype_struct | m_bool, m_bool
  | m_i8, m_i8 | m_i16, m_i16 | m_i32, m_i32 | m_i64, m_i64 | m_i128, m_i128 | m_u8, m_u8 | m_u16, m_u16 | m_u32, m_u32 | m_u64, m_u64 | m_u128, m_u128
  | m_f32, m_f32 | m_f64, m_f64 | m_char, m_char | m_bytes, m_bytes | m_unit, m_unit | m_unit_struct, m_unit_struct
  | m_newtype_variant, m_newtype_variant | m_none, m_none | m_some, m_some | m_seq, m_seq | m_tuple, m_tuple | m_tuple_struct, m_tuple_struct
  | m_tuple_variant, m_tuple_variant | m_map, m_map | m_struct, m_struct | m_struct_variant, m_struct_variant | m_collect_str, m_collect_str => true
  | _, _ => false
  end.

Fixpoint klookup (t : list (kmethod * kclass)) (m : kmethod) : option kclass :=
  match t with
  | [] => None
  | (m', c) :: r => if kmethod_eqb m' m then Some c else klookup r m
  end.

(* the Serializer method a node of the call tree stands for (Model/Sval.v) *)
Definition int_method (ty : intty) : kmethod :=
  match ty with I8 => m_i8 | I16 => m_i16 | I32 => m_i32 | I64 => m_i64 | I128 => m_i128
              | U8 => m_u8 | U16 => m_u16 | U32 => m_u32 | U64 => m_u64 | U128 => m_u128 end.
Definition method_of (k : sval) : kmethod :=
  match k with
  | SBool _ => m_bool | SInt ty _ => int_method ty | SF32 _ => m_f32 | SF64 _ => m_f64 | SChar _ => m_char | SStr _ => m_str | SBytes _ => m_bytes
  | SNone => m_none | SSome _ => m_some | SUnit => m_unit | SUnitStruct => m_unit_struct | SUnitVariant _ => m_unit_variant
  | SNewtypeStruct _ => m_newtype_struct | SNewtypeVariant _ _ => m_newtype_variant | SSeq _ _ => m_seq | STuple _ => m_tuple
  | STupleStruct _ => m_tuple_struct | STupleVariant _ _ => m_tuple_variant | SMap _ _ => m_map | SStruct _ => m_struct
  | SStructVariant _ _ => m_struct_variant | SCollectStr _ => m_collect_str
  | SNumLit _ => m_struct                  (* `Serialize for Number` under arbitrary_precision opens a struct *)
  end.

(* the string a KAsStr key is *)
Definition key_text_of (k : sval) : option bytes :=
  match k with SStr s => Some s | SUnitVariant n => Some n | SChar c => Some (utf8_encode c) | _ => None end.
Definition key_child (k : sval) : option sval :=
  match k with SSome v => Some v | SNewtypeStruct v => Some v | _ => None end.

Section Meaning.
  Variable fmt32 fmt64 : N -> bytes.

  (* what the class says the TEXT key serializer does on node k ([rec] = the key serializer itself, for KDelegate) *)
  Definition text_meaning (rec : sval -> tr unit) (c : option kclass) (k : sval) : tr unit :=
    match c with
    | Some KAsStr => match key_text_of k with Some s => format_escaped_str s | None => tpanic end
    | Some KDelegate => match key_child k with Some v => rec v | None => tpanic end
    | Some KQuotedBool => match k with SBool b => quoted (write_bool b) | _ => tpanic end
    | Some KQuotedInt => match k with SInt _ z => quoted (write_int z) | _ => tpanic end
    | Some KQuotedFloat =>
      match k with
      | SF32 bits => if f32_finite_bits bits then quoted (write_f32 fmt32 bits) else tfail FloatKeyMustBeFinite
      | SF64 bits => if f64_finite_bits bits then quoted (write_f64 fmt64 bits) else tfail FloatKeyMustBeFinite
      | _ => tpanic
      end
    | Some KReject => tfail KeyMustBeAString
    | Some KCollect => match k with SCollectStr chunks => collect_str chunks | _ => tpanic end
    | None => tpanic
    end.

  (* ... and the to_value key serializer (the key as a String) *)
  Definition value_meaning (rec : sval -> res bytes) (c : option kclass) (k : sval) : res bytes :=
    match c with
    | Some KAsStr => match key_text_of k with Some s => Ok s | None => Panic end
    | Some KDelegate => match key_child k with Some v => rec v | None => Panic end
    | Some KQuotedBool => match k with SBool b => Ok (if b then lit_true else lit_false) | _ => Panic end
    | Some KQuotedInt => match k with SInt _ z => Ok (itoa_z z) | _ => Panic end
    | Some KQuotedFloat =>
      match k with
      | SF32 bits => if f32_finite_bits bits then Ok (fmt32 bits) else Err FloatKeyMustBeFinite O
      | SF64 bits => if f64_finite_bits bits then Ok (fmt64 bits) else Err FloatKeyMustBeFinite O
      | _ => Panic
      end
    | Some KReject => Err KeyMustBeAString O
    | Some KCollect => match k with SCollectStr chunks => Ok (concat chunks) | _ => Panic end
    | None => Panic
    end.
End Meaning.
