(* Model/RawDe.v — `impl<'de> Deserializer<'de> for &'de RawValue` and `impl IntoDeserializer for &'de RawValue`
   (src/raw.rs 540-547 and 549-789), `value::to_raw_value` (raw.rs 291-297).  Definitions only.

   raw.rs 549-789: `deserialize_any` and the 31 typed requests (bool, i8 .. u128, f32, f64, char, str, string, bytes,
   byte_buf, option, unit, unit_struct, newtype_struct, seq, tuple, tuple_struct, map, struct, enum, identifier,
   ignored_any) all have the same body
       crate::Deserializer::from_str(&self.json).deserialize_X(visitor)
   i.e. a FRESH `Deserializer<StrRead>` over the RawValue's text (remaining_depth = 128, empty scratch, recursion
   limit enabled: `disable_recursion_limit` is never called on it) receives the request; its result is returned as it
   is.  `Deserializer::end()` is NOT called: nothing looks at what follows the value the request consumed.

   A target type `T` asks exactly one request of its deserializer (the universal seed of DESIGN.md A.7: one request
   per [ty]), so  `T::deserialize(&*raw)`  is the typed parser [DeTyped.de_typed] on an initial `from_str` reader
   over the text, without the `de_end` of [DeTyped.from_input_typed].

   raw.rs 540-547: `into_deserializer(self) = self`. *)
From SJ Require Import Base.Bytes Gen.Tables Model.Read Model.De Model.Ty Model.DeTyped Model.Sval Model.Ser Model.RawM.
Open Scope N_scope.

(* the Deserializer built by `Deserializer::from_str` and used as it comes: the recursion limit is on *)
Definition raw_cfg (cf : cfg) : cfg :=
  mkCfg (preserve_order cf) (float_roundtrip cf) (arbitrary_precision cf) false.
Definition raw_env (cf : cfg) : env := mkEnv RStr TEof (raw_cfg cf).

(* T::deserialize(&RawValue { json }) for the target type program [t]:
   `crate::Deserializer::from_str(&self.json).deserialize_X(visitor)`; the reader state left behind is dropped *)
Definition raw_deserialize (cf : cfg) (t : ty) (json : bytes) : tres dval :=
  let+ (d, _) := de_typed (typed_fuel t json) (raw_env cf) t (init_st json) in
  TOk d.

(* IntoDeserializer::into_deserializer *)
Definition raw_into_deserializer (json : bytes) : bytes := json.
Definition raw_deserialize_into (cf : cfg) (t : ty) (json : bytes) : tres dval :=
  raw_deserialize cf t (raw_into_deserializer json).

(* the comparison point: `serde_json::from_str::<T>(raw.get())` (from_trait: the same request, then `de.end()`) *)
Definition raw_from_str (cf : cfg) (t : ty) (json : bytes) : tres dval :=
  from_input_typed (raw_env cf) t (raw_get json).

(* capture, then read a typed target out of the captured value:
   `let raw: Box<RawValue> = from_str(text)?; T::deserialize(&*raw)` *)
Definition raw_capture_deserialize (cf : cfg) (t : ty) (text : bytes) : tres (tres dval) :=
  let+ j := raw_from_input (mkEnv RStr TEof cf) text in
  TOk (raw_deserialize cf t j).

(* value::to_raw_value (raw.rs 291-297) = [RawM.to_raw_value]: `to_string(value)`, then `RawValue::from_owned` with
   no re-validation.  Restated here so that the three functions of this task live in one place. *)
Definition to_raw_value (cf : cfg) (fmt32 fmt64 : N -> bytes) (v : sval) : res bytes :=
  RawM.to_raw_value cf fmt32 fmt64 v.
