(* Model/ValueSer.v — src/value/ser.rs: `to_value` (value::Serializer, SerializeVec, SerializeTupleVariant,
   SerializeMap, SerializeStructVariant, its MapKeySerializer, NumberValueEmitter) and `impl Serialize for Value`
   (with `Number::serialize` of src/number.rs, `Map::serialize` of src/map.rs, `From<f32>/From<f64> for Value`). *)
From SJ Require Import Base.Bytes Base.Utf8 Base.FloatB Model.Read Model.Num Model.Value Model.De Model.Sval Model.Ser.
From Flocq Require Import Core BinarySingleNaN.
Open Scope N_scope.

(* f64::from_bits / f32::from_bits (every NaN becomes the single NaN of the float model) *)
Definition f64_of_bits (x : N) : b64 :=
  let s := 9223372036854775808 <=? x in
  let r := x mod 9223372036854775808 in
  let e := r / 4503599627370496 in
  let m := r mod 4503599627370496 in
  if e =? 0 then
    if m =? 0 then B754_zero s
    else binary_normalize 53 1024 _ _ mode_NE (if s then - Z.of_N m else Z.of_N m)%Z (-1074) s
  else if e =? 2047 then
    if m =? 0 then B754_infinity s else B754_nan
  else binary_normalize 53 1024 _ _ mode_NE
         (if s then - Z.of_N (4503599627370496 + m) else Z.of_N (4503599627370496 + m))%Z (Z.of_N e - 1075) s.

Definition f32_of_bits (x : N) : b32 :=
  let s := 2147483648 <=? x in
  let r := x mod 2147483648 in
  let e := r / 8388608 in
  let m := r mod 8388608 in
  if e =? 0 then
    if m =? 0 then B754_zero s
    else binary_normalize 24 128 _ _ mode_NE (if s then - Z.of_N m else Z.of_N m)%Z (-149) s
  else if e =? 255 then
    if m =? 0 then B754_infinity s else B754_nan
  else binary_normalize 24 128 _ _ mode_NE
         (if s then - Z.of_N (8388608 + m) else Z.of_N (8388608 + m))%Z (Z.of_N e - 150) s.

Section ToValue.
  Variable cf : cfg.
  Variable fmt32 fmt64 : N -> bytes.       (* ryu::Buffer::format_finite *)

  Definition ap : bool := arbitrary_precision cf.

  (* From<i8..i64,isize> / From<u8..u64,usize> for Number (with arbitrary_precision also i128/u128) *)
  Definition number_of_int (z : Z) : num :=
    if ap then NLit (itoa_z z)
    else if (z <? 0)%Z then NNeg z else NPos (Z.to_N z).

  (* value::Serializer::serialize_i8 .. serialize_u128 *)
  Definition tv_int (ty : intty) (z : Z) : res value :=
    match ty with
    | I128 =>
      if ap then Ok (VNum (number_of_int z))
      else if (0 <=? z)%Z && (z <=? Z.of_N u64_max)%Z then Ok (VNum (number_of_int z))           (* u64::try_from *)
      else if (- Z.of_N i64_min_abs <=? z)%Z && (z <? Z.of_N i64_min_abs)%Z then Ok (VNum (number_of_int z))   (* i64::try_from *)
      else Err NumberOutOfRange O
    | U128 =>
      if ap then Ok (VNum (number_of_int z))
      else if (0 <=? z)%Z && (z <=? Z.of_N u64_max)%Z then Ok (VNum (number_of_int z))
      else Err NumberOutOfRange O
    | _ => Ok (VNum (number_of_int z))
    end.

  (* Value::from(f64) = Number::from_f64(f).map_or(Null, Number) ; Value::from(f32) likewise through from_f32 *)
  Definition tv_f64 (bits : N) : value :=
    if f64_finite_bits bits then VNum (if ap then NLit (fmt64 bits) else NFloat (f64_of_bits bits)) else VNull.
  Definition tv_f32 (bits : N) : value :=
    if f32_finite_bits bits then VNum (if ap then NLit (fmt32 bits) else NFloat (b64_of_b32 (f32_of_bits bits))) else VNull.

  (* FromStr for Number (src/de.rs): Deserializer::from_str(s).parse_any_signed_number().map(Into::into).
     Only the success path is exact; on a failing literal the error class is the parser's (the position fix-up and the
     second peek after a failed parse are not modelled: `to_value` never reaches them for a Number built by this crate). *)
  Definition number_from_str (s : bytes) : res num :=
    let E := mkEnv RStr TEof cf in
    let* (o, s1) := peek E (init_st s) in
    match o with
    | None => peek_error E s1 EofWhileParsingValue
    | Some b =>
      let* (p, s2) := (if b =? 45 then parse_any_number E false (discard s1)
                       else if is_digit b then parse_any_number E true s1
                       else peek_error E s1 InvalidNumber) in
      let* (o2, s3) := peek E s2 in
      match o2 with
      | Some _ => peek_error E s3 InvalidNumber
      | None =>
        match visit_number_cfg E p with
        | VNum n => Ok n
        | _ => Err InvalidNumber O
        end
      end
    end.

  (* value::ser::MapKeySerializer: the key as a String *)
  Fixpoint key_string (k : sval) : res bytes :=
    match k with
    | SUnitVariant name => Ok name
    | SNewtypeStruct v => key_string v
    | SBool b => Ok (if b then lit_true else lit_false)
    | SInt _ z => Ok (itoa_z z)
    | SF32 bits => if f32_finite_bits bits then Ok (fmt32 bits) else Err FloatKeyMustBeFinite O
    | SF64 bits => if f64_finite_bits bits then Ok (fmt64 bits) else Err FloatKeyMustBeFinite O
    | SChar c => Ok (utf8_encode c)
    | SStr s => Ok s
    | SBytes _ | SUnit | SUnitStruct | SNewtypeVariant _ _ | SNone => Err KeyMustBeAString O
    | SSome v => key_string v
    | SSeq _ _ | STuple _ | STupleStruct _ | STupleVariant _ _ => Err KeyMustBeAString O
    | SMap _ _ | SStruct _ | SStructVariant _ _ => Err KeyMustBeAString O
    | SNumLit _ => Err KeyMustBeAString O
    | SCollectStr chunks => Ok (concat chunks)
    end.

  Definition minsert (k : bytes) (v : value) (m : list (bytes * value)) := map_insert (preserve_order cf) k v m.

  Section Loops.
    Variable tv : sval -> res value.
    (* SerializeVec::serialize_element: self.vec.push(to_value(value)?) *)
    Fixpoint tv_elems (l : list sval) : res (list value) :=
      match l with
      | [] => Ok []
      | e :: r => let* x := tv e in let* xs := tv_elems r in Ok (x :: xs)
      end.
    (* SerializeMap::serialize_key then serialize_value: next_key = Some(key.serialize(MapKeySerializer)?); map.insert(key, to_value(value)?) *)
    Fixpoint tv_entries {K} (keyf : K -> res bytes) (l : list (K * sval)) (m : list (bytes * value)) : res (list (bytes * value)) :=
      match l with
      | [] => Ok m
      | (k, v) :: r =>
        let* ks := keyf k in
        let* x := tv v in
        tv_entries keyf r (minsert ks x m)
      end.
  End Loops.

  Definition ok_key (s : bytes) : res bytes := Ok s.

  Fixpoint to_value (v : sval) {struct v} : res value :=
    match v with
    | SBool b => Ok (VBool b)
    | SInt ty z => tv_int ty z
    | SF32 bits => Ok (tv_f32 bits)
    | SF64 bits => Ok (tv_f64 bits)
    | SChar c => Ok (VStr (utf8_encode c))
    | SStr s => Ok (VStr s)
    | SBytes s => Ok (VArr (map (fun b => VNum (number_of_int (Z.of_N b))) s))
    | SNone | SUnit | SUnitStruct => Ok VNull
    | SSome v => to_value v
    | SUnitVariant name => Ok (VStr name)
    | SNewtypeStruct v => to_value v
    | SNewtypeVariant name v => let* x := to_value v in Ok (VObj (minsert name x []))
    | SSeq _ es | STuple es | STupleStruct es => let* xs := tv_elems to_value es in Ok (VArr xs)
    | STupleVariant name es => let* xs := tv_elems to_value es in Ok (VObj (minsert name (VArr xs) []))
    | SMap _ kvs => let* m := tv_entries to_value key_string kvs [] in Ok (VObj m)
    | SStruct fs => let* m := tv_entries to_value ok_key fs [] in Ok (VObj m)
    | SStructVariant name fs => let* m := tv_entries to_value ok_key fs [] in Ok (VObj (minsert name (VObj m) []))
    | SCollectStr chunks => Ok (VStr (concat chunks))
    | SNumLit lit =>
      if ap then let* n := number_from_str lit in Ok (VNum n)          (* SerializeMap::Number; NumberValueEmitter *)
      else Ok (VObj (minsert NUMBER_TOKEN (VStr lit) []))
    end.
End ToValue.

(* ---- impl Serialize for Value: the calls it makes -------------------------------------------- *)
Definition sval_of_num (n : num) : sval :=
  match n with
  | NPos u => SInt U64 (Z.of_N u)          (* serializer.serialize_u64(u) *)
  | NNeg i => SInt I64 i                   (* serializer.serialize_i64(i) *)
  | NFloat f => SF64 (bits_of_b64 f)       (* serializer.serialize_f64(f) *)
  | NLit s => SNumLit s                    (* arbitrary_precision: struct TOKEN { TOKEN: s } *)
  end.

Fixpoint sval_of_value (v : value) : sval :=
  match v with
  | VNull => SUnit
  | VBool b => SBool b
  | VNum n => sval_of_num n
  | VStr s => SStr s
  | VArr l => SSeq (Some (length l)) (map sval_of_value l)                   (* Vec::serialize -> collect_seq: exact size hint *)
  | VObj l => SMap (Some (length l)) (map (fun kv => (SStr (fst kv), sval_of_value (snd kv))) l)
  end.
