(* Model/SerStr.v — string escaping of the serializer: src/ser.rs
     CharEscape, CharEscape::from_escape_table, Formatter::{begin_string, end_string, write_string_fragment,
     write_char_escape} (default bodies, shared by CompactFormatter and PrettyFormatter),
     format_escaped_str, format_escaped_str_contents, over the generated ESCAPE table (Gen/Tables.v: ESCAPE_TABLE).
   The writer is modelled by the sequence of buffers handed to `write_all`, in order.
   Definitions only. *)
From SJ Require Import Base.Bytes Gen.Tables.
Open Scope N_scope.

(* pub enum CharEscape *)
Inductive char_escape :=
  | CEQuote | CEReverseSolidus | CESolidus | CEBackspace | CEFormFeed | CELineFeed | CECarriageReturn | CETab
  | CEAsciiControl (b : byte).

(* const BB TT NN FF RR QU BS UU *)
Definition E_BB : N := 98.
Definition E_TT : N := 116.
Definition E_NN : N := 110.
Definition E_FF : N := 102.
Definition E_RR : N := 114.
Definition E_QU : N := 34.
Definition E_BS : N := 92.
Definition E_UU : N := 117.

(* ESCAPE[byte as usize]  (a u8 index never leaves the table; the default is irrelevant for bytes < 256) *)
Definition escape_of (b : byte) : N := nth (N.to_nat b) ESCAPE_TABLE 0.

(* CharEscape::from_escape_table; `_ => unreachable!()` is Panic *)
Definition from_escape_table (escape b : byte) : res char_escape :=
  if escape =? E_BB then Ok CEBackspace
  else if escape =? E_TT then Ok CETab
  else if escape =? E_NN then Ok CELineFeed
  else if escape =? E_FF then Ok CEFormFeed
  else if escape =? E_RR then Ok CECarriageReturn
  else if escape =? E_QU then Ok CEQuote
  else if escape =? E_BS then Ok CEReverseSolidus
  else if escape =? E_UU then Ok (CEAsciiControl b)
  else Panic.

(* static HEX_DIGITS: [u8; 16] = the ASCII digits 0123456789abcdef *)
Definition HEX_DIGITS : bytes := [48; 49; 50; 51; 52; 53; 54; 55; 56; 57; 97; 98; 99; 100; 101; 102].

(* Formatter::write_char_escape: the one buffer written *)
Definition write_char_escape (e : char_escape) : bytes :=
  match e with
  | CEQuote => [92; 34]
  | CEReverseSolidus => [92; 92]
  | CESolidus => [92; 47]
  | CEBackspace => [92; 98]
  | CEFormFeed => [92; 102]
  | CELineFeed => [92; 110]
  | CECarriageReturn => [92; 114]
  | CETab => [92; 116]
  | CEAsciiControl b =>
    [92; 117; 48; 48; nth (N.to_nat (N.shiftr b 4)) HEX_DIGITS 0; nth (N.to_nat (N.land b 15)) HEX_DIGITS 0]
  end.

(* the `for (i, &byte) in bytes.iter().enumerate()` loop of format_escaped_str_contents.
   [rfrag] is value[start..i] REVERSED (the pending unescaped run); the buffers written are returned.
     escape == 0            -> continue                         (the run grows)
     otherwise              -> if start < i { write_string_fragment(value[start..i]) }
                               write_char_escape(from_escape_table(escape, byte)); start = i + 1
   after the loop: if start == bytes.len() { return } ; write_string_fragment(value[start..]) *)
Definition frag_buf (rfrag : bytes) : list bytes := match rfrag with [] => [] | _ => [rev_append rfrag []] end.

Fixpoint contents_loop (rfrag : bytes) (l : bytes) : res (list bytes) :=
  match l with
  | [] => Ok (frag_buf rfrag)
  | b :: r =>
    let escape := escape_of b in
    if escape =? 0 then contents_loop (b :: rfrag) r
    else
      let* ce := from_escape_table escape b in
      let* out := contents_loop [] r in
      Ok (frag_buf rfrag ++ write_char_escape ce :: out)
  end.

Definition format_escaped_str_contents (value : bytes) : res (list bytes) := contents_loop [] value.

(* format_escaped_str: begin_string, contents, end_string *)
Definition format_escaped_str (value : bytes) : res (list bytes) :=
  let* c := format_escaped_str_contents value in Ok ([34] :: c ++ [[34]]).

(* the buffers written for a string (the empty list stands for the unreachable!() panic, which
   Proofs/StrEscape.v shows cannot happen for bytes < 256: escape_str_res_ok) *)
Definition escape_str (s : bytes) : list bytes :=
  match format_escaped_str s with Ok l => l | _ => [] end.

Definition escape_concat (s : bytes) : bytes := concat (escape_str s).
