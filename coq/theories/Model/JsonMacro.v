(* Model/JsonMacro.v — the `json!` / `json_internal!` token muncher of src/macros.rs as a function on token trees.

   Token trees ([tok]): what macro_rules sees, with one abstraction: a maximal run of tokens that rustc's `$e:expr`
   fragment parser takes as ONE expression (a literal such as 1, -2.5e3, "s"; a variable; a call; ...) and that contains
   no top-level `,` or `:` is a single [KExpr v], where v is what `serde_json::to_value(&e).unwrap()` yields for it (for a
   key position: `(e).into()` must be a String, i.e. v = VStr s, anything else is a type error).  [KParen v] is the same
   for an expression written inside parentheses (one `( ... )` token tree; the macro has a rule of its own for it).
   `null`, `true`, `false` are the identifiers the macro matches literally; `[..]` and `{..}` are delimited groups.
   Every way of not compiling (no rule matches, json_unexpected!, json_expect_expr_comma!, json_internal!() with no
   tokens, a type error in the expansion) is [None].

   Part 1 is the model of the macro (rule by rule, in rule order).  Part 2 is the reference reading of a token tree as a
   JSON text with optional trailing commas — the specification the macro is compared with in Proofs/PointerMacro.v. *)
From SJ Require Import Base.Bytes Base.FloatB Model.Value.
Open Scope N_scope.

Inductive tok :=
  | KNull | KTrue | KFalse
  | KExpr (v : value)
  | KParen (v : value)
  | KComma | KColon
  | KBrack (l : list tok)
  | KBrace (l : list tok).

Definition isnil {A} (l : list A) : bool := match l with [] => true | _ => false end.

(* `let _ = $object.insert(($($key)+).into(), $value);` — the key tokens must form one String-valued expression *)
Definition key_of (key : list tok) : option bytes :=
  match key with
  | [KExpr (VStr s)] => Some s
  | [KParen (VStr s)] => Some s
  | _ => None
  end.

(* ====================================================================== Part 1: the macro *)
Section Munch.
  Variable preserve : bool.                       (* Map = IndexMap (preserve_order) or BTreeMap *)
  Variable expand1 : tok -> option value.         (* json_internal!(<one token tree>) — tied recursively below *)

  (* @array [elems] rest.   The accumulator is written either `[e, e, e,]` ([tc] = true: matches `[$($elems:expr,)*]`)
     or `[e, e, e]` ([tc] = false: matches `[$($elems:expr),*]`); the empty accumulator `[]` matches both. *)
  Fixpoint arr_munch (acc : list value) (tc : bool) (rest : list tok) {struct rest} : option (list value) :=
    let can_elem := tc || isnil acc in
    let can_sep := negb tc || isnil acc in
    match rest with
    | [] => Some acc                                                      (* Done with / without trailing comma *)
    | t :: r =>
      match t with
      | KNull | KTrue | KFalse | KBrack _ | KBrace _ =>
        if can_elem then                                                  (* Next element is null/true/false/array/map *)
          match expand1 t with
          | Some v => arr_munch (acc ++ [v]) false r
          | None => None
          end
        else None                                                         (* no rule matches *)
      | KExpr v | KParen v =>
        if can_elem then
          match r with
          | KComma :: r' => arr_munch (acc ++ [v]) true r'                (* $next:expr , $($rest)* *)
          | [] => Some (acc ++ [v])                                       (* $last:expr, then Done without trailing comma *)
          | _ :: _ => None                                                (* falls to $unexpected:tt (acc empty) or no rule *)
          end
        else None
      | KComma =>
        if can_sep then arr_munch acc true r                              (* Comma after the most recent element *)
        else None
      | KColon => None                                                    (* Unexpected token / no rule *)
      end
    end.

  (* @object $object (...) (...) (...): one automaton over the remaining tokens.
       OKey key      — `@object obj (key) (rest) (rest)`, munching a key
       OColon key    — the same with rest = `: ...`, key non-empty, the colon consumed here
       OVal key v    — `@object obj [key] (v) rest` *)
  Inductive ostate :=
    | OKey (key : list tok)
    | OColon (key : list tok)
    | OVal (key : list tok) (v : value).

  Definition obj_insert (m : list (bytes * value)) (key : list tok) (v : value) : option (list (bytes * value)) :=
    match key_of key with
    | Some k => Some (map_insert preserve k v m)
    | None => None
    end.

  Fixpoint obj_munch (m : list (bytes * value)) (s : ostate) (rest : list tok) {struct rest} : option (list (bytes * value)) :=
    match rest with
    | [] =>
      match s with
      | OKey [] => Some m                                                 (* Done. *)
      | OKey (_ :: _) => None                                             (* Missing colon and value for last entry *)
      | OColon _ => None                                                  (* Missing value for last entry *)
      | OVal key v => obj_insert m key v                                  (* Insert the last entry without trailing comma *)
      end
    | t :: r =>
      match s with
      | OVal key v =>
        match t with
        | KComma => match obj_insert m key v with                         (* Insert the current entry followed by trailing comma *)
                    | Some m' => obj_munch m' (OKey []) r
                    | None => None
                    end
        | _ => None                                                       (* Current entry followed by unexpected token *)
        end
      | OColon key =>
        match t with
        | KNull | KTrue | KFalse | KBrack _ | KBrace _ =>                 (* Next value is null/true/false/array/map *)
          match expand1 t with
          | Some v => obj_munch m (OVal key v) r
          | None => None
          end
        | KExpr v | KParen v =>
          match r with
          | KComma :: _ => obj_munch m (OVal key v) r                     (* : $value:expr , $($rest)* *)
          | [] => obj_munch m (OVal key v) r                              (* : $value:expr *)
          | _ :: _ => None                                                (* Refuse to absorb colon token: json_expect_expr_comma! fails *)
          end
        | KComma | KColon => None                                         (* json_expect_expr_comma! fails *)
        end
      | OKey key =>
        match t with
        | KColon => match key with
                    | [] => None                                          (* Misplaced colon *)
                    | _ :: _ => obj_munch m (OColon key) r
                    end
        | KComma => None                                                  (* Found a comma inside a key *)
        | KParen v =>
          match key, r with
          | [], KColon :: _ => obj_munch m (OKey [KExpr v]) r             (* Key is fully parenthesized *)
          | _, _ => obj_munch m (OKey (key ++ [t])) r                     (* Munch a token into the current key *)
          end
        | _ => obj_munch m (OKey (key ++ [t])) r                          (* Munch a token into the current key *)
        end
      end
    end.
End Munch.

(* json_internal!($tt) for a single token tree — "The main implementation" rules that take one tree *)
Fixpoint expand1 (preserve : bool) (t : tok) {struct t} : option value :=
  match t with
  | KNull => Some VNull
  | KTrue => Some (VBool true)
  | KFalse => Some (VBool false)
  | KBrack [] => Some (VArr [])
  | KBrack l => option_map VArr (arr_munch (expand1 preserve) [] false l)
  | KBrace [] => Some (VObj [])
  | KBrace l => option_map VObj (obj_munch preserve (expand1 preserve) [] (OKey []) l)
  | KExpr v => Some v                                                     (* ($other:expr) => to_value(&$other).unwrap() *)
  | KParen v => Some v
  | KComma | KColon => None
  end.

(* json!($($json:tt)+): the whole invocation must be one of the forms above *)
Definition expand (preserve : bool) (ts : list tok) : option value :=
  match ts with
  | [t] => expand1 preserve t
  | _ => None
  end.

(* ====================================================================== Part 2: reference reading
   value   ::= null | true | false | expr | '[' elems ']' | '{' members '}'
   elems   ::= ε | value | value ',' elems
   members ::= ε | key ':' value | key ':' value ',' members           key ::= String-valued expr
   denotation: arrays in order; objects = the Map obtained by inserting the members in order (same as the parser's). *)
Section Sem.
  Variable sem1 : tok -> option value.
  Definition is_value_tok (t : tok) : bool :=
    match t with KComma | KColon => false | _ => true end.
  Fixpoint sem_elems (l : list tok) {struct l} : option (list value) :=
    match l with
    | [] => Some []
    | t :: r =>
      if is_value_tok t then
        match sem1 t with
        | Some v =>
          match r with
          | [] => Some [v]
          | KComma :: r' => option_map (cons v) (sem_elems r')
          | _ :: _ => None
          end
        | None => None
        end
      else None
    end.
  Fixpoint sem_members (l : list tok) {struct l} : option (list (bytes * value)) :=
    match l with
    | [] => Some []
    | k :: KColon :: t :: r =>
      match key_of [k] with
      | Some ks =>
        if is_value_tok t then
          match sem1 t with
          | Some v =>
            match r with
            | [] => Some [(ks, v)]
            | KComma :: r' => option_map (cons (ks, v)) (sem_members r')
            | _ :: _ => None
            end
          | None => None
          end
        else None
      | None => None
      end
    | _ => None
    end.
End Sem.

Fixpoint sem1 (preserve : bool) (t : tok) {struct t} : option value :=
  match t with
  | KNull => Some VNull
  | KTrue => Some (VBool true)
  | KFalse => Some (VBool false)
  | KExpr v | KParen v => Some v
  | KBrack l => option_map VArr (sem_elems (sem1 preserve) l)
  | KBrace l => option_map (fun es => VObj (map_of_entries preserve es)) (sem_members (sem1 preserve) l)
  | KComma | KColon => None
  end.
Definition sem (preserve : bool) (ts : list tok) : option value :=
  match ts with [t] => sem1 preserve t | _ => None end.

(* the macro's one leniency: commas before the first element of an array (`json!([,])`, `json!([, 1])`) *)
Fixpoint strict_tok (t : tok) : bool :=
  match t with
  | KBrack l => match l with KComma :: _ => false | _ => true end && forallb strict_tok l
  | KBrace l => forallb strict_tok l
  | _ => true
  end.
