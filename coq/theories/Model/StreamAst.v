(* Model/StreamAst.v — the Rust subset tools/translate_stream.py translates `StreamDeserializer` (src/de.rs) and the fusing hooks of the
   readers (src/read.rs) into, and what the translation MEANS.  Definitions only.

   Gen/StreamTables.v (GENERATED on every run) holds what the source says now:
     de.rs    <StreamDeserializer as Iterator>::next                                   NEXT_BODY        (language [nexpr] / [nstmt])
              Deserializer::new, Deserializer::into_iter, StreamDeserializer::new,
              StreamDeserializer::byte_offset                                          CTOR_TABLE       (language [cexpr])
              impl FusedIterator for StreamDeserializer (its `R: .. + Fused` bound)    FUSED_BOUND
     read.rs  `const should_early_return_if_failed` and `fn set_failed` of
              IoRead, SliceRead, StrRead and of `impl Read for &mut R`                 READER_IMPLS     (language [early_rhs] / [sfstmt])
              the `impl Fused for ..` markers                                          FUSED_READERS
   Proofs/StreamSrc.v proves Model/Stream.v's hand-written [stream_next] / [set_failed] / [stream_init] equal to the interpretation.

   PART A (read.rs).      const should_early_return_if_failed: bool = true|false;          EarlyLit b
                          const should_early_return_if_failed: bool = R::should_early_return_if_failed;     EarlyOfR   (impl for &mut R)
                          *failed = true|false;                                            SfSetFlag b
                          self.slice = &self.slice[..self.index];   (.. + k)               SfTruncate k      (k = 0 as written today)
                          self.delegate.set_failed(failed);                                SfDelegate "SliceRead"   (the type of the field `delegate`)
                          R::set_failed(self, failed);                                     SfForward
     A reader TYPE is [rty] (IoRead | SliceRead | StrRead | &mut R); its state is the abstract cursor [st] of Model/Read.v, in which
     `slice[index..]` is [rest]: truncating the slice at `index + k` leaves [firstn k rest] (a Rust panic if that is past the end).  A statement
     that does not fit the type (`self.slice` of an IoRead, ..) is stuck ([Panic]).

   PART B (next).         Option / Result values are data ([nval]); `self` is Model/Stream.v's [sstate] (the deserializer's cursor incl.
     remaining_depth, `offset`, `failed`).
       if C { return E; }  |  if C { items }                     NsIf C [..]
       let x = E;                                                NsLet
       self.offset = self.de.read.byte_offset();                 NsSetOffset        (Read::byte_offset = [off], tied to the source by Proofs/ReadSrc.v)
       self.de.read.set_failed(&mut self.failed);                NsSetFailed        (PART A, for the reader type at hand)
       E ::= None | Some(E) | Ok(E) | Err(E) | true | false | x | self.failed | R::should_early_return_if_failed | A && B | !A | e.is_io()
           | self.de.parse_whitespace() | self.peek_end_of_value()                  run by ScanAst's interpreter over Gen/CursorTables.v ([cur_ws] / [cur_pev])
           | de::Deserialize::deserialize(&mut self.de)                             ABSTRACT: the parameter [IP], as Model/Stream.v's [itemp]
           | if C { E } else { E } | match E { P => E, .. } | match b { BP => E, .. } | { items E }
       P ::= _ | x | () | None | Some(P) | Ok(P) | Err(P)
     `e.is_io()` is `self.classify() == Category::Io` (pinned text), i.e. [category c = CatIo] with the GENERATED [category] of Gen/Tables.v.
     WHERE A FAILING CALLEE LEAVES THE READER.  [res] carries no state on [Err] — neither ScanAst's interpreter nor Model/Stream.v's item
     parser says where the reader stands after a positioned error.  `next` needs it (set_failed truncates at the current index; after a
     `trailing characters` error the stream continues).  The interpreter therefore takes the parameter [ES : site -> st -> st]: the state
     after a failure at the given call site, as a function of the state before the call.  Model/Stream.v's convention is [es_model]
     (the reader is where it was before the call).
     An item parser that does not return ([OutOfFuel] / [Panic]) makes `next` not return, with the same outcome.
     The interpreter is structurally recursive on the body (no loops, no calls into translated bodies of this language).

   PART C (constructors). `let x = E;`* followed by a result expression, over struct VALUES with named fields ([cval]); `#[cfg(feature = ..)]`
     fields exist in the builds that have the feature ([build], [cfgg] of Model/ReadAst.v).
       E ::= x | self | E.f | E.byte_offset() | 128 | true | false | PhantomData | Vec::new() | T { [#[cfg(..)]] f: E, .. , g } | T::new(E, ..) *)
From Coq Require Import String List NArith.
From SJ Require Import Base.Bytes Gen.Tables Model.Read Model.Value Model.Stream Model.ReadAst.
Require SJ.Model.ScanAst.
Import ListNotations.
Local Open Scope string_scope.
Local Open Scope list_scope.
Open Scope N_scope.

Fixpoint sfind {A} (x : string) (l : list (string * A)) : option A :=
  match l with [] => None | (y, a) :: r => if String.eqb x y then Some a else sfind x r end.

(* ================================================================================================ PART A: the readers' fusing hooks *)
Inductive early_rhs := EarlyLit (b : bool) | EarlyOfR.
Inductive sfstmt :=
  | SfSetFlag (b : bool)
  | SfTruncate (k : nat)
  | SfDelegate (ty : string)
  | SfForward.
Record rimpl := mkRI { ri_early : early_rhs; ri_set_failed : list sfstmt }.
Definition rtable := list (string * rimpl).

Inductive rty := TyIo | TySlice | TyStr | TyMutRef (r : rty).
Definition rty_name (t : rty) : string :=
  match t with TyIo => "IoRead" | TySlice => "SliceRead" | TyStr => "StrRead" | TyMutRef _ => "&mut R" end.
Fixpoint rty_kind (t : rty) : rkind :=
  match t with TyIo => RIo | TySlice => RSlice | TyStr => RStr | TyMutRef r => rty_kind r end.

(* <ty as Read>::should_early_return_if_failed *)
Fixpoint early_of (T : rtable) (t : rty) : option bool :=
  match sfind (rty_name t) T with
  | None => None
  | Some ri =>
    match ri_early ri with
    | EarlyLit b => Some b
    | EarlyOfR => match t with TyMutRef r => early_of T r | _ => None end
    end
  end.

(* the statements of one set_failed body.  [has_slice]: the receiver has the field `slice` (SliceRead); [deleg] / [fwd]: what
   `self.delegate.set_failed(failed)` / `R::set_failed(self, failed)` run, when the receiver has a delegate / is a `&mut R` *)
Definition sfcallee := st -> bool -> res (st * bool).
Fixpoint sf_stmts (has_slice : bool) (deleg : option (string -> sfcallee)) (fwd : option sfcallee)
                  (body : list sfstmt) (s : st) (failed : bool) : res (st * bool) :=
  match body with
  | [] => Ok (s, failed)
  | x :: r =>
    let* (s1, f1) :=
      match x with
      | SfSetFlag b => Ok (s, b)
      | SfTruncate k =>
        if has_slice
        then (if (k <=? length (rest s))%nat then Ok (mkSt (firstn k (rest s)) (off s) (pk s) (depth s), failed) else Panic)
        else Panic
      | SfDelegate ty => match deleg with Some d => d ty s failed | None => Panic end
      | SfForward => match fwd with Some d => d s failed | None => Panic end
      end in
    sf_stmts has_slice deleg fwd r s1 f1
  end.

Definition sf_body (T : rtable) (name : string) (k : list sfstmt -> res (st * bool)) : res (st * bool) :=
  match sfind name T with Some ri => k (ri_set_failed ri) | None => Panic end.
Definition sf_slice (T : rtable) : sfcallee := fun s failed =>
  sf_body T "SliceRead" (fun b => sf_stmts true None None b s failed).
(* <ty as Read>::set_failed(&mut self, failed: &mut bool) *)
Fixpoint run_set_failed (T : rtable) (t : rty) (s : st) (failed : bool) : res (st * bool) :=
  match t with
  | TyIo => sf_body T "IoRead" (fun b => sf_stmts false None None b s failed)
  | TySlice => sf_slice T s failed
  | TyStr => sf_body T "StrRead" (fun b =>
               sf_stmts false (Some (fun ty => if String.eqb ty "SliceRead" then sf_slice T else fun _ _ => Panic)) None b s failed)
  | TyMutRef r => sf_body T "&mut R" (fun b => sf_stmts false None (Some (run_set_failed T r)) b s failed)
  end.

(* ================================================================================================ PART B: Iterator::next *)
Inductive ncall := KParseWs | KItem | KPeekEnd.
Inductive npat := NpWild | NpVar (x : string) | NpUnit | NpNone | NpSome (p : npat) | NpOk (p : npat) | NpErr (p : npat).

Inductive nexpr :=
  | NUnitE
  | NNoneE | NSomeE (e : nexpr) | NOkE (e : nexpr) | NErrE (e : nexpr)
  | NBoolE (b : bool)
  | NVar (x : string)
  | NFailed                                     (* self.failed *)
  | NEarly                                      (* R::should_early_return_if_failed *)
  | NAnd (a b : nexpr) | NNot (a : nexpr)
  | NIsIo (x : string)                          (* x.is_io() *)
  | NCall (c : ncall)
  | NIf (c a b : nexpr)
  | NMatch (e : nexpr) (arms : list (npat * nexpr))
  | NMatchByte (x : string) (arms : list (ScanAst.bpat * nexpr))
  | NBlock (ss : list nstmt) (tail : nexpr)
with nstmt :=
  | NsLet (x : string) (e : nexpr)
  | NsSetOffset
  | NsSetFailed
  | NsIf (c : nexpr) (body : list nstmt)
  | NsReturn (e : nexpr).

Inductive nval :=
  | NvUnit | NvByte (b : byte) | NvBool (b : bool)
  | NvT (v : value)                             (* a deserialized T *)
  | NvE (c : ecode) (i : nat)                   (* a serde_json::Error *)
  | NvNone | NvSome (v : nval) | NvOk (v : nval) | NvErr (v : nval).
Definition nlocals := list (string * nval).

Fixpoint npat_match (p : npat) (v : nval) : option nlocals :=
  match p, v with
  | NpWild, _ => Some []
  | NpVar x, _ => Some [(x, v)]
  | NpUnit, NvUnit => Some []
  | NpNone, NvNone => Some []
  | NpSome q, NvSome w => npat_match q w
  | NpOk q, NvOk w => npat_match q w
  | NpErr q, NvErr w => npat_match q w
  | _, _ => None
  end.

Inductive site := SiteWs | SiteItem | SitePeekEnd.
Definition es_model : site -> st -> st := fun _ s => s.

(* how an evaluation ends: normally (with its value / the new locals) or by `return v` *)
Inductive outc (X : Type) := Normal (x : X) (m : sstate) | Return (v : nval) (m : sstate).
Arguments Normal {X} x m.
Arguments Return {X} v m.

Definition with_st (m : sstate) (s : st) : sstate := mkSS s (ss_off m) (ss_failed m).
Definition obyte_nval (o : option byte) : nval := match o with Some b => NvSome (NvByte b) | None => NvNone end.

Section Next.
Variable early : option bool.                           (* R::should_early_return_if_failed; None: not resolved *)
Variable SF : sfcallee.                                 (* R::set_failed *)
Variable WS : st -> res (option byte * st).             (* Deserializer::parse_whitespace *)
Variable PEV : st -> res st.                            (* StreamDeserializer::peek_end_of_value *)
Variable IP : st -> res (value * st).                   (* T::deserialize(&mut self.de) *)
Variable ES : site -> st -> st.

(* a callee's Result as a value; on Err the reader is where [ES] says *)
Definition call_result {X} (sv : site) (r : res X) (val : X -> nval) (st' : X -> st) (m : sstate) : res (outc nval) :=
  match r with
  | Ok x => Ok (Normal (NvOk (val x)) (with_st m (st' x)))
  | Err c i => Ok (Normal (NvErr (NvE c i)) (with_st m (ES sv (ss_st m))))
  | OutOfFuel => OutOfFuel
  | Panic => Panic
  end.

Definition as_bool (v : nval) : option bool := match v with NvBool b => Some b | _ => None end.

Fixpoint neval (e : nexpr) (l : nlocals) (m : sstate) {struct e} : res (outc nval) :=
  let wrap (e1 : nexpr) (f : nval -> nval) : res (outc nval) :=
    let* o := neval e1 l m in
    match o with Normal v m1 => Ok (Normal (f v) m1) | Return _ _ => Ok o end in
  match e with
  | NUnitE => Ok (Normal NvUnit m)
  | NNoneE => Ok (Normal NvNone m)
  | NSomeE e1 => wrap e1 NvSome
  | NOkE e1 => wrap e1 NvOk
  | NErrE e1 => wrap e1 NvErr
  | NBoolE b => Ok (Normal (NvBool b) m)
  | NVar x => match sfind x l with Some v => Ok (Normal v m) | None => Panic end
  | NFailed => Ok (Normal (NvBool (ss_failed m)) m)
  | NEarly => match early with Some b => Ok (Normal (NvBool b) m) | None => Panic end
  | NAnd a b =>                                          (* short-circuit *)
    let* o := neval a l m in
    match o with
    | Normal (NvBool true) m1 => neval b l m1
    | Normal (NvBool false) m1 => Ok (Normal (NvBool false) m1)
    | Normal _ _ => Panic
    | Return _ _ => Ok o
    end
  | NNot a =>
    let* o := neval a l m in
    match o with
    | Normal (NvBool c) m1 => Ok (Normal (NvBool (negb c)) m1)
    | Normal _ _ => Panic
    | Return _ _ => Ok o
    end
  | NIsIo x =>
    match sfind x l with
    | Some (NvE c _) => Ok (Normal (NvBool (match category c with CatIo => true | _ => false end)) m)
    | _ => Panic
    end
  | NCall KParseWs => call_result SiteWs (WS (ss_st m)) (fun x => obyte_nval (fst x)) snd m
  | NCall KItem => call_result SiteItem (IP (ss_st m)) (fun x => NvT (fst x)) snd m
  | NCall KPeekEnd => call_result SitePeekEnd (PEV (ss_st m)) (fun _ => NvUnit) (fun x => x) m
  | NIf c a b =>
    let* o := neval c l m in
    match o with
    | Normal (NvBool true) m1 => neval a l m1
    | Normal (NvBool false) m1 => neval b l m1
    | Normal _ _ => Panic
    | Return _ _ => Ok o
    end
  | NMatch e1 arms =>
    let* o := neval e1 l m in
    match o with
    | Normal v m1 =>
      (fix sel (arms : list (npat * nexpr)) : res (outc nval) :=
         match arms with
         | [] => Panic
         | (p, body) :: r => match npat_match p v with Some fr => neval body (fr ++ l) m1 | None => sel r end
         end) arms
    | Return _ _ => Ok o
    end
  | NMatchByte x arms =>
    match sfind x l with
    | Some (NvByte b) =>
      (fix sel (arms : list (ScanAst.bpat * nexpr)) : res (outc nval) :=
         match arms with
         | [] => Panic
         | (p, body) :: r => if ScanAst.bpat_match p b then neval body l m else sel r
         end) arms
    | _ => Panic
    end
  | NBlock ss tail =>
    (fix blk (ss : list nstmt) (l1 : nlocals) (m1 : sstate) : res (outc nval) :=
       match ss with
       | [] => neval tail l1 m1
       | s :: r =>
         let* o := nexec s l1 m1 in
         match o with Normal l2 m2 => blk r l2 m2 | Return v m2 => Ok (Return v m2) end
       end) ss l m
  end
with nexec (s : nstmt) (l : nlocals) (m : sstate) {struct s} : res (outc nlocals) :=
  match s with
  | NsLet x e =>
    let* o := neval e l m in
    match o with Normal v m1 => Ok (Normal ((x, v) :: l) m1) | Return v m1 => Ok (Return v m1) end
  | NsSetOffset => Ok (Normal l (mkSS (ss_st m) (off (ss_st m)) (ss_failed m)))
  | NsSetFailed =>
    let* (s1, f1) := SF (ss_st m) (ss_failed m) in Ok (Normal l (mkSS s1 (ss_off m) f1))
  | NsIf c body =>
    let* o := neval c l m in
    match o with
    | Normal (NvBool true) m1 =>
      (fix blk (ss : list nstmt) (l1 : nlocals) (m2 : sstate) : res (outc nlocals) :=
         match ss with
         | [] => Ok (Normal l m2)                       (* the block's declarations end with it *)
         | s1 :: r =>
           let* o1 := nexec s1 l1 m2 in
           match o1 with Normal l2 m3 => blk r l2 m3 | Return v m3 => Ok (Return v m3) end
         end) body l m1
    | Normal (NvBool false) m1 => Ok (Normal l m1)
    | Normal _ _ => Panic
    | Return v m1 => Ok (Return v m1)
    end
  | NsReturn e =>
    let* o := neval e l m in
    match o with Normal v m1 => Ok (Return v m1) | Return v m1 => Ok (Return v m1) end
  end.

(* Option<Result<T>> as Model/Stream.v writes it *)
Definition item_of (v : nval) : option (option item) :=
  match v with
  | NvNone => Some None
  | NvSome (NvOk (NvT t)) => Some (Some (IVal t))
  | NvSome (NvErr (NvE c i)) => Some (Some (IErr c i))
  | _ => None
  end.

Definition run_next_with (body : nexpr) (m : sstate) : res (option item * sstate) :=
  let* o := neval body [] m in
  let '(v, m1) := match o with Normal v m1 => (v, m1) | Return v m1 => (v, m1) end in
  match item_of v with Some it => Ok (it, m1) | None => Panic end.
End Next.

(* the callees run from their own translated bodies (Gen/CursorTables.v), as Model/DeAst.v does *)
Definition cfuel (s : st) : nat := (length (rest s) + 12)%nat.
Definition cur_ws (E : Read.env) (CT : ScanAst.table) (s : st) : res (option byte * st) :=
  let* (r, _, s') := ScanAst.run_scan (cfuel s) E CT "parse_whitespace" None s [] in
  match r with ScanAst.ROpt o => Ok (o, s') | _ => Panic end.
Definition cur_pev (E : Read.env) (CT : ScanAst.table) (s : st) : res st :=
  let* (r, _, s') := ScanAst.run_scan (cfuel s) E CT "peek_end_of_value" None s [] in
  match r with ScanAst.RUnit => Ok s' | _ => Panic end.

(* `stream.next()` for a StreamDeserializer<R, T> whose R is [t] *)
Definition run_next (t : rty) (E : Read.env) (CT : ScanAst.table) (RT : rtable) (ES : site -> st -> st)
                    (IP : st -> res (value * st)) (body : nexpr) (m : sstate) : res (option item * sstate) :=
  run_next_with (early_of RT t) (run_set_failed RT t) (cur_ws E CT) (cur_pev E CT) IP ES body m.

(* ================================================================================================ PART C: constructors *)
Inductive cexpr :=
  | CVar (x : string)
  | CField (e : cexpr) (f : string)
  | CByteOffset (e : cexpr)
  | CNum (n : N) | CBool (b : bool) | CPhantom | CVecNew
  | CStruct (ty : string) (fs : list (cfgg * string * cexpr))
  | CNew (ty : string) (args : list cexpr).
Record cfn := mkC { c_params : list string; c_lets : list (string * cexpr); c_result : cexpr }.
Definition ctable := list (string * cfn).

(* a reader: bytes to come, bytes consumed, peek slot (the cursor [st] without the deserializer's remaining_depth) *)
Record rdr := mkRdr { rd_rest : bytes; rd_off : nat; rd_pk : bool }.
Inductive cval :=
  | CvReader (r : rdr) | CvUsize (n : nat) | CvNum (n : N) | CvBool (b : bool) | CvPhantom | CvVec (l : bytes)
  | CvStruct (ty : string) (fs : list (string * cval)).
Definition cenv := list (string * cval).

Fixpoint bind_cparams (ps : list string) (vs : list cval) : option cenv :=
  match ps, vs with
  | [], [] => Some []
  | p :: ps', v :: vs' => match bind_cparams ps' vs' with Some e => Some ((p, v) :: e) | None => None end
  | _, _ => None
  end.

Section Ctor.
Variable B : build.
Variable T : ctable.

Fixpoint ceval (fuel : nat) (e : cexpr) (en : cenv) {struct fuel} : res cval :=
  match fuel with
  | O => OutOfFuel
  | S f =>
    match e with
    | CVar x => match sfind x en with Some v => Ok v | None => Panic end
    | CField e1 fd =>
      let* v := ceval f e1 en in
      match v with CvStruct _ fs => match sfind fd fs with Some w => Ok w | None => Panic end | _ => Panic end
    | CByteOffset e1 =>
      let* v := ceval f e1 en in
      match v with CvReader r => Ok (CvUsize (rd_off r)) | _ => Panic end
    | CNum n => Ok (CvNum n)
    | CBool b => Ok (CvBool b)
    | CPhantom => Ok CvPhantom
    | CVecNew => Ok (CvVec [])
    | CStruct ty fs =>
      let* vs :=
        (fix flds (fs : list (cfgg * string * cexpr)) : res (list (string * cval)) :=
           match fs with
           | [] => Ok []
           | (g, name, e1) :: r =>
             if cfg_on B g
             then (let* v := ceval f e1 en in let* vs := flds r in Ok ((name, v) :: vs))
             else flds r
           end) fs in
      Ok (CvStruct ty vs)
    | CNew ty args =>
      let* vs :=
        (fix evs (es : list cexpr) : res (list cval) :=
           match es with
           | [] => Ok []
           | e1 :: r => let* v := ceval f e1 en in let* vs := evs r in Ok (v :: vs)
           end) args in
      match sfind (ty ++ "::new") T with
      | None => Panic
      | Some d =>
        match bind_cparams (c_params d) vs with
        | None => Panic
        | Some en0 =>
          let* en1 :=
            (fix lets (ls : list (string * cexpr)) (en' : cenv) : res cenv :=
               match ls with
               | [] => Ok en'
               | (x, e1) :: r => let* v := ceval f e1 en' in lets r ((x, v) :: en')
               end) (c_lets d) en0 in
          ceval f (c_result d) en1
        end
      end
    end
  end.

Definition CFUEL : nat := 16.
(* calling function [fn] of the table on [args] (`self` is a parameter named "self") *)
Definition run_ctor (fn : string) (args : list cval) : res cval :=
  match sfind fn T with
  | None => Panic
  | Some d =>
    match bind_cparams (c_params d) args with
    | None => Panic
    | Some en0 =>
      let* en1 :=
        (fix lets (ls : list (string * cexpr)) (en' : cenv) : res cenv :=
           match ls with
           | [] => Ok en'
           | (x, e1) :: r => let* v := ceval CFUEL e1 en' in lets r ((x, v) :: en')
           end) (c_lets d) en0 in
      ceval CFUEL (c_result d) en1
    end
  end.
End Ctor.

(* the structs as values.  struct Deserializer<R> { read, scratch, remaining_depth, #[cfg(float_roundtrip)] single_precision,
   #[cfg(unbounded_depth)] disable_recursion_limit }  (field list pinned by the translator) *)
Record deser := mkDeser { d_read : rdr; d_scratch : bytes; d_depth : N; d_single : bool; d_nolimit : bool }.
Definition opt_field (B : build) (feature : string) (f : string * cval) : list (string * cval) := if B feature then [f] else [].
Definition deser_val (B : build) (d : deser) : cval :=
  CvStruct "Deserializer"
    ([("read", CvReader (d_read d)); ("scratch", CvVec (d_scratch d)); ("remaining_depth", CvNum (d_depth d))]
     ++ opt_field B "float_roundtrip" ("single_precision", CvBool (d_single d))
     ++ opt_field B "unbounded_depth" ("disable_recursion_limit", CvBool (d_nolimit d))).
(* struct StreamDeserializer<'de, R, T> { de, offset, failed, output, lifetime } *)
Definition stream_val (B : build) (d : deser) (offset : nat) (failed : bool) : cval :=
  CvStruct "StreamDeserializer"
    [("de", deser_val B d); ("offset", CvUsize offset); ("failed", CvBool failed); ("output", CvPhantom); ("lifetime", CvPhantom)].

(* Model/Stream.v's view of such a value: the cursor is the reader plus remaining_depth *)
Definition deser_st (d : deser) : st := mkSt (rd_rest (d_read d)) (rd_off (d_read d)) (rd_pk (d_read d)) (d_depth d).
Definition sstate_of (d : deser) (offset : nat) (failed : bool) : sstate := mkSS (deser_st d) offset failed.
Definition fresh_reader (input : bytes) : rdr := mkRdr input 0 false.
