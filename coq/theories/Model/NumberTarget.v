(* Model/NumberTarget.v — `serde_json::Number` as a DESERIALIZATION TARGET, both builds, both sources.

     src/number.rs   impl<'de> Deserialize<'de> for Number: `deserializer.deserialize_any(NumberVisitor)`
                     NumberVisitor::{visit_i64, visit_u64, visit_i128, visit_u128, visit_f64} and, under arbitrary_precision,
                     visit_map (NumberKey: the key must be the private token "$serde_json::private::Number"; then
                     NumberFromString: a string, re-read with `Number::from_str`); every other visit_* is serde's default:
                     `Err(invalid_type(..))`.
     text route      src/de.rs `<&mut Deserializer<R>>::deserialize_any` (the SAME dispatch as Model/De.v parse_value, with the
                     Number visitor instead of the Value visitor): ParserNumber::visit, check_recursion! + end_seq / end_map around
                     visit_seq / visit_map, fix_position on the way out; `from_trait` = this, then Deserializer::end.
                     Under arbitrary_precision an object is handed to NumberVisitor::visit_map over the TEXT MapAccess
                     (has_next_key, MapKey::deserialize_any, parse_object_colon, deserialize_str).
     Value route     src/value/de.rs `Value::deserialize_any` -> src/number.rs `deserialize_any!` (Model/ValueDe.v number_any) /
                     visit_array / `Map::deserialize_any` (MapDeserializer), `from_value::<Number>(v)` = `Number::deserialize(v)`.

   Errors.  serde's `de::Error::invalid_type / custom` build an error WITHOUT position ([NUnpos], as [TUnpos] of Model/DeTyped.v); on
   the text route `fix_position` at the end of deserialize_any gives it the reader's position, on the Value route it stays (0, 0).
   One more case exists here: `NumberFromString` does `s.parse::<Number>().map_err(de::Error::custom)`, and serde_json's
   `Error::custom` (src/error.rs make_error / parse_line_col) RE-PARSES the " at line L column C" suffix of the inner error's
   Display text.  So a failed re-read of the string under the private token is a data error whose line / column are those of the
   inner parser, i.e. relative to the STRING, not to the document: [NAt].  It is only reachable through a document / Value that spells
   the private token itself.  Because such a position is not an index into the input, the results of this file are [vres]
   (Model/ValueDe.v: code, line, column) for both routes.

   ASSUMED (as Model/ValueDe.v): ryu::Buffer::format_finite and <f64 as Display> are parameters ([fenv]); only the Value route of
   the arbitrary_precision build looks at them.  No proofs in this file. *)
From SJ Require Import Base.Bytes Base.Utf8 Base.FloatB Gen.Tables
  Model.Read Model.Str Model.Num Model.Value Model.De Model.NumberM Model.DeTyped Model.ValueDe.
From Flocq Require Import Core BinarySingleNaN.
Open Scope N_scope.

(* ---- results of the text route before rendering positions --------------------------------------------------------------------- *)
Inductive nres (A : Type) :=
  | NOk (a : A)
  | NErr (c : ecode) (idx : nat)            (* positioned in the input, as [Err] *)
  | NAt (k : msgkind) (line col : N)        (* data error carrying the position of ANOTHER text (custom(inner error)) *)
  | NUnpos (k : msgkind) (s : st)           (* data error with line = 0; [s] = reader state now *)
  | NFuel
  | NPanic.
Arguments NOk {A} a.
Arguments NErr {A} c idx.
Arguments NAt {A} k line col.
Arguments NUnpos {A} k s.
Arguments NFuel {A}.
Arguments NPanic {A}.

Definition of_res {A} (r : res A) : nres A :=
  match r with Ok a => NOk a | Err c i => NErr c i | OutOfFuel => NFuel | Panic => NPanic end.

Definition of_tres {A} (r : tres A) : nres A :=
  match r with TOk a => NOk a | TErr c i => NErr c i | TUnpos k s => NUnpos k s | TFuel => NFuel | TPanic => NPanic end.

Definition nbind {A B} (r : nres A) (f : A -> nres B) : nres B :=
  match r with
  | NOk a => f a
  | NErr c i => NErr c i
  | NAt k l c => NAt k l c
  | NUnpos k s => NUnpos k s
  | NFuel => NFuel
  | NPanic => NPanic
  end.
Notation "'let%' x ':=' r 'in' k" := (nbind r (fun x => k))
  (at level 200, x pattern, r at level 100, k at level 200, right associativity).

(* Deserializer::fix_position: only errors with line == 0 change *)
Definition nfix {A} (E : env) (r : nres A) : nres A :=
  match r with
  | NUnpos k s => NErr (Message k) (err_idx E s)
  | _ => r
  end.

(*  check_recursion! { eat_char(); let ret = visitor.visit_xxx(..) }
    match (ret, self.end_xxx()) { (Ok(ret), Ok(())) => Ok(ret), (Err(err), _) | (_, Err(err)) => Err(err) }
    ([frame] of Model/DeTyped.v on [nres]; [s1] has the opening bracket peeked) *)
Definition nframe {A} (E : env) (endf : env -> st -> res st) (endst : env -> st -> st)
    (body : st -> nres (A * st)) (s1 : st) : nres (A * st) :=
  let% s2 := of_res (enter E s1) in
  match body (discard s2) with
  | NOk (a, s3) => let% s4 := of_res (leave E s3) in let% s5 := of_res (endf E s4) in NOk (a, s5)
  | NUnpos k s3 => let% s4 := of_res (leave E s3) in NUnpos k (endst E s4)
  | r => r
  end.

(* ---- the visitor ------------------------------------------------------------------------------------------------------------------ *)
(* de::Error::custom(inner): the inner error's " at line L column C" is parsed back (error.rs parse_line_col).
   Every error of parse_any_signed_number is a syntax error with line >= 1; an Io error has no such suffix. *)
Definition custom_of_inner {A} (text : bytes) (c : ecode) (i : nat) (unpos : nres A) : nres A :=
  match c with
  | Io _ => unpos
  | _ => let '(line, col) := pos_of text i in NAt MCustom line col
  end.

(* NumberFromString's visitor: visit_str(s) = `s.parse::<Number>().map_err(de::Error::custom)` *)
Definition nfs_visit (cf : cfg) (str : bytes) (s : st) : nres (num * st) :=
  match number_from_str cf str with
  | Ok n => NOk (n, s)
  | Err c i => custom_of_inner str c i (NUnpos MCustom s)
  | OutOfFuel => NFuel
  | Panic => NPanic
  end.

(* ParserNumber::visit(NumberVisitor): visit_u64 / visit_i64 = From<u64> / From<i64>; visit_f64 = Number::from_f64 or
   custom("not a JSON number"); String(x) = visit_map(NumberDeserializer { number: x }): NumberKey gets the token from
   NumberFieldDeserializer, NumberFromString gets the text from serde's StringDeserializer (visit_string -> visit_str).
   PF64 under arbitrary_precision would need ryu; parse_any_number never produces it in that build
   (Proofs/ApNumber.v parse_any_number_no_f64): Panic stands for that unreachable arm. *)
Definition number_visit (cf : cfg) (p : pnum) (s : st) : nres (num * st) :=
  match p with
  | PU64 u => NOk (number_of_u64 cf u, s)
  | PI64 i => NOk (number_of_i64 cf i, s)
  | PF64 f =>
    if arbitrary_precision cf then NPanic
    else if b64_is_finite f then NOk (NFloat f, s) else NUnpos MCustom s
  | PString lit => if arbitrary_precision cf then nfs_visit cf lit s else NPanic      (* no such ParserNumber in the default build *)
  end.

(* ---- text route, arbitrary_precision: NumberVisitor::visit_map over the text MapAccess ------------------------------------------------ *)
(* NumberFromString::deserialize(&mut *de) = de.deserialize_str(Visitor) *)
Definition nfs_text (E : env) (s : st) : nres (num * st) :=
  let% (o, s1) := of_res (parse_whitespace E s) in
  match o with
  | None => of_res (peek_error E s1 EofWhileParsingValue)
  | Some b =>
    nfix E
      (if b =? 34 then let% (str, _, s2) := of_res (parse_str E (discard s1)) in nfs_visit (cf E) str s2
       else of_tres (peek_invalid_type E s1))
  end.

(* [s]: right after the `{`.
   next_key::<NumberKey>(): has_next_key; MapKey::deserialize_any (deserialize_identifier forwards to it): eat the quote, parse_str,
   FieldVisitor::visit_str: the private token or custom("expected field with custom name");
   None => invalid_type(Unexpected::Map);  next_value::<NumberFromString>(): parse_object_colon, then the seed *)
Definition number_visit_map_text (E : env) (s : st) : nres (num * st) :=
  let% o := of_res (has_next_key E true s) in
  match o with
  | None => NUnpos MInvalidType s
  | Some s1 =>
    let% (k, _, s2) := of_res (parse_str E (discard s1)) in
    if beq_bytes k NUMBER_TOKEN_V then
      let% s3 := of_res (parse_object_colon E s2) in
      nfs_text E s3
    else NUnpos MCustom s2
  end.

(* ---- text route: deserialize_any(NumberVisitor) ------------------------------------------------------------------------------------- *)
(* the dispatch of Model/De.v parse_value, arm by arm; visit_unit / visit_bool / visit_str / visit_borrowed_str / visit_seq and, in the
   default build, visit_map are serde's defaults: invalid_type, nothing consumed *)
Definition number_value (E : env) (s : st) : nres (num * st) :=
  let% (o, s1) := of_res (parse_whitespace E s) in
  match o with
  | None => of_res (peek_error E s1 EofWhileParsingValue)
  | Some b =>
    nfix E
      (if b =? 110 then let% s2 := of_res (parse_ident E lit_ull (discard s1)) in NUnpos MInvalidType s2
       else if b =? 116 then let% s2 := of_res (parse_ident E lit_rue (discard s1)) in NUnpos MInvalidType s2
       else if b =? 102 then let% s2 := of_res (parse_ident E lit_alse (discard s1)) in NUnpos MInvalidType s2
       else if b =? 45 then
         let% (p, s2) := of_res (parse_any_number E false (discard s1)) in number_visit (cf E) p s2
       else if is_digit b then
         let% (p, s2) := of_res (parse_any_number E true s1) in number_visit (cf E) p s2
       else if b =? 34 then
         let% (_, s2) := of_res (parse_str E (discard s1)) in NUnpos MInvalidType s2
       else if b =? 91 then
         nframe E end_seq end_seq_st (fun s' => NUnpos MInvalidType s') s1
       else if b =? 123 then
         nframe E end_map end_map_st
           (if arbitrary_precision (cf E) then number_visit_map_text E else (fun s' => NUnpos MInvalidType s')) s1
       else of_res (peek_error E s1 ExpectedSomeValue))
  end.

(* from_trait::<_, Number>: Number::deserialize(&mut de), then de.end() *)
Definition number_from_text_n (E : env) (input : bytes) : nres num :=
  let% (n, s1) := number_value E (init_st input) in
  let% _ := of_res (de_end E s1) in
  NOk n.

(* line / column as the error reports them (Io errors: 0 0, as [of_text] of Model/ValueDe.v) *)
Definition vres_of_res {A} (input : bytes) (r : res A) : vres A :=
  match r with
  | Ok a => VOk a
  | Err c i => match c with
               | Io _ => VErr c 0 0
               | _ => let '(line, col) := pos_of input i in VErr c line col
               end
  | OutOfFuel => VFuel
  | Panic => VPanic
  end.

Definition vres_of_nres {A} (input : bytes) (r : nres A) : vres A :=
  match r with
  | NOk a => VOk a
  | NErr c i => vres_of_res input (Err c i)
  | NAt k line col => VErr (Message k) line col
  | NUnpos k _ => VErr (Message k) 0 0          (* does not happen at top level: deserialize_any ends with fix_position *)
  | NFuel => VFuel
  | NPanic => VPanic
  end.

(* serde_json::from_str / from_slice / from_reader ::<Number> *)
Definition number_from_text (E : env) (input : bytes) : vres num := vres_of_nres input (number_from_text_n E input).

(* ---- Value route --------------------------------------------------------------------------------------------------------------------- *)
(* NumberFromString's visitor outside a reader *)
Definition nfs_value (cf : cfg) (str : bytes) : vres num :=
  match number_from_str cf str with
  | Ok n => VOk n
  | Err c i => match c with
               | Io _ => verr MCustom
               | _ => let '(line, col) := pos_of str i in VErr (Message MCustom) line col
               end
  | OutOfFuel => VFuel
  | Panic => VPanic
  end.

(* NumberVisitor as driven by Number::deserialize_any (deserialize_any! of src/number.rs, Model/ValueDe.v number_any) *)
Definition numbervis (cf : cfg) (fx : fenv) : numvis num :=
  mkNumvis
    (fun u => VOk (number_of_u64 cf u))
    (fun i => VOk (number_of_i64 cf i))
    (* visit_u128 / visit_i128: Number::from_u128 / from_i128 .ok_or_else(custom("JSON number out of range")) *)
    (fun u => if arbitrary_precision cf then VOk (NLit (itoa_z u))
              else if (u <=? U64_MAX)%Z then VOk (NPos (Z.to_N u)) else verr MCustom)
    (fun i => if arbitrary_precision cf then VOk (NLit (itoa_z i))
              else if (0 <=? i)%Z && (i <=? U64_MAX)%Z then VOk (NPos (Z.to_N i))
              else if (I64_MIN <=? i)%Z && (i <? 0)%Z then VOk (NNeg i) else verr MCustom)
    (* visit_f64: Number::from_f64(f).ok_or_else(custom("not a JSON number")) *)
    (fun f => if b64_is_finite f
              then VOk (if arbitrary_precision cf then NLit (ryu64 fx (bits_of_b64 f)) else NFloat f)
              else verr MCustom)
    (* visit_map over NumberDeserializer *)
    (fun s => if arbitrary_precision cf then nfs_value cf s else VPanic).

(* Number::deserialize(value) / from_value::<Number>(value) = value.deserialize_any(NumberVisitor).
   Null / Bool / String: visit_unit / visit_bool / visit_string defaults; Array: visit_array -> visit_seq default (tri!);
   Object: Map::deserialize_any -> visit_map over MapDeserializer: default build the default (invalid_type);
   arbitrary_precision: next_key::<NumberKey>() (None => invalid_type(Map); MapKeyDeserializer -> visit_string -> visit_str:
   the token or custom), next_value::<NumberFromString>() (Value::deserialize_str: a String or invalid_type),
   then `remaining == 0` or invalid_length("fewer elements in map").
   `Number::deserialize(&value)` runs the by-reference twins (MapRefDeserializer, visit_borrowed_str): same function. *)
Definition number_from_value (cf : cfg) (fx : fenv) (v : value) : vres num :=
  match v with
  | VNum n => number_any cf fx n (numbervis cf fx)
  | VObj l =>
    if arbitrary_precision cf then
      match l with
      | [] => verr MInvalidType
      | (k0, x0) :: r0 =>
        if beq_bytes k0 NUMBER_TOKEN_V then
          let& n := (match x0 with VStr s => nfs_value cf s | _ => verr MInvalidType end) in
          match r0 with [] => VOk n | _ :: _ => verr MInvalidLength end
        else verr MCustom
      end
    else verr MInvalidType
  | _ => verr MInvalidType
  end.
