(* Model/StrAst.v — the statement language tools/translate_str.py translates the ESCAPE DECODING of src/read.rs into, and its interpreter.
   Definitions only.

   Translated functions (free functions of read.rs, generic over `R: Read<'de>`, hence written once for SliceRead / StrRead / IoRead):
       parse_escape   parse_unicode_escape   push_wtf8_codepoint   ignore_escape   decode_four_hex_digits
   plus the data behind the statics HEX0 / HEX1: the arms of `decode_hex_val_slow` and the shift each table is built with.
   Gen/StrTables.v (GENERATED on every run) holds what the source says now; Proofs/StrSrc.v proves that the hand-written models of
   Model/Str.v are the interpretation of the translated bodies.

   The Rust subset (what the translator accepts; anything else is `BROKEN str:<fn>: <why>`):

     let [mut] x = tri!(RC);                                 SLetTri x RC     RC ::= next_or_eof(read) | peek_or_eof(read) | read.decode_hex_escape()
     tri!(RC);                                               STri RC          (value dropped)
     let [mut] x = E;                                        SLet x E         declared in the innermost block (shadowing as in Rust)
     x = E;                                                  SAssign x E      assigns the nearest enclosing declaration
     scratch.push(E);                                        SPush E          E : u8
     read.discard();                                         SDiscard
     f(E, .., scratch);                                      SCallUnit f [E..]   f : (.., &mut Vec<u8>) -> ()       (push_wtf8_codepoint)
     if C { .. } [else { .. }]                               SIf C a b        C ::= E cmp E | C && C | C || C | validate
     if tri!(RC) cmp E { .. } else { .. }                    SIfTri RC cmp E a b
     match x { BP => ARM, .. }                               SMatchByte x arms   x : u8; BP as in Model/ScanAst.v (reused); no arm: Panic
     loop { .. }                                             SLoop            left only by `return`; `continue` restarts the body
     continue;                                               SContinue
     return R; / R in tail position / return if C {..R} else {..R};          SRet R
         R ::= Ok(()) | return; (unit fn) | error(read, ErrorCode::X) | f(read, validate, scratch) | f(read) | Some(E) | None
     scratch.reserve(K); unsafe { let ptr = scratch.as_mut_ptr().add(scratch.len());
        let encoded_len = match x { UP => unreachable!(), UP => { ptr.write(E); ptr.add(k).write(E); .. L } .. };
        ptr.add(encoded_len - 1).write(E); scratch.set_len(scratch.len() + encoded_len); }
                                                             SAppendEncoded K x arms E
   ABSTRACTION (the only place where the translation is not statement-by-statement): the unsafe block of push_wtf8_codepoint writes through
   a raw pointer into the K reserved-but-uninitialised bytes after the vector's end and then bumps the length.  It is read as:
   "K fresh slots; `ptr.add(k).write(e)` fills slot k; `set_len(len + L)` appends slots 0..L-1" — and the interpreter yields [Panic] when a
   write lands outside the K reserved slots, when L = 0 (`encoded_len - 1` underflows) or L > K, when an appended slot was never written
   (uninitialised memory would be exposed), or when an `unreachable!()` arm is selected.  The frame around the arms is pinned by exact text.

   Expressions carry explicit integer types (the translator infers the type of every literal from the other operand / the context and
   rejects a mismatch):  E ::= literal | x | E as T | E - E | E + E | E `|` E | E & E | E << k | E >> k | TAB[E]   (T in u8 u16 u32 usize i16 i32)
     - `as T` wraps to T (two's complement), - and + PANIC on overflow of the operand type (overflow checks on; the equalities of
       Proofs/StrSrc.v show it never happens, so the wrapping release build computes the same), << drops the bits shifted out (Rust only
       checks the shift amount), >> is arithmetic on signed types.  usize is taken to be 64 bits (it only indexes the 256-entry tables).
     - TAB[E] reads a `static TAB: [i16; 256] = build_hex_table(shift)`: entry ch is, by the pinned body of build_hex_table,
       `match decode_hex_val_slow(ch as u8) { Some(val) => (val as i16) << shift, None => -1 }`; an index >= 256 is [Panic].
   `tri!(e)` is [bind].  `next_or_eof`, `peek_or_eof`, `error` (free functions of read.rs, pinned by exact text) are Model/Str.v next_or_eof /
   peek_or_eof and Model/Read.v error; `read.decode_hex_escape()` (a trait method with one implementation per reader) is Model/Str.v
   decode_hex_escape for the reader kind of the environment; `read.discard()` is Model/Read.v discard.
   `validate` is a parameter that is only ever passed on unchanged (checked by the translator), so it is a parameter of the interpreter.
   Loops and calls take explicit fuel as in Model/ScanAst.v: [OutOfFuel] when exhausted; a stuck program is [Panic]. *)
From Coq Require Import String.
From SJ Require Import Base.Bytes Model.Read Model.Str.
From SJ Require Model.ScanAst.
Open Scope Z_scope.

Notation bpat := ScanAst.bpat (only parsing).
Notation PLit := ScanAst.PLit (only parsing).
Notation PRange := ScanAst.PRange (only parsing).
Notation POr := ScanAst.POr (only parsing).
Notation PWild := ScanAst.PWild (only parsing).

(* ---- integer types ------------------------------------------------------------------------ *)
Inductive ity := U8 | U16 | U32 | Usize | I16 | I32.
Definition bits (t : ity) : Z := match t with U8 => 8 | U16 => 16 | U32 => 32 | Usize => 64 | I16 => 16 | I32 => 32 end.
Definition signed (t : ity) : bool := match t with I16 | I32 => true | _ => false end.
Definition ity_eqb (a b : ity) : bool :=
  match a, b with U8, U8 | U16, U16 | U32, U32 | Usize, Usize | I16, I16 | I32, I32 => true | _, _ => false end.
Definition in_range (t : ity) (z : Z) : bool :=
  if signed t then (- 2 ^ (bits t - 1) <=? z) && (z <? 2 ^ (bits t - 1)) else (0 <=? z) && (z <? 2 ^ bits t).
(* `as t` *)
Definition wrap (t : ity) (z : Z) : Z :=
  if signed t then (z + 2 ^ (bits t - 1)) mod 2 ^ bits t - 2 ^ (bits t - 1) else z mod 2 ^ bits t.

Definition val := (ity * Z)%type.

(* ---- syntax ------------------------------------------------------------------------------- *)
Inductive binop := OSub | OAdd | OOr | OAnd.
Inductive expr :=
  | ELit (t : ity) (v : Z)
  | EVar (x : string)
  | ECast (e : expr) (t : ity)
  | EBin (op : binop) (a b : expr)
  | EShl (e : expr) (k : Z)
  | EShr (e : expr) (k : Z)
  | EIndex (tab : string) (e : expr).
Inductive cmpop := CLt | CLe | CGt | CGe | CEq | CNe.
Inductive cond :=
  | CCmp (op : cmpop) (a b : expr)
  | CAnd (a b : cond)
  | COr (a b : cond)
  | CValidate.
Inductive rcall := CNextOrEof | CPeekOrEof | CDecodeHex.
Inductive rexpr :=
  | ROk                                   (* Ok(()) *)
  | RPlain                                (* `return;` of a function returning () *)
  | RErrAt (c : ecode)                    (* error(read, ErrorCode::c) *)
  | RCallFn (f : string)                  (* f(read, validate, scratch) / f(read) *)
  | RSome (e : expr) | RNone.
Inductive upat := UClosed (lo hi : Z) | UFrom (lo : Z).                  (* lo..=hi   lo.. *)
Inductive encarm := AUnreachable | AWrites (ws : list (Z * expr)) (len : Z).
Inductive stmt :=
  | SLetTri (x : string) (c : rcall)
  | STri (c : rcall)
  | SLet (x : string) (e : expr)
  | SAssign (x : string) (e : expr)
  | SPush (e : expr)
  | SDiscard
  | SCallUnit (f : string) (args : list expr)
  | SIf (c : cond) (a b : list stmt)
  | SIfTri (rc : rcall) (op : cmpop) (rhs : expr) (a b : list stmt)
  | SMatchByte (x : string) (arms : list (bpat * list stmt))
  | SLoop (body : list stmt)
  | SContinue
  | SRet (r : rexpr)
  | SAppendEncoded (reserve : Z) (x : string) (arms : list (upat * encarm)) (last : expr).

Inductive fkind := FResult | FUnit | FOption.        (* -> Result<()>,  no return type,  -> Option<u16> *)
Record fdef := mkFn { fparams : list (string * ity); fret : fkind; fbody : list stmt }.
(* the program: the functions, the statics (name, shift given to build_hex_table), the arms (lo, hi, base, add) of decode_hex_val_slow:
   `lo..=hi => Some(val - base + add)` *)
Record prog := mkProg { ptable : list (string * fdef); pstatics : list (string * Z); pslow : list (Z * Z * Z * Z) }.

(* ---- scoped locals (as in Model/ScanAst.v, over typed integers) ------------------------------ *)
Definition frame := list (string * val).
Definition locals := list frame.                                      (* innermost block first *)

Fixpoint lookup_frame (x : string) (fr : frame) : option val :=
  match fr with [] => None | (y, v) :: r => if String.eqb x y then Some v else lookup_frame x r end.
Fixpoint lookup (x : string) (l : locals) : option val :=
  match l with [] => None | fr :: r => match lookup_frame x fr with Some v => Some v | None => lookup x r end end.
Fixpoint assign_frame (x : string) (v : val) (fr : frame) : option frame :=
  match fr with
  | [] => None
  | (y, w) :: r => if String.eqb x y then Some ((y, v) :: r)
                   else match assign_frame x v r with Some r' => Some ((y, w) :: r') | None => None end
  end.
Fixpoint assign (x : string) (v : val) (l : locals) : option locals :=
  match l with
  | [] => None
  | fr :: r => match assign_frame x v fr with
               | Some fr' => Some (fr' :: r)
               | None => match assign x v r with Some r' => Some (fr :: r') | None => None end
               end
  end.
Definition declare (x : string) (v : val) (l : locals) : locals :=
  match l with fr :: r => ((x, v) :: fr) :: r | [] => [[(x, v)]] end.

(* ---- statics: HEX0 / HEX1 ---------------------------------------------------------------------- *)
Fixpoint slow_lookup (arms : list (Z * Z * Z * Z)) (v : Z) : option Z :=
  match arms with
  | [] => None                                                          (* _ => None *)
  | (lo, hi, base, add) :: r => if (lo <=? v) && (v <=? hi) then Some (v - base + add) else slow_lookup r v
  end.
(* build_hex_table(shift)[ch] *)
Definition hex_entry (P : prog) (shift ch : Z) : res Z :=
  match slow_lookup (pslow P) (wrap U8 ch) with
  | Some v => if in_range U8 v then Ok (wrap I16 (Z.shiftl (wrap I16 v) shift)) else Panic
  | None => Ok (-1)
  end.
Fixpoint assoc_s {A} (x : string) (l : list (string * A)) : option A :=
  match l with [] => None | (y, v) :: r => if String.eqb x y then Some v else assoc_s x r end.
Definition static_get (P : prog) (tab : string) (i : Z) : res val :=
  match assoc_s tab (pstatics P) with
  | None => Panic
  | Some shift => if (0 <=? i) && (i <? 256) then let* v := hex_entry P shift i in Ok (I16, v) else Panic
  end.

(* ---- expressions --------------------------------------------------------------------------- *)
Definition eval_bin (op : binop) (t : ity) (a b : Z) : res val :=
  match op with
  | OSub => if in_range t (a - b) then Ok (t, a - b) else Panic
  | OAdd => if in_range t (a + b) then Ok (t, a + b) else Panic
  | OOr => Ok (t, Z.lor a b)
  | OAnd => Ok (t, Z.land a b)
  end.

Fixpoint eval_expr (P : prog) (l : locals) (e : expr) : res val :=
  match e with
  | ELit t v => if in_range t v then Ok (t, v) else Panic
  | EVar x => match lookup x l with Some v => Ok v | None => Panic end
  | ECast e' t => let* (_, v) := eval_expr P l e' in Ok (t, wrap t v)
  | EBin op a b =>
    let* (ta, va) := eval_expr P l a in
    let* (tb, vb) := eval_expr P l b in
    if ity_eqb ta tb then eval_bin op ta va vb else Panic
  | EShl e' k => let* (t, v) := eval_expr P l e' in
                 if (0 <=? k) && (k <? bits t) then Ok (t, wrap t (Z.shiftl v k)) else Panic
  | EShr e' k => let* (t, v) := eval_expr P l e' in
                 if (0 <=? k) && (k <? bits t) then Ok (t, Z.shiftr v k) else Panic
  | EIndex tab e' => let* (t, i) := eval_expr P l e' in
                     match t with Usize => static_get P tab i | _ => Panic end
  end.

Definition cmp_eval (op : cmpop) (a b : Z) : bool :=
  match op with
  | CLt => a <? b | CLe => a <=? b | CGt => b <? a | CGe => b <=? a | CEq => a =? b | CNe => negb (a =? b)
  end.
Definition cmp_vals (op : cmpop) (a b : val) : res bool :=
  if ity_eqb (fst a) (fst b) then Ok (cmp_eval op (snd a) (snd b)) else Panic.

(* && and || are short-circuit; the operands here are pure and cannot fail differently, but the order is kept *)
Fixpoint eval_cond (P : prog) (validate : bool) (l : locals) (c : cond) : res bool :=
  match c with
  | CCmp op a b => let* va := eval_expr P l a in let* vb := eval_expr P l b in cmp_vals op va vb
  | CAnd a b => let* x := eval_cond P validate l a in if x then eval_cond P validate l b else Ok false
  | COr a b => let* x := eval_cond P validate l a in if x then Ok true else eval_cond P validate l b
  | CValidate => Ok validate
  end.

Fixpoint eval_args (P : prog) (l : locals) (es : list expr) : res (list val) :=
  match es with
  | [] => Ok []
  | e :: r => let* v := eval_expr P l e in let* vs := eval_args P l r in Ok (v :: vs)
  end.

(* ---- the reader calls ------------------------------------------------------------------------- *)
Definition eval_rcall (E : env) (rc : rcall) (s : st) : res (val * st) :=
  match rc with
  | CNextOrEof => let* (b, s') := Str.next_or_eof E s in Ok ((U8, Z.of_N b), s')
  | CPeekOrEof => let* (b, s') := Str.peek_or_eof E s in Ok ((U8, Z.of_N b), s')
  | CDecodeHex => let* (n, s') := Str.decode_hex_escape E s in Ok ((U16, Z.of_N n), s')
  end.

(* ---- the unsafe append ------------------------------------------------------------------------ *)
Definition upat_match (p : upat) (v : Z) : bool :=
  match p with UClosed lo hi => (lo <=? v) && (v <=? hi) | UFrom lo => lo <=? v end.
Fixpoint select_u (arms : list (upat * encarm)) (v : Z) : option encarm :=
  match arms with [] => None | (p, a) :: r => if upat_match p v then Some a else select_u r v end.
Fixpoint set_slot (k : nat) (b : N) (slots : list (option N)) : list (option N) :=
  match slots, k with
  | [], _ => []
  | _ :: r, O => Some b :: r
  | x :: r, S k' => x :: set_slot k' b r
  end.
Fixpoint eval_writes (P : prog) (l : locals) (ws : list (Z * expr)) (slots : list (option N)) : res (list (option N)) :=
  match ws with
  | [] => Ok slots
  | (k, e) :: r =>
    let* (t, v) := eval_expr P l e in
    match t with
    | U8 => if (0 <=? k) && (k <? Z.of_nat (length slots)) then eval_writes P l r (set_slot (Z.to_nat k) (Z.to_N v) slots) else Panic
    | _ => Panic
    end
  end.
Fixpoint collect (slots : list (option N)) : option bytes :=
  match slots with
  | [] => Some []
  | Some b :: r => match collect r with Some w => Some (b :: w) | None => None end
  | None :: _ => None
  end.
Definition append_encoded (P : prog) (l : locals) (reserve : Z) (v : Z) (arms : list (upat * encarm)) (last : expr) : res bytes :=
  match select_u arms v with
  | None | Some AUnreachable => Panic
  | Some (AWrites ws len) =>
    let* slots := eval_writes P l ws (repeat None (Z.to_nat reserve)) in
    if (1 <=? len) && (len <=? reserve) then
      let* slots' := eval_writes P l [(len - 1, last)] slots in
      match collect (firstn (Z.to_nat len) slots') with Some w => Ok w | None => Panic end
    else Panic
  end.

(* ---- execution -------------------------------------------------------------------------------- *)
Inductive retv := RvUnit | RvOpt (o : option val).
Inductive outcome :=
  | OFall (l : locals) (buf : bytes) (s : st)          (* the statement / block completed; control goes on *)
  | ORet (r : retv) (buf : bytes) (s : st)             (* the function returned (Ok of) r *)
  | OCont (l : locals) (buf : bytes) (s : st).         (* `continue`: the innermost loop body is restarted *)

Definition exec_t := stmt -> locals -> bytes -> st -> res outcome.
Definition call_t := string -> list val -> st -> bytes -> res (retv * bytes * st).

Fixpoint exec_block (ex : exec_t) (ss : list stmt) (l : locals) (buf : bytes) (s : st) : res outcome :=
  match ss with
  | [] => Ok (OFall l buf s)
  | x :: r => let* o := ex x l buf s in
              match o with OFall l' buf' s' => exec_block ex r l' buf' s' | _ => Ok o end
  end.

(* a nested block: its own frame, popped when the block is left *)
Definition exec_scope (ex : exec_t) (ss : list stmt) (l : locals) (buf : bytes) (s : st) : res outcome :=
  let* o := exec_block ex ss ([] :: l) buf s in
  match o with
  | OFall l' buf' s' => Ok (OFall (tl l') buf' s')
  | ORet _ _ _ => Ok o
  | OCont l' buf' s' => Ok (OCont (tl l') buf' s')
  end.

Fixpoint find_fn (fn : string) (T : list (string * fdef)) : option fdef :=
  match T with [] => None | (n, d) :: r => if String.eqb fn n then Some d else find_fn fn r end.

Fixpoint bind_params (ps : list (string * ity)) (args : list val) : option frame :=
  match ps, args with
  | [], [] => Some []
  | (x, t) :: ps', (ta, v) :: args' =>
    if ity_eqb t ta then match bind_params ps' args' with Some fr => Some ((x, (ta, v)) :: fr) | None => None end else None
  | _, _ => None
  end.

Definition call_fn (ex : exec_t) (P : prog) : call_t := fun fn args s buf =>
  match find_fn fn (ptable P) with
  | None => Panic
  | Some d =>
    match bind_params (fparams d) args with
    | None => Panic
    | Some fr =>
      let* o := exec_block ex (fbody d) [fr] buf s in
      match o with
      | ORet r buf' s' => Ok (r, buf', s')
      | OFall _ buf' s' => match fret d with FUnit => Ok (RvUnit, buf', s') | _ => Panic end
      | OCont _ _ _ => Panic
      end
    end
  end.

Fixpoint select_b (arms : list (bpat * list stmt)) (b : N) : option (list stmt) :=
  match arms with [] => None | (p, body) :: r => if ScanAst.bpat_match p b then Some body else select_b r b end.

Definition eval_ret (call : call_t) (P : prog) (E : env) (r : rexpr) (l : locals) (buf : bytes) (s : st) : res outcome :=
  match r with
  | ROk | RPlain => Ok (ORet RvUnit buf s)
  | RErrAt c => error E s c
  | RCallFn f => let* (rv, buf', s') := call f [] s buf in Ok (ORet rv buf' s')
  | RSome e => let* v := eval_expr P l e in Ok (ORet (RvOpt (Some v)) buf s)
  | RNone => Ok (ORet (RvOpt None) buf s)
  end.

Fixpoint exec (fuel : nat) (E : env) (validate : bool) (P : prog) (x : stmt) (l : locals) (buf : bytes) (s : st) {struct fuel}
  : res outcome :=
  match fuel with
  | O => OutOfFuel
  | S f =>
    match x with
    | SLetTri v rc => let* (w, s') := eval_rcall E rc s in Ok (OFall (declare v w l) buf s')
    | STri rc => let* (_, s') := eval_rcall E rc s in Ok (OFall l buf s')
    | SLet v e => let* w := eval_expr P l e in Ok (OFall (declare v w l) buf s)
    | SAssign v e =>
      let* w := eval_expr P l e in
      match lookup v l with
      | Some (t, _) => if ity_eqb t (fst w) then match assign v w l with Some l' => Ok (OFall l' buf s) | None => Panic end else Panic
      | None => Panic
      end
    | SPush e => let* (t, v) := eval_expr P l e in
                 match t with U8 => Ok (OFall l (buf ++ [Z.to_N v]) s) | _ => Panic end
    | SDiscard => Ok (OFall l buf (discard s))
    | SCallUnit fn args =>
      let* vs := eval_args P l args in
      let* (r, buf', s') := call_fn (exec f E validate P) P fn vs s buf in
      match r with RvUnit => Ok (OFall l buf' s') | _ => Panic end
    | SIf c a b =>
      let* t := eval_cond P validate l c in
      if t then exec_scope (exec f E validate P) a l buf s else exec_scope (exec f E validate P) b l buf s
    | SIfTri rc op rhs a b =>
      let* (w, s') := eval_rcall E rc s in
      let* r := eval_expr P l rhs in
      let* t := cmp_vals op w r in
      if t then exec_scope (exec f E validate P) a l buf s' else exec_scope (exec f E validate P) b l buf s'
    | SMatchByte v arms =>
      match lookup v l with
      | Some (U8, b) =>
        match select_b arms (Z.to_N b) with
        | Some body => exec_scope (exec f E validate P) body l buf s
        | None => Panic
        end
      | _ => Panic
      end
    | SLoop body =>
      let* o := exec_scope (exec f E validate P) body l buf s in
      match o with
      | OFall l' buf' s' | OCont l' buf' s' => exec f E validate P (SLoop body) l' buf' s'
      | ORet _ _ _ => Ok o
      end
    | SContinue => Ok (OCont l buf s)
    | SRet r => eval_ret (call_fn (exec f E validate P) P) P E r l buf s
    | SAppendEncoded reserve v arms last =>
      match lookup v l with
      | Some (_, n) => let* w := append_encoded P l reserve n arms last in Ok (OFall l (buf ++ w) s)
      | None => Panic
      end
    end
  end.

(* calling function [fn] of program [P] with arguments [args], cursor [s] and scratch buffer [buf] *)
Definition run_str (fuel : nat) (E : env) (validate : bool) (P : prog) (fn : string) (args : list val) (s : st) (buf : bytes)
  : res (retv * bytes * st) :=
  call_fn (exec fuel E validate P) P fn args s buf.
