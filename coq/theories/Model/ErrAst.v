(* Model/ErrAst.v — the statement language tools/translate_err.py translates src/error.rs into, and its interpreter.  Definitions only.

   Translated items (Gen/ErrTables.v, GENERATED on every run, holds what the source says now; Proofs/ErrSrc.v proves that the hand-written
   models — Model/ErrMsg.v, the [category] table of Gen/Tables.v — are the interpretation of the translated bodies):
       Error::{line, column, classify, is_io, is_syntax, is_data, is_eof, io_error_kind, syntax, io, fix_position}
       <io::Error as From<Error>>::from                                         "io::Error::from"
       <ErrorCode as Display>::fmt, <Error as Display>::fmt, <ErrorImpl as Display>::fmt, <JsonUnexpected as Display>::fmt     "T::fmt"
       <Error as de::Error>::{custom, invalid_type, invalid_value}, <Error as ser::Error>::custom
       fn make_error, fn parse_line_col, fn starts_with_digit
       enum ErrorCode, enum Category (variants with arity), struct Error / ErrorImpl / JsonUnexpected (field names)

   The Rust subset (anything else is `BROKEN err:<item>: <why>`):

     let [mut] x = E;   let (x, y) = E;                         SLet / SLetTuple      declared in the innermost block
     let x = match E { P => E', P => return E'', .. };          SLetMatch x E arms    an arm is (pattern, block, tail value); an arm without
                                                                                      tail value must leave the function
     x += E;                                                    SAddAssign
     x.truncate(E);                                             STruncate             String::truncate
     if E { .. } [else { .. }]                                  SIf
     while E { .. }                                             SWhile
     match E { P | P => R, .. }   if let P = E { .. } else { .. }   SMatch            first matching arm (an or-pattern is several arms with one body);
                                                                                      no arm matches: Panic
     return E; / E in tail position                             SRet
     unreachable!()                                             SUnreachable          Panic
     P ::= Path::Variant | Path::Variant(x | _ | &x, ..) | Some(..) | None | Ok(..) | Err(..) | x | _
     E ::= 0 | b'c' | ".." | true | false | x | &mut x | E.f | E.0 | &E | *E | (E, ..) | Enum::V[(E..)] | S { f: E, .. } | S(E)
         | E + E | E == E | E < E | E <= E | E >= E | E > E | E && E | !E | &E[E..] | &E[E..E]
         | E.len() | E.rfind(E) | E.starts_with(E) | E.as_bytes() | E.first() | E.unwrap_or(E) | E.into_boxed_str() | Box::new(E)
         | usize::from_str(E) | io::Error::new(E, E) | E.kind() | ryu::Buffer::new().format(E)                          EPrim
         | f(E..) (a function of the file) | E.classify() | Error::custom(E)                                          ECall
         | f(E) (f a closure parameter)                                                                               ECallClosure
         | f.write_str(E) | Display::fmt(E, f) | write!(f, "..{}..", E..) | format_args!("..{}..", E..) | E.to_string()

   Values and what is ASSUMED about the world outside the file:
     * usize is 64 bits; `+` on usize PANICS when the result leaves the type (overflow checks on; Proofs/ErrSrc.v shows it does not happen for
       strings shorter than 2^63 bytes, and every Rust String is).
     * `&`, `*`, `Box::new`, `into_boxed_str` do not change a value (a Box<ErrorImpl> is the ErrorImpl, a Box<str> / String / &str is its bytes);
       a by-value parameter is a copy.  `&mut x` passed to a function of the file: the callee works on its own copy of the value of x and the caller's x
       receives the callee's final value when the call returns (the file passes `&mut` only to calls whose result is used after they return).
     * str::rfind(&str) = ErrMsg.rfind (greatest byte index at which the pattern matches), str::starts_with = ErrMsg.starts_with,
       &s[i..] / &s[i..j] = ErrMsg.slice_from / ErrMsg.slice (PANIC unless ordered char boundaries), String::truncate = ErrMsg.truncate,
       s.len() in bytes, s.as_bytes().first() the first byte.
     * usize::from_str = [parse_usize] below: an optional single leading `+`, then one or more ASCII digits, value <= 2^64 - 1; everything else
       (empty, lone sign, `-`, other bytes, overflow) is Err(ParseIntError).  (core::num: from_str_radix(src, 10) for an unsigned type.)
     * fmt::Formatter is the text written so far ([VFmt]); write_str appends and returns Ok(()); the sink never fails (the Formatters that reach
       this code write into a String: `to_string`; an io-backed sink could fail, then fmt returns Err at that point — not modelled).
       `{}` without flags: <str as Display> writes the bytes, <usize as Display> writes Model/Num.v [itoa] (minimal decimal digits),
       fmt::Arguments writes its pieces in order; `x.to_string()` is the text Display::fmt writes into an empty buffer.
       Display::fmt(x, f) on a value of a type of this file runs the translated `impl Display for T` ("T::fmt").
     * foreign values are [VOpaque ty text]: all this code can do with them is Display them, which writes [text]
       (serde's `de::Unexpected` other than Unit / Float, `&dyn de::Expected`, the ParseIntError, the source of a foreign io::Error).
       std::io::Error is [VIoError kind payload]: kind() = kind; Display = Display of the payload (io::Error::new(kind, e) displays e;
       an io::Error that comes from elsewhere has an opaque payload).
     * ryu::Buffer::new().format(x) is the parameter [ryu] (f64 bits -> text).
     * a closure parameter is [VClosure id]; calling it is the parameter [clos id].
     * `==` is defined on usize and on the field-less enums that derive PartialEq (prog's [peq]: Category).
   Calls, blocks and loop iterations take explicit fuel: [OutOfFuel] when exhausted; a stuck program is [Panic]. *)
From Coq Require Import String.
From SJ Require Import Base.Bytes Model.Num Model.ErrMsg.
Open Scope N_scope.

(* ---- values ------------------------------------------------------------------------------------- *)
Inductive xval :=
  | VUsize (n : N)
  | VU8 (n : N)
  | VBool (b : bool)
  | VF64 (bits : N)
  | VStr (s : bytes)                                  (* &str, String, Box<str> *)
  | VSlice (s : bytes)                                (* &[u8] *)
  | VTuple (vs : list xval)                           (* (a, b); () is VTuple [] *)
  | VEnum (ty variant : string) (args : list xval)    (* ErrorCode::Io(e), Category::Eof, Option::Some(v), Result::Ok(v), ErrorKind::InvalidData, .. *)
  | VStruct (name : string) (fields : list (string * xval))
  | VIoError (kind : xval) (payload : xval)           (* std::io::Error *)
  | VOpaque (ty : string) (text : bytes)              (* a foreign value: only its Display text *)
  | VArgs (pieces : list xval)                        (* fmt::Arguments *)
  | VFmt (buf : bytes)                                (* fmt::Formatter: the text written so far *)
  | VClosure (id : nat).

Definition v_unit : xval := VTuple [].
Definition v_ok (v : xval) : xval := VEnum "Result" "Ok" [v].
Definition v_err (v : xval) : xval := VEnum "Result" "Err" [v].
Definition v_some (v : xval) : xval := VEnum "Option" "Some" [v].
Definition v_none : xval := VEnum "Option" "None" [].
Definition v_opt (o : option xval) : xval := match o with Some v => v_some v | None => v_none end.

(* ---- syntax ------------------------------------------------------------------------------------- *)
Inductive binop := OAdd | OEq | OLt | OLe | OGe | OGt.
Inductive prim := PLen | PRfind | PStartsWith | PAsBytes | PFirst | PUnwrapOr | PIntoBoxedStr | PBoxNew | PUsizeFromStr
                | PIoErrorNew | PIoKind | PRyuFormat.
Inductive pat :=
  | PVariant (ty variant : string) (binders : list (option string))      (* None: `_` *)
  | PBind (x : string)
  | PWild.
Inductive expr :=
  | EUsize (n : N)
  | EByte (n : N)                                  (* b'c' *)
  | EBool (b : bool)
  | EStrLit (s : bytes)                            (* ".." *)
  | EVar (x : string)
  | EMutRef (x : string)                           (* `&mut x` as a call argument (or a `&mut` parameter handed on) *)
  | EField (e : expr) (f : string)                 (* e.f, e.0 *)
  | ERef (e : expr)                                (* &e *)
  | EDeref (e : expr)                              (* *e *)
  | ETuple (es : list expr)
  | ECtor (ty variant : string) (args : list expr)
  | EStruct (name : string) (fields : list string) (es : list expr)
  | EBin (op : binop) (a b : expr)
  | EAnd (a b : expr)                              (* a && b *)
  | ENot (e : expr)
  | ESliceFrom (e a : expr)                        (* &e[a..] *)
  | ESliceRange (e a b : expr)                     (* &e[a..b] *)
  | EPrim (p : prim) (args : list expr)
  | ECall (f : string) (args : list expr)
  | ECallClosure (x : string) (args : list expr)
  | EWriteStr (f : string) (e : expr)              (* f.write_str(e) *)
  | EDisplayFmt (e : expr) (f : string)            (* Display::fmt(e, f) *)
  | EWrite (f : string) (pieces : list expr)       (* write!(f, "..{}..", e..): the literal pieces are EStrLit *)
  | EFormatArgs (pieces : list expr)               (* format_args!("..{}..", e..) *)
  | EToString (e : expr).                          (* e.to_string() *)
Inductive stmt :=
  | SLet (x : string) (e : expr)
  | SLetTuple (xs : list string) (e : expr)
  | SLetMatch (x : string) (scrut : expr) (arms : list (pat * (list stmt * option expr)))
  | SAddAssign (x : string) (e : expr)
  | STruncate (x : string) (e : expr)
  | SIf (c : expr) (a b : list stmt)
  | SWhile (c : expr) (body : list stmt)
  | SMatch (scrut : expr) (arms : list (pat * list stmt))
  | SRet (e : expr)
  | SUnreachable.

(* a parameter: name, passed as `&mut` *)
Record fdef := mkFn { fparams : list (string * bool); fbody : list stmt }.
Record prog := mkProg {
  pfns : list (string * fdef);
  penums : list (string * list (string * nat));      (* the enums of the file: variant, number of fields *)
  pstructs : list (string * list string);            (* the structs of the file: field names in declaration order *)
  peq : list string }.                               (* the enums that derive PartialEq *)

(* ---- scoped locals (as Model/EscAst.v) -------------------------------------------------------------- *)
Definition frame := list (string * xval).
Definition locals := list frame.                        (* innermost block first *)
Fixpoint assoc_s {A} (x : string) (l : list (string * A)) : option A :=
  match l with [] => None | (y, v) :: r => if String.eqb x y then Some v else assoc_s x r end.
Fixpoint lookup (x : string) (l : locals) : option xval :=
  match l with [] => None | fr :: r => match assoc_s x fr with Some v => Some v | None => lookup x r end end.
Fixpoint assign_frame (x : string) (v : xval) (fr : frame) : option frame :=
  match fr with
  | [] => None
  | (y, w) :: r => if String.eqb x y then Some ((y, v) :: r)
                   else match assign_frame x v r with Some r' => Some ((y, w) :: r') | None => None end
  end.
Fixpoint assign (x : string) (v : xval) (l : locals) : option locals :=
  match l with
  | [] => None
  | fr :: r => match assign_frame x v fr with
               | Some fr' => Some (fr' :: r)
               | None => match assign x v r with Some r' => Some (fr :: r') | None => None end
               end
  end.
Definition declare (x : string) (v : xval) (l : locals) : locals :=
  match l with fr :: r => ((x, v) :: fr) :: r | [] => [[(x, v)]] end.
Definition assign_res (x : string) (v : xval) (l : locals) : res locals :=
  match assign x v l with Some l' => Ok l' | None => Panic end.
Definition lookup_res (x : string) (l : locals) : res xval :=
  match lookup x l with Some v => Ok v | None => Panic end.
Fixpoint mem_s (x : string) (l : list string) : bool :=
  match l with [] => false | y :: r => String.eqb x y || mem_s x r end.
Fixpoint eqb_names (a b : list string) : bool :=
  match a, b with
  | [], [] => true
  | x :: a', y :: b' => String.eqb x y && eqb_names a' b'
  | _, _ => false
  end.

(* ---- std -------------------------------------------------------------------------------------------- *)
Definition USIZE_LIM : N := 18446744073709551616.        (* 2^64 *)
Definition in_usize (n : N) : bool := n <? USIZE_LIM.

(* usize::from_str *)
Definition parse_usize (s : bytes) : option N :=
  let ds := match s with 43 :: r => r | _ => s end in
  match ds with
  | [] => None
  | _ => if forallb is_digit ds
         then let v := fold_left (fun a c => a * 10 + (c - 48)) ds 0 in if in_usize v then Some v else None
         else None
  end.

Definition is_unit_ok (v : xval) : bool :=
  match v with
  | VEnum ty variant [VTuple []] => String.eqb ty "Result" && String.eqb variant "Ok"
  | _ => false
  end.

Section Interp.
Variable ryu : N -> bytes.                               (* ryu::Buffer::format on the bits of an f64 *)
Variable clos : nat -> list xval -> res xval.            (* the closures handed to the code *)
Variable P : prog.

Definition eval_prim (p : prim) (vs : list xval) : res xval :=
  match p, vs with
  | PLen, [VStr s] => let n := N.of_nat (length s) in if in_usize n then Ok (VUsize n) else Panic
  | PRfind, [VStr s; VStr q] => Ok (v_opt (option_map (fun i => VUsize (N.of_nat i)) (rfind s q)))
  | PStartsWith, [VStr s; VStr q] => Ok (VBool (starts_with s q))
  | PAsBytes, [VStr s] => Ok (VSlice s)
  | PFirst, [VSlice s] => Ok (v_opt (match s with [] => None | b :: _ => Some (VU8 b) end))
  | PUnwrapOr, [VEnum ty variant args; d] =>
    if String.eqb ty "Option" then
      match args with
      | [v] => if String.eqb variant "Some" then Ok v else Panic
      | [] => if String.eqb variant "None" then Ok d else Panic
      | _ => Panic
      end
    else Panic
  | PIntoBoxedStr, [VStr s] => Ok (VStr s)
  | PBoxNew, [v] => Ok v
  | PUsizeFromStr, [VStr s] => Ok (match parse_usize s with
                                  | Some n => v_ok (VUsize n)
                                  | None => v_err (VOpaque "ParseIntError" [])
                                  end)
  | PIoErrorNew, [k; v] => Ok (VIoError k v)
  | PIoKind, [VIoError k _] => Ok k
  | PRyuFormat, [VF64 b] => Ok (VStr (ryu b))
  | _, _ => Panic
  end.

Definition eval_bin (op : binop) (a b : xval) : res xval :=
  match op, a, b with
  | OAdd, VUsize x, VUsize y => if in_usize (x + y) then Ok (VUsize (x + y)) else Panic
  | OEq, VUsize x, VUsize y => Ok (VBool (x =? y))
  | OEq, VEnum t1 v1 [], VEnum t2 v2 [] =>
    if String.eqb t1 t2 && mem_s t1 (peq P) then Ok (VBool (String.eqb v1 v2)) else Panic
  | OLt, VUsize x, VUsize y | OLt, VU8 x, VU8 y => Ok (VBool (x <? y))
  | OLe, VUsize x, VUsize y | OLe, VU8 x, VU8 y => Ok (VBool (x <=? y))
  | OGe, VUsize x, VUsize y | OGe, VU8 x, VU8 y => Ok (VBool (y <=? x))
  | OGt, VUsize x, VUsize y | OGt, VU8 x, VU8 y => Ok (VBool (y <? x))
  | _, _, _ => Panic
  end.

Definition slice_from_val (v a : xval) : res xval :=
  match v, a with
  | VStr s, VUsize i => let* r := slice_from s (N.to_nat i) in Ok (VStr r)
  | _, _ => Panic
  end.
Definition slice_range_val (v a b : xval) : res xval :=
  match v, a, b with
  | VStr s, VUsize i, VUsize j => let* r := slice s (N.to_nat i) (N.to_nat j) in Ok (VStr r)
  | _, _, _ => Panic
  end.

Definition field_val (v : xval) (f : string) : res xval :=
  match v with
  | VStruct _ fs => match assoc_s f fs with Some w => Ok w | None => Panic end
  | _ => Panic
  end.

Definition ctor_val (ty variant : string) (vs : list xval) : res xval :=
  match assoc_s ty (penums P) with
  | Some variants =>
    match assoc_s variant variants with
    | Some n => if Nat.eqb n (length vs) then Ok (VEnum ty variant vs) else Panic
    | None => Panic
    end
  | None => Ok (VEnum ty variant vs)            (* Option, Result, ErrorKind: not enums of the file *)
  end.
Definition struct_val (name : string) (fs : list string) (vs : list xval) : res xval :=
  match assoc_s name (pstructs P) with
  | Some decl => if eqb_names decl fs && Nat.eqb (length fs) (length vs) then Ok (VStruct name (combine fs vs)) else Panic
  | None => Panic
  end.

(* ---- expressions: evaluation threads the locals (a call may write a `&mut` argument back; write_str changes the formatter) ---- *)
Section Eval.
Variable call : string -> list xval -> res (xval * list xval).    (* a function of the file: result, final values of its parameters *)

Definition call_fmt (ty : string) (v : xval) (buf : bytes) : res bytes :=
  let* (r, finals) := call (ty ++ "::fmt")%string [v; VFmt buf] in
  match finals with
  | [_; VFmt b] => if is_unit_ok r then Ok b else Panic
  | _ => Panic
  end.

(* Display::fmt(v, f) where f holds [buf]: the new contents of f *)
Fixpoint fmt_into (v : xval) (buf : bytes) {struct v} : res bytes :=
  match v with
  | VStr s => Ok (buf ++ s)
  | VUsize n => Ok (buf ++ itoa n)
  | VOpaque _ t => Ok (buf ++ t)
  | VIoError _ p => fmt_into p buf
  | VArgs ps => (fix go (ps : list xval) (buf : bytes) : res bytes :=
                   match ps with [] => Ok buf | p :: r => let* b := fmt_into p buf in go r b end) ps buf
  | VStruct name _ => call_fmt name v buf
  | VEnum ty _ _ => call_fmt ty v buf
  | _ => Panic
  end.
Fixpoint fmt_pieces (ps : list xval) (buf : bytes) : res bytes :=
  match ps with [] => Ok buf | p :: r => let* b := fmt_into p buf in fmt_pieces r b end.

(* after a call: the arguments written `&mut x` receive the callee's final parameter values; argument and parameter modes must agree *)
Fixpoint write_back (args : list expr) (modes : list (string * bool)) (finals : list xval) (l : locals) : res locals :=
  match args, modes, finals with
  | [], [], [] => Ok l
  | EMutRef x :: args', (_, true) :: modes', v :: finals' => let* l1 := assign_res x v l in write_back args' modes' finals' l1
  | EMutRef _ :: _, _, _ => Panic
  | _ :: args', (_, false) :: modes', _ :: finals' => write_back args' modes' finals' l
  | _, _, _ => Panic
  end.

Definition fmt_buf (f : string) (l : locals) : res bytes :=
  match lookup f l with Some (VFmt b) => Ok b | _ => Panic end.

Fixpoint eval (e : expr) (l : locals) {struct e} : res (xval * locals) :=
  let eval_list := fix go (es : list expr) (l : locals) : res (list xval * locals) :=
    match es with
    | [] => Ok ([], l)
    | x :: r => let* (v, l1) := eval x l in let* (vs, l2) := go r l1 in Ok (v :: vs, l2)
    end in
  match e with
  | EUsize n => if in_usize n then Ok (VUsize n, l) else Panic
  | EByte n => if n <? 256 then Ok (VU8 n, l) else Panic
  | EBool b => Ok (VBool b, l)
  | EStrLit s => Ok (VStr s, l)
  | EVar x => let* v := lookup_res x l in Ok (v, l)
  | EMutRef x => let* v := lookup_res x l in Ok (v, l)
  | EField e' f => let* (v, l1) := eval e' l in let* w := field_val v f in Ok (w, l1)
  | ERef e' => eval e' l
  | EDeref e' => eval e' l
  | ETuple es => let* (vs, l1) := eval_list es l in Ok (VTuple vs, l1)
  | ECtor ty variant args => let* (vs, l1) := eval_list args l in let* v := ctor_val ty variant vs in Ok (v, l1)
  | EStruct name fs es => let* (vs, l1) := eval_list es l in let* v := struct_val name fs vs in Ok (v, l1)
  | EBin op a b => let* (va, l1) := eval a l in let* (vb, l2) := eval b l1 in let* v := eval_bin op va vb in Ok (v, l2)
  | EAnd a b => let* (va, l1) := eval a l in
                match va with
                | VBool false => Ok (VBool false, l1)
                | VBool true => let* (vb, l2) := eval b l1 in match vb with VBool _ => Ok (vb, l2) | _ => Panic end
                | _ => Panic
                end
  | ENot e' => let* (v, l1) := eval e' l in match v with VBool b => Ok (VBool (negb b), l1) | _ => Panic end
  | ESliceFrom e' a => let* (v, l1) := eval e' l in let* (va, l2) := eval a l1 in let* w := slice_from_val v va in Ok (w, l2)
  | ESliceRange e' a b => let* (v, l1) := eval e' l in let* (va, l2) := eval a l1 in let* (vb, l3) := eval b l2 in
                          let* w := slice_range_val v va vb in Ok (w, l3)
  | EPrim p args => let* (vs, l1) := eval_list args l in let* v := eval_prim p vs in Ok (v, l1)
  | ECall f args =>
    let* (vs, l1) := eval_list args l in
    match assoc_s f (pfns P) with
    | Some d => let* (r, finals) := call f vs in
                let* l2 := write_back args (fparams d) finals l1 in
                Ok (r, l2)
    | None => Panic
    end
  | ECallClosure x args =>
    let* (vs, l1) := eval_list args l in
    match lookup x l1 with
    | Some (VClosure id) => let* r := clos id vs in Ok (r, l1)
    | _ => Panic
    end
  | EWriteStr f e' =>
    let* (v, l1) := eval e' l in
    let* buf := fmt_buf f l1 in
    match v with
    | VStr s => let* l2 := assign_res f (VFmt (buf ++ s)) l1 in Ok (v_ok v_unit, l2)
    | _ => Panic
    end
  | EDisplayFmt e' f =>
    let* (v, l1) := eval e' l in
    let* buf := fmt_buf f l1 in
    let* b := fmt_into v buf in
    let* l2 := assign_res f (VFmt b) l1 in
    Ok (v_ok v_unit, l2)
  | EWrite f pieces =>
    let* (vs, l1) := eval_list pieces l in
    let* buf := fmt_buf f l1 in
    let* b := fmt_pieces vs buf in
    let* l2 := assign_res f (VFmt b) l1 in
    Ok (v_ok v_unit, l2)
  | EFormatArgs pieces => let* (vs, l1) := eval_list pieces l in Ok (VArgs vs, l1)
  | EToString e' => let* (v, l1) := eval e' l in let* b := fmt_into v [] in Ok (VStr b, l1)
  end.

Fixpoint eval_list (es : list expr) (l : locals) : res (list xval * locals) :=
  match es with
  | [] => Ok ([], l)
  | x :: r => let* (v, l1) := eval x l in let* (vs, l2) := eval_list r l1 in Ok (v :: vs, l2)
  end.
End Eval.

(* ---- statements ---------------------------------------------------------------------------------------- *)
Inductive outcome :=
  | OFall (l : locals)              (* the statement / block completed; control goes on *)
  | ORet (v : xval) (l : locals).   (* the function returned v; l: the locals at that point (outermost frame last) *)

Definition exec_t := stmt -> locals -> res outcome.
Definition call_t := string -> list xval -> res (xval * list xval).

Fixpoint exec_block (ex : exec_t) (ss : list stmt) (l : locals) : res outcome :=
  match ss with
  | [] => Ok (OFall l)
  | x :: r => let* o := ex x l in
              match o with OFall l' => exec_block ex r l' | ORet _ _ => Ok o end
  end.
(* a nested block: its own frame [fr] (pattern bindings, if any), popped when control falls out of it *)
Definition exec_scope (ex : exec_t) (fr : frame) (ss : list stmt) (l : locals) : res outcome :=
  let* o := exec_block ex ss (fr :: l) in
  match o with
  | OFall l' => Ok (OFall (tl l'))
  | ORet v l' => Ok (ORet v l')
  end.

Definition call_fn (ex : exec_t) : call_t := fun fn args =>
  match assoc_s fn (pfns P) with
  | None => Panic
  | Some d =>
    if Nat.eqb (length (fparams d)) (length args) then
      let fr := combine (map fst (fparams d)) args in
      let* o := exec_block ex (fbody d) [fr] in
      match o with
      | ORet v lf => let outer := last lf [] in
                     let finals := map (fun p => match assoc_s (fst p) outer with Some w => w | None => v_unit end) (fparams d) in
                     Ok (v, finals)
      | OFall _ => Panic                     (* every translated function ends in a value / return *)
      end
    else Panic
  end.

Fixpoint bind_names (bs : list (option string)) (vs : list xval) : option frame :=
  match bs, vs with
  | [], [] => Some []
  | Some x :: bs', v :: vs' => match bind_names bs' vs' with Some fr => Some ((x, v) :: fr) | None => None end
  | None :: bs', _ :: vs' => bind_names bs' vs'
  | _, _ => None
  end.
Definition pat_match (p : pat) (v : xval) : option frame :=
  match p with
  | PWild => Some []
  | PBind x => Some [(x, v)]
  | PVariant ty variant bs =>
    match v with
    | VEnum ty' variant' args => if String.eqb ty ty' && String.eqb variant variant' then bind_names bs args else None
    | _ => None
    end
  end.
Fixpoint select_arm {B} (arms : list (pat * B)) (v : xval) : option (frame * B) :=
  match arms with
  | [] => None
  | (p, b) :: r => match pat_match p v with Some fr => Some (fr, b) | None => select_arm r v end
  end.
Fixpoint declare_all (xs : list string) (vs : list xval) (l : locals) : option locals :=
  match xs, vs with
  | [], [] => Some l
  | x :: xs', v :: vs' => declare_all xs' vs' (declare x v l)
  | _, _ => None
  end.

(* `while c { body }`; n bounds the number of evaluations of c *)
Fixpoint while_loop (n : nat) (ev : expr -> locals -> res (xval * locals)) (ex : exec_t) (c : expr) (body : list stmt) (l : locals)
  : res outcome :=
  match n with
  | O => OutOfFuel
  | S n' =>
    let* (v, l1) := ev c l in
    match v with
    | VBool true => let* o := exec_scope ex [] body l1 in
                    match o with OFall l2 => while_loop n' ev ex c body l2 | ORet _ _ => Ok o end
    | VBool false => Ok (OFall l1)
    | _ => Panic
    end
  end.

Fixpoint exec (fuel : nat) (x : stmt) (l : locals) {struct fuel} : res outcome :=
  match fuel with
  | O => OutOfFuel
  | S f =>
    let ev := eval (call_fn (exec f)) in
    match x with
    | SLet v e => let* (w, l1) := ev e l in Ok (OFall (declare v w l1))
    | SLetTuple xs e =>
      let* (w, l1) := ev e l in
      match w with
      | VTuple vs => match declare_all xs vs l1 with Some l2 => Ok (OFall l2) | None => Panic end
      | _ => Panic
      end
    | SLetMatch v scrut arms =>
      let* (w, l1) := ev scrut l in
      match select_arm arms w with
      | Some (fr, (body, tail)) =>
        let* o := exec_block (exec f) body (fr :: l1) in
        match o, tail with
        | OFall l2, Some e => let* (r, l3) := ev e l2 in Ok (OFall (declare v r (tl l3)))
        | OFall _, None => Panic
        | ORet r l2, _ => Ok (ORet r l2)
        end
      | None => Panic
      end
    | SAddAssign v e =>
      let* (w, l1) := ev e l in
      let* old := lookup_res v l1 in
      let* r := eval_bin OAdd old w in
      let* l2 := assign_res v r l1 in
      Ok (OFall l2)
    | STruncate v e =>
      let* (w, l1) := ev e l in
      let* old := lookup_res v l1 in
      match old, w with
      | VStr s, VUsize n => let* s' := truncate s (N.to_nat n) in let* l2 := assign_res v (VStr s') l1 in Ok (OFall l2)
      | _, _ => Panic
      end
    | SIf c a b =>
      let* (t, l1) := ev c l in
      match t with
      | VBool true => exec_scope (exec f) [] a l1
      | VBool false => exec_scope (exec f) [] b l1
      | _ => Panic
      end
    | SWhile c body => while_loop f ev (exec f) c body l
    | SMatch scrut arms =>
      let* (w, l1) := ev scrut l in
      match select_arm arms w with
      | Some (fr, body) => exec_scope (exec f) fr body l1
      | None => Panic
      end
    | SRet e => let* (v, l1) := ev e l in Ok (ORet v l1)
    | SUnreachable => Panic
    end
  end.

(* calling function [fn] of the program with arguments [args]: the result and the final values of the parameters *)
Definition run_err (fuel : nat) (fn : string) (args : list xval) : res (xval * list xval) :=
  call_fn (exec fuel) fn args.
End Interp.
