(* Model/Lex.v — the float parsing ALGORITHM of src/lexical (the `float_roundtrip` feature), function for function.

   Model/Num.v represents lexical by its specification (`f64_fr`, `lexical_truncated` = the correctly rounded value);
   this file models what the code actually computes:

     parse.rs      parse_concise_float, parse_truncated_float
     algorithm.rs  fast_path, multiply_exponent_extended, moderate_path, fallback_path
     float.rs      ExtendedFloat {mant : u64; exp : i32}: mul (32-bit halves, round up on bit 31 of the low product),
                   normalize, round_to_native, into_float, into_downward_float, from_float
     rounding.rs   lower_n_mask, lower_n_halfway, internal_n_mask, round_nearest, tie_even, round_nearest_tie_even,
                   round_downward, round_to_float, avoid_overflow, round_to_native
     shift.rs      shr, overflowing_shr, shl
     errors.rs     error_scale/halfscale (Gen/LexTables), error_is_accurate, nearest_error_is_accurate
     cached*.rs    the cached powers (Gen/LexTables, regenerated from the source on every run)
     exponent.rs   into_i32, scientific_exponent, mantissa_exponent
     digit.rs      add_digit
     num.rs        Float::{is_denormal, is_special, exponent, mantissa, next_positive, round_positive_even, pow10}
     bhcomp.rs     parse_mantissa, b_extended, bh_extended, round_nearest_tie_even (custom), large_atof, small_atof, bhcomp

   Numbers: u64 values are [N] (operations that wrap or drop bits in Rust are written with an explicit `mod 2^64`),
   i32 values are [Z] (saturating operations are written out; plain `+`/`-` on i32 are modelled in Z: they cannot
   overflow for exponents that a literal shorter than 2^31 bytes can produce — this is an assumption of the model),
   floats are their IEEE bit patterns [N] (the code builds results with `from_bits`); the two float operations of the
   fast path are Flocq's `Bmult`/`Bdiv`.

   MODELLED, NOT VERIFIED: `Bigint` (bignum.rs, math.rs: limb vectors, small/large multiplication, Karatsuba, shifts,
   hi64, bit_length, compare) is abstracted to [Z]: `imul_pow5 x n` is `x * 5^n`, `compare` is the order of Z, `hi64`
   the top 64 bits with a sticky flag.  The limb code itself is differential-tested against big-integer arithmetic by
   the `bi` ops of the harness (tools/checks/lex.py).

   Definitions only. *)
From Coq Require Import ZArith NArith List Bool.
From Flocq Require Import Core BinarySingleNaN.
From SJ Require Import Base.Bytes Base.FloatB Gen.LexTables Model.Read Model.Num.
Import ListNotations.
Open Scope Z_scope.

Definition two64N : N := 18446744073709551616.
Definition two32N : N := 4294967296.

(* ------------------------------------------------------------------------------------------------ *)
(** * Float trait (num.rs) *)
Inductive fkind := F64 | F32.

Definition MANTISSA_SIZE (k : fkind) : Z := match k with F64 => F64_MANTISSA_SIZE | F32 => F32_MANTISSA_SIZE end.
Definition EXPONENT_BIAS (k : fkind) : Z := match k with F64 => F64_EXPONENT_BIAS | F32 => F32_EXPONENT_BIAS end.
Definition DENORMAL_EXPONENT (k : fkind) : Z := match k with F64 => F64_DENORMAL_EXPONENT | F32 => F32_DENORMAL_EXPONENT end.
Definition MAX_EXPONENT (k : fkind) : Z := match k with F64 => F64_MAX_EXPONENT | F32 => F32_MAX_EXPONENT end.
Definition DEFAULT_SHIFT (k : fkind) : Z := match k with F64 => F64_DEFAULT_SHIFT | F32 => F32_DEFAULT_SHIFT end.
Definition CARRY_MASK (k : fkind) : N := match k with F64 => F64_CARRY_MASK | F32 => F32_CARRY_MASK end.
Definition EXPONENT_MASK (k : fkind) : N := match k with F64 => F64_EXPONENT_MASK | F32 => F32_EXPONENT_MASK end.
Definition HIDDEN_BIT_MASK (k : fkind) : N := match k with F64 => F64_HIDDEN_BIT_MASK | F32 => F32_HIDDEN_BIT_MASK end.
Definition MANTISSA_MASK (k : fkind) : N := match k with F64 => F64_MANTISSA_MASK | F32 => F32_MANTISSA_MASK end.
Definition INFINITY_BITS (k : fkind) : N := match k with F64 => F64_INFINITY_BITS | F32 => F32_INFINITY_BITS end.
Definition MAX_DIGITS (k : fkind) : nat := match k with F64 => F64_MAX_DIGITS | F32 => F32_MAX_DIGITS end.
Definition EXP_LIMIT_MIN (k : fkind) : Z := match k with F64 => F64_EXP_LIMIT_MIN | F32 => F32_EXP_LIMIT_MIN end.
Definition EXP_LIMIT_MAX (k : fkind) : Z := match k with F64 => F64_EXP_LIMIT_MAX | F32 => F32_EXP_LIMIT_MAX end.
Definition MANTISSA_LIMIT (k : fkind) : Z := match k with F64 => F64_MANTISSA_LIMIT | F32 => F32_MANTISSA_LIMIT end.

(* floats as bit patterns *)
Definition f_is_denormal (k : fkind) (bits : N) : bool := N.eqb (N.land bits (EXPONENT_MASK k)) 0.
Definition f_is_special (k : fkind) (bits : N) : bool := N.eqb (N.land bits (EXPONENT_MASK k)) (EXPONENT_MASK k).
Definition f_exponent (k : fkind) (bits : N) : Z :=
  if f_is_denormal k bits then DENORMAL_EXPONENT k
  else Z.of_N (N.shiftr (N.land bits (EXPONENT_MASK k)) (Z.to_N (MANTISSA_SIZE k))) - EXPONENT_BIAS k.
Definition f_mantissa (k : fkind) (bits : N) : N :=
  let s := N.land bits (MANTISSA_MASK k) in
  if negb (f_is_denormal k bits) then (s + HIDDEN_BIT_MASK k)%N else s.
Definition f_next_positive (bits : N) : N := (bits + 1)%N.
Definition f_round_positive_even (k : fkind) (bits : N) : N :=
  if N.eqb (N.land (f_mantissa k bits) 1) 1 then f_next_positive bits else bits.

(* binary32 bit pattern (FloatB.v has the binary64 one) *)
Definition bits_of_b32 (x : b32) : N :=
  match x with
  | B754_zero s => if s then 2147483648%N else 0%N
  | B754_infinity s => ((if s then 2147483648 else 0) + 2139095040)%N
  | B754_nan => 2143289344%N
  | B754_finite s m e _ =>
      let sb := (if s then 2147483648 else 0)%N in
      if (Zpos m <? 8388608) then (sb + Npos m)%N
      else (sb + Z.to_N (e + 150) * 8388608 + (Npos m - 8388608))%N
  end.
Definition b32_of_Z (z : Z) : b32 := binary_normalize 24 128 _ _ mode_NE z 0 false.

(* `F::as_cast(x: u64)` followed by `.pow10(n)`:  n > 0: x * POW10[n]   else: x / POW10[-n].
   The table entries are the Rust literals 1.0, 10.0, ... (Gen/LexTables gives the integers they denote;
   `b64_of_Z`/`b32_of_Z` is the correctly rounded conversion rustc performs on the literal). *)
Definition f_cast (k : fkind) (x : N) : N :=
  match k with
  | F64 => bits_of_b64 (b64_of_Z (Z.of_N x))
  | F32 => bits_of_b32 (b32_of_Z (Z.of_N x))
  end.
Definition f_cast_pow10 (k : fkind) (x : N) (n : Z) : N :=
  let i := Z.to_nat (Z.abs n) in
  match k with
  | F64 => let fx := b64_of_Z (Z.of_N x) in let p := b64_of_Z (nth i F64_POW10 0) in
           bits_of_b64 (if 0 <? n then Bmult mode_NE fx p else Bdiv mode_NE fx p)
  | F32 => let fx := b32_of_Z (Z.of_N x) in let p := b32_of_Z (nth i F32_POW10 0) in
           bits_of_b32 (if 0 <? n then Bmult mode_NE fx p else Bdiv mode_NE fx p)
  end.

(* ------------------------------------------------------------------------------------------------ *)
(** * ExtendedFloat (float.rs), shifts (shift.rs) *)
Record efloat := mkEF { mant : N; exp : Z }.

Definition shr (fp : efloat) (shift : Z) : efloat :=
  mkEF (N.shiftr (mant fp) (Z.to_N shift)) (exp fp + shift).
Definition overflowing_shr (fp : efloat) (shift : Z) : efloat :=
  mkEF (if shift =? 64 then 0%N else N.shiftr (mant fp) (Z.to_N shift)) (exp fp + shift).
Definition shl (fp : efloat) (shift : Z) : efloat :=
  mkEF (N.shiftl (mant fp) (Z.to_N shift) mod two64N)%N (exp fp - shift).

(* ExtendedFloat::mul *)
Definition ef_mul (a b : efloat) : efloat :=
  let ah := (mant a / two32N)%N in
  let al := (mant a mod two32N)%N in
  let bh := (mant b / two32N)%N in
  let bl := (mant b mod two32N)%N in
  let ah_bl := (ah * bl)%N in
  let al_bh := (al * bh)%N in
  let al_bl := (al * bl)%N in
  let ah_bh := (ah * bh)%N in
  let tmp := (ah_bl mod two32N + al_bh mod two32N + al_bl / two32N + 2147483648)%N in   (* + (1 << 31): round up *)
  mkEF (ah_bh + ah_bl / two32N + al_bh / two32N + tmp / two32N)%N (exp a + exp b + 64).

(* leading_zeros of a non-zero u64 *)
Definition clz64 (m : N) : Z := 63 - Z.of_N (N.log2 m).

(* ExtendedFloat::normalize: (normalised value, shift) *)
Definition ef_normalize (fp : efloat) : efloat * Z :=
  let shift := if N.eqb (mant fp) 0 then 0 else clz64 (mant fp) in
  (shl fp shift, shift).

(* ------------------------------------------------------------------------------------------------ *)
(** * rounding.rs *)
Definition lower_n_mask (n : Z) : N := if n =? 64 then (two64N - 1)%N else (N.shiftl 1 (Z.to_N n) - 1)%N.
Definition lower_n_halfway (n : Z) : N := if n =? 0 then 0%N else N.shiftl 1 (Z.to_N (n - 1)).
Definition internal_n_mask (bit n : Z) : N := N.lxor (lower_n_mask bit) (lower_n_mask (bit - n)).

Definition round_nearest (fp : efloat) (shift : Z) : efloat * bool * bool :=
  let mask := lower_n_mask shift in
  let halfway := lower_n_halfway shift in
  let truncated_bits := N.land (mant fp) mask in
  let is_above := (halfway <? truncated_bits)%N in
  let is_halfway := (truncated_bits =? halfway)%N in
  (overflowing_shr fp shift, is_above, is_halfway).

Definition tie_even (fp : efloat) (is_above is_halfway : bool) : efloat :=
  let is_odd := N.eqb (N.land (mant fp) 1) 1 in
  if is_above || (is_odd && is_halfway) then mkEF (mant fp + 1)%N (exp fp) else fp.

Definition round_nearest_tie_even (fp : efloat) (shift : Z) : efloat :=
  let '(fp1, is_above, is_halfway) := round_nearest fp shift in
  tie_even fp1 is_above is_halfway.

Definition round_downward (fp : efloat) (shift : Z) : efloat := overflowing_shr fp shift.

(* bhcomp.rs: custom round-nearest, tie-even for large_atof *)
Definition bh_round_nearest_tie_even (is_truncated : bool) (fp : efloat) (shift : Z) : efloat :=
  let '(fp1, is_above, is_halfway) := round_nearest fp shift in
  if is_halfway && is_truncated then tie_even fp1 true false else tie_even fp1 is_above is_halfway.

Definition round_to_float (k : fkind) (algorithm : efloat -> Z -> efloat) (fp : efloat) : efloat :=
  let final_exp := exp fp + DEFAULT_SHIFT k in
  let fp1 :=
    if final_exp <? DENORMAL_EXPONENT k then
      let diff := DENORMAL_EXPONENT k - exp fp in
      if diff <=? 64 then algorithm fp diff else mkEF 0%N 0
    else algorithm fp (DEFAULT_SHIFT k) in
  if N.eqb (N.land (mant fp1) (CARRY_MASK k)) (CARRY_MASK k) then shr fp1 1 else fp1.

Definition avoid_overflow (k : fkind) (fp : efloat) : efloat :=
  if MAX_EXPONENT k <=? exp fp then
    let diff := exp fp - MAX_EXPONENT k in
    if diff <=? MANTISSA_SIZE k then
      let bit := MANTISSA_SIZE k + 1 in
      let n := diff + 1 in
      let mask := internal_n_mask bit n in
      if N.eqb (N.land (mant fp) mask) 0 then shl fp (diff + 1) else fp
    else fp
  else fp.

Definition round_to_native (k : fkind) (algorithm : efloat -> Z -> efloat) (fp : efloat) : efloat :=
  avoid_overflow k (round_to_float k algorithm (fst (ef_normalize fp))).

(* float.rs into_float (the free function): export to the bit pattern *)
Definition into_float_bits (k : fkind) (fp : efloat) : N :=
  if N.eqb (mant fp) 0 || (exp fp <? DENORMAL_EXPONENT k) then 0%N
  else if MAX_EXPONENT k <=? exp fp then INFINITY_BITS k
  else
    let e : N :=
      if (exp fp =? DENORMAL_EXPONENT k) && N.eqb (N.land (mant fp) (HIDDEN_BIT_MASK k)) 0 then 0%N
      else Z.to_N (exp fp + EXPONENT_BIAS k) in
    N.lor (N.land (mant fp) (MANTISSA_MASK k)) (N.shiftl e (Z.to_N (MANTISSA_SIZE k))).

Definition ef_into_float (k : fkind) (fp : efloat) : N :=
  into_float_bits k (round_to_native k round_nearest_tie_even fp).
Definition ef_into_downward_float (k : fkind) (fp : efloat) : N :=
  into_float_bits k (round_to_native k round_downward fp).

Definition ef_from_float (k : fkind) (bits : N) : efloat := mkEF (f_mantissa k bits) (f_exponent k bits).

(* ------------------------------------------------------------------------------------------------ *)
(** * errors.rs *)
Definition nearest_error_is_accurate (errors : N) (fp : efloat) (extrabits : Z) : bool :=
  if extrabits =? 65 then (mant fp + errors <? two64N)%N
  else
    let mask := lower_n_mask extrabits in
    let extra := N.land (mant fp) mask in
    let halfway := lower_n_halfway extrabits in
    let cmp1 := ((halfway + two64N - errors) mod two64N <? extra)%N in      (* halfway.wrapping_sub(errors) < extra *)
    let cmp2 := (extra <? (halfway + errors) mod two64N)%N in                (* extra < halfway.wrapping_add(errors) *)
    negb (cmp1 && cmp2).

Definition error_is_accurate (k : fkind) (count : N) (fp : efloat) : bool :=
  let bias := - (EXPONENT_BIAS k - MANTISSA_SIZE k) in
  let denormal_exp := bias - 63 in
  let extrabits :=
    if exp fp <=? denormal_exp then 64 - MANTISSA_SIZE k + denormal_exp - exp fp
    else 63 - MANTISSA_SIZE k in
  if 65 <? extrabits then true
  else nearest_error_is_accurate count fp extrabits.

(* ------------------------------------------------------------------------------------------------ *)
(** * algorithm.rs *)
Definition get_small (i : nat) : efloat := mkEF (nth i BASE10_SMALL_MANTISSA 0%N) (nth i BASE10_SMALL_EXPONENT 0).
Definition get_large (i : nat) : efloat := mkEF (nth i BASE10_LARGE_MANTISSA 0%N) (nth i BASE10_LARGE_EXPONENT 0).
Definition get_small_int (i : nat) : N := nth i BASE10_SMALL_INT_POWERS 0%N.

Definition fast_path (k : fkind) (mantissa : N) (exponent : Z) : option N :=
  let min_exp := EXP_LIMIT_MIN k in
  let max_exp := EXP_LIMIT_MAX k in
  let shift_exp := MANTISSA_LIMIT k in
  let mantissa_size := Z.to_N (MANTISSA_SIZE k + 1) in
  if N.eqb mantissa 0 then Some 0%N
  else if negb (N.eqb (N.shiftr mantissa mantissa_size) 0) then None
  else if exponent =? 0 then Some (f_cast k mantissa)
  else if (min_exp <=? exponent) && (exponent <=? max_exp) then Some (f_cast_pow10 k mantissa exponent)
  else if (0 <=? exponent) && (exponent <=? max_exp + shift_exp) then
    let shift := exponent - max_exp in
    let power := nth (Z.to_nat shift) POW10_64 0%N in
    let value := (mantissa * power)%N in
    if (two64N <=? value)%N then None                              (* checked_mul *)
    else if negb (N.eqb (N.shiftr value mantissa_size) 0) then None
    else Some (f_cast_pow10 k value max_exp)
  else None.

(* multiply_exponent_extended: (fp', valid) *)
Definition multiply_exponent_extended (k : fkind) (fp : efloat) (exponent : Z) (truncated : bool) : efloat * bool :=
  let exponent := i32_sat (exponent + BASE10_BIAS) in
  let small_index := Z.rem exponent BASE10_STEP in
  let large_index := Z.quot exponent BASE10_STEP in
  if exponent <? 0 then (mkEF 0%N (exp fp), true)
  else if Z.of_nat (length BASE10_LARGE_MANTISSA) <=? large_index then (mkEF 9223372036854775808%N 2047, true)
  else
    let errors0 : N := if truncated then N.shiftl ERROR_SCALE (Z.to_N (Z.min (clz64 (mant fp)) 3)) else 0%N in   (* error_scale() << leading_zeros().min(3) *)
    let prod := (mant fp * get_small_int (Z.to_nat small_index))%N in
    let '(fp1, errors1) :=
      if (two64N <=? prod)%N then
        (ef_mul (fst (ef_normalize fp)) (get_small (Z.to_nat small_index)), (errors0 + ERROR_HALFSCALE)%N)
      else (fst (ef_normalize (mkEF prod (exp fp))), errors0) in
    let fp2 := ef_mul fp1 (get_large (Z.to_nat large_index)) in
    let errors2 := if (0 <? errors1)%N then (errors1 + 1)%N else errors1 in
    let errors3 := (errors2 + ERROR_HALFSCALE)%N in
    let '(fp3, shift) := ef_normalize fp2 in
    let errors4 := N.shiftl errors3 (Z.to_N shift) in
    (fp3, error_is_accurate k errors4 fp3).

Definition moderate_path (k : fkind) (mantissa : N) (exponent : Z) (truncated : bool) : efloat * bool :=
  multiply_exponent_extended k (mkEF mantissa 0) exponent truncated.

(* ------------------------------------------------------------------------------------------------ *)
(** * exponent.rs, digit.rs *)
Definition into_i32 (value : Z) : Z := if 2147483647 <? value then 2147483647 else value.
Definition scientific_exponent (exponent : Z) (integer_digits fraction_start : nat) : Z :=
  match integer_digits with
  | O => i32_sat (i32_sat (exponent - into_i32 (Z.of_nat fraction_start)) - 1)
  | S n => i32_sat (exponent + into_i32 (Z.of_nat n))
  end.
Definition mantissa_exponent (exponent : Z) (fraction_digits truncated : nat) : Z :=
  if Nat.ltb truncated fraction_digits then i32_sat (exponent - into_i32 (Z.of_nat (fraction_digits - truncated)))
  else i32_sat (exponent + into_i32 (Z.of_nat (truncated - fraction_digits))).

(* ------------------------------------------------------------------------------------------------ *)
(** * bhcomp.rs — Bigint abstracted to Z *)
Definition big_bit_length (z : Z) : Z := if z =? 0 then 0 else Z.log2 z + 1.
Definition big_hi64 (z : Z) : N * bool :=
  if z =? 0 then (0%N, false)
  else
    let bl := big_bit_length z in
    if bl <=? 64 then (Z.to_N (z * 2 ^ (64 - bl)), false)
    else (Z.to_N (z / 2 ^ (bl - 64)), negb (z mod 2 ^ (bl - 64) =? 0)).

(* parse_mantissa: the first MAX_DIGITS-1 digits as an integer; a trailing 1 stands for any further NON-ZERO digits, a trailing 0 if all
   further digits are zeros (fix F21) *)
Definition parse_mantissa (k : fkind) (integer fraction : bytes) : Z :=
  let ds := integer ++ fraction in
  let max_digits := (MAX_DIGITS k - 1)%nat in
  let v := digits_val (firstn max_digits ds) 0 in
  if Nat.ltb max_digits (length ds)
  then v * 10 + (if existsb (fun d => negb (N.eqb d 48)) (skipn max_digits ds) then 1 else 0)   (* any non-zero digit left *)
  else v.

Definition b_extended (k : fkind) (bits : N) : efloat := ef_from_float k bits.
Definition bh_extended (k : fkind) (bits : N) : efloat :=
  let b := b_extended k bits in mkEF (mant b * 2 + 1)%N (exp b - 1).

Definition large_atof (k : fkind) (mantissa : Z) (exponent : Z) : N :=
  let bigmant := mantissa * 10 ^ exponent in
  let '(m, is_truncated) := big_hi64 bigmant in
  let e := big_bit_length bigmant - 64 in
  into_float_bits k (round_to_native k (bh_round_nearest_tie_even is_truncated) (mkEF m e)).

Definition small_atof (k : fkind) (mantissa : Z) (exponent : Z) (f : N) : N :=
  let theor := bh_extended k f in
  let binary_exp := exp theor - exponent in
  let halfradix_exp := - exponent in
  let theor_digits := Z.of_N (mant theor) * 5 ^ halfradix_exp in
  let theor_digits := if 0 <? binary_exp then theor_digits * 2 ^ binary_exp else theor_digits in
  let real_digits := if binary_exp <? 0 then mantissa * 2 ^ (- binary_exp) else mantissa in
  match Z.compare real_digits theor_digits with
  | Gt => f_next_positive f
  | Lt => f
  | Eq => f_round_positive_even k f
  end.

Fixpoint count_leading_zeros (l : bytes) : nat :=
  match l with c :: r => if N.eqb c 48 then S (count_leading_zeros r) else O | [] => O end.

Definition bhcomp (k : fkind) (b : N) (integer fraction : bytes) (exponent : Z) : N :=
  let integer_digits := length integer in
  let fraction_digits := length fraction in
  let digits_start := match integer_digits with O => count_leading_zeros fraction | S _ => O end in
  let fraction1 := skipn digits_start fraction in
  let sci_exp := scientific_exponent exponent integer_digits digits_start in
  let count := Nat.min (MAX_DIGITS k) (integer_digits + fraction_digits - digits_start) in
  let scaled_exponent := sci_exp + 1 - Z.of_nat count in
  let mantissa := parse_mantissa k integer fraction1 in
  if 0 <=? scaled_exponent then large_atof k mantissa scaled_exponent
  else small_atof k mantissa scaled_exponent b.

(* ------------------------------------------------------------------------------------------------ *)
(** * parse.rs *)
(* which way the result was obtained, with the intermediate values the correspondence check compares *)
Inductive ltrace :=
  | TFast (bits : N)                          (* fast_path returned Some *)
  | TMod (fp : efloat) (bits : N)             (* moderate path valid: fp.into_float() *)
  | TSpec (fp : efloat) (bits : N)            (* not valid, b = fp.into_downward_float() is special *)
  | TBh (fp : efloat) (b : N) (bits : N).     (* bhcomp(b, ...) *)
Definition trace_bits (t : ltrace) : N :=
  match t with TFast b => b | TMod _ b => b | TSpec _ b => b | TBh _ _ b => b end.

(* the tail shared by parse_concise_float and fallback_path *)
Definition slow_tail (k : fkind) (fp : efloat) (valid : bool) (integer fraction : bytes) (exponent : Z) : ltrace :=
  if valid then TMod fp (ef_into_float k fp)
  else
    let b := ef_into_downward_float k fp in
    if f_is_special k b then TSpec fp b
    else TBh fp b (bhcomp k b integer fraction exponent).

Definition concise_trace (k : fkind) (mantissa : N) (mant_exp : Z) : ltrace :=
  match fast_path k mantissa mant_exp with
  | Some f => TFast f
  | None =>
    let '(fp, valid) := moderate_path k mantissa mant_exp false in
    slow_tail k fp valid (itoa mantissa) [] mant_exp
  end.
Definition parse_concise_float (k : fkind) (mantissa : N) (mant_exp : Z) : N := trace_bits (concise_trace k mantissa mant_exp).

Definition fallback_trace (k : fkind) (integer fraction : bytes) (mantissa : N) (exponent mantissa_exp : Z) (truncated : bool) : ltrace :=
  let '(fp, valid) := moderate_path k mantissa mantissa_exp truncated in
  slow_tail k fp valid integer fraction exponent.
Definition fallback_path (k : fkind) (integer fraction : bytes) (mantissa : N) (exponent mantissa_exp : Z) (truncated : bool) : N :=
  trace_bits (fallback_trace k integer fraction mantissa exponent mantissa_exp truncated).

(* the digit loop of parse_truncated_float: (mantissa, number of digits not consumed) ; add_digit = checked 10*m+d *)
Fixpoint trunc_loop (l : bytes) (m : N) : N * nat :=
  match l with
  | [] => (m, O)
  | c :: r => let v := (m * 10 + digit_val c)%N in
              if (v <? two64N)%N then trunc_loop r v else (m, S (length r))
  end.

Definition truncated_trace (k : fkind) (integer fraction : bytes) (exponent : Z) : N * Z * ltrace :=
  let fraction := strip_trailing_zeros fraction in
  let '(mantissa, truncated) := trunc_loop (integer ++ fraction) 0%N in
  let mant_exp := mantissa_exponent exponent (length fraction) truncated in
  (mantissa, mant_exp, fallback_trace k integer fraction mantissa exponent mant_exp true).
Definition parse_truncated_float (k : fkind) (integer fraction : bytes) (exponent : Z) : N :=
  trace_bits (snd (truncated_trace k integer fraction exponent)).

(* ------------------------------------------------------------------------------------------------ *)
(** * de.rs glue for the f32 target (`single_precision`): the value handed to the visitor is `f as f64`, and the
      out-of-range test is made on that f64 *)
Definition f32_is_inf_bits (bits : N) : bool := N.eqb bits F32_INFINITY_BITS.
Definition f32_fr (sig : N) (e : Z) : option N :=
  let f := parse_concise_float F32 sig e in if f32_is_inf_bits f then None else Some f.
Definition f64_fr_alg (sig : N) (e : Z) : option N :=
  let f := parse_concise_float F64 sig e in if N.eqb f F64_INFINITY_BITS then None else Some f.

(* de.rs negated_u64_as_float (a negative integer literal with 2^63 < |n| <= u64::MAX leaves parse_number as a float):
   `-(significand as f32) as f64` when single_precision (one rounding, to the target), `-(significand as f64)` otherwise;
   given as the bit pattern of the target type *)
Definition negated_u64_as_float_bits (k : fkind) (significand : N) : N :=
  (f_cast k significand + match k with F64 => 9223372036854775808 | F32 => 2147483648 end)%N.

(* the binary32 oracle: same construction as FloatB.rne_decimal *)
Definition rne_decimal32 (m : Z) (e : Z) : b32 :=
  if m <=? 0 then B754_zero false
  else if 400 <? e then B754_infinity false
  else if e <? - (400 + Z.log2 m) then B754_zero false
  else if 0 <=? e then binary_normalize 24 128 _ _ mode_NE (m * 10 ^ e) 0 false
  else
    let d := 10 ^ (- e) in
    let k := Z.max 0 (70 + Z.log2_up d - Z.log2 m) in
    let n := m * 2 ^ k in
    let q := n / d in
    let r := n mod d in
    let q' := if r =? 0 then q else if Z.even q then q + 1 else q in
    binary_normalize 24 128 _ _ mode_NE q' (- k) false.
