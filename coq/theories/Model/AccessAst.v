(* Model/AccessAst.v — the statement language tools/translate_access.py translates the ACCESS IMPLS of src/de.rs into, and its interpreter:

     impl de::SeqAccess for SeqAccess<'a, R>          next_element_seed (+ its local fn has_next_element)
     impl de::MapAccess for MapAccess<'a, R>          next_key_seed (+ its local fn has_next_key), next_value_seed
     impl de::EnumAccess / de::VariantAccess for VariantAccess<'a, R> and for UnitVariantAccess<'a, R>
     impl MapKey<'a, R> / impl de::Deserializer for MapKey<'a, R>     (every deserialize_numeric_key! instance, forward_to_deserialize_any!)

   — what the abstract visitor calls of Model/DeAst.v (`visit_seq(SeqAccess::new(self))`, `visit_map(MapAccess::new(self))`,
   `visit_enum(VariantAccess::new(self))`, `visit_enum(UnitVariantAccess::new(self))`) hand to the visitor.  Definitions only;
   Gen/AccessTables.v (GENERATED) holds what the source says now, Proofs/AccessSrc.v / AccessSrc2.v prove the loops of Model/DeTyped.v
   (de_elems, de_tuple, de_entries, de_fields, de_key, the enum bodies) and Model/De.v (parse_seq, parse_map) equal to the interpretation
   of the generated bodies.

   A sibling of Model/DeAst.v, whose conventions and pieces it reuses (fuel-indexed interpreter; stuck programs are [Panic]; errors are
   positioned [EPos] or not [EUnpos]; after a positioned error of a callee the reader state is unknown, [None], and everything that needs it is
   stuck; the cursor functions parse_whitespace / parse_ident / parse_object_colon are run by ScanAst's interpreter over Gen/CursorTables.v:
   [cur_ws], [cur_unit]; visitor calls are the abstract [V : vcall -> st -> tres (A * st)], where `self` in `visit_some(self)` /
   `visit_newtype_struct(self)` is the MapKey deserializer).  New here:

   * The reader is `self.de` (`seq.de` / `map.de` in the local fns) — the structs are pinned by the translator — and the access carries the
     flag `first` ([afirst]; `seq.first = false;` is [SSetFirst]; `else if seq.first` is the condition [CFirst]).
   * SEEDS ARE ABSTRACT.  `seed.deserialize(&mut *self.de)` / `seed.deserialize(self.de)` is the parameter [Seed : st -> tres (A * st)]
     (what deserializing one element / value / variant identifier does to the reader and what it answers),
     `seed.deserialize(MapKey { de: &mut *self.de })` is [KSeed], and `de::Deserialize::deserialize(self.de)` at type `()` (unit_variant) is
     [USeed : st -> tres (unit * st)].
   * CALLS INTO THE DESERIALIZER.  `self.de.f(.., visitor)` / `de::Deserializer::f(self.de, .., visitor)` runs the translated entry point f of
     Gen/DeTables.v with Model/DeAst.v's interpreter and the same visitor ([ACall TgDe f]: [as_tres (interp ..)]); `self.f(visitor)` and
     `has_next_element(self)` call a function of this table ([ACall TgSelf]).
   * Ok payloads: `Ok(value)` [AvOk], `Ok(Some(..))` / `Ok(None)` [AvSome] / [AvNone], `Ok(true)` [AvBool], `Ok(())` [AvUnit],
     `Ok((val, self))` [AvPair] (the access itself is the machine).

     let x = match tri!(D.parse_whitespace()) { Some(b) => b, None => { return R; } };            SLetWs x R       (D = self.de / seq.de / map.de)
     let x = match tri!(D.peek()) { Some(b) => b, None => { return R; } };                        SLetPeek x R
     match tri!(D.peek()) { PAT => {} | D.eat_char() | return R, .. }                             SMatchPeek
     D.eat_char();  tri!(D.parse_ident(b".."));  tri!(D.parse_object_colon());  seq.first = b;     SEat / STryIdent / STryColon / SSetFirst
     let x = R;  let x = tri!(R);                                                                 SLet / SLetTri
     D.scratch.clear(); let s = tri!(D.read.parse_str(&mut D.scratch));                           SLetStr
     #[cfg(feature = "raw_value")] { if name == crate::raw::TOKEN { .. } }                        SIfToken
     the two cfg(float_roundtrip) instances of one item                                           SIfRoundtrip
     return R; / R in tail position                                                               SRet
     R ::= visitor.visit_bool(b) | visitor.visit_some(self) | visitor.visit_newtype_struct(self)
         | D.scratch.clear(); match tri!(D.read.parse_str(&mut D.scratch)) { Reference::Borrowed(s) => visitor.m(s), Reference::Copied(s) => visitor.m'(s) }
         | seed.deserialize(..) | de::Deserialize::deserialize(D) | D.f(.., visitor) | de::Deserializer::f(D, .., visitor) | self.f(visitor) | has_next_xxx(self)
         | Ok(x) | Ok(Some(tri!(R))) | Ok(None) | Ok(true) | Ok(false) | Ok(()) | Ok((x, self))
         | Err(err) | Err(D.fix_position(err)) | Err(D.error(C)) | Err(D.peek_error(C)) | Err(de::Error::invalid_type(..))
         | x | { items R } | return R | if x == b'c' { R } else R' | if seq.first { R } else R' | if tri!(R) { R' } else { R'' }
         | match x { BP => R .. } | match x { Ok(v) => R, Err(e) => R } | match tri!(D.parse_whitespace()) { PAT => R .. } *)
From Coq Require Import String List ZArith.
From SJ Require Import Base.Bytes Base.Utf8 Model.Read Model.Str Model.Num Model.NumF32 Model.Ignore Model.Ty Model.DeTyped Model.DeAst.
Require SJ.Model.ScanAst.
Import ListNotations.
Local Open Scope string_scope.
Local Open Scope list_scope.
Open Scope N_scope.

(* ---- syntax -------------------------------------------------------------------------------------------- *)
Inductive seedk := SdValue | SdKey | SdUnit.
Inductive target := TgSelf | TgDe.
Inductive acond := CEqLit (x : string) (b : byte) | CFirst.

Inductive ax :=
  | AVisit (f : vform)
  | AStrVisit (mb mc : vmeth)
  | ASeed (k : seedk)
  | ACall (t : target) (f : string)
  | AOk (x : string)
  | AOkSomeTri (e : ax)                                 (* Ok(Some(tri!(e))) *)
  | AOkNone | AOkBool (b : bool) | AOkUnit
  | AOkPairSelf (x : string)                            (* Ok((x, self)) *)
  | AErr (x : string)
  | AErrFix (x : string)                                (* Err(self.de.fix_position(err)) *)
  | AErrCode (peeked : bool) (c : ecode)                (* Err(self.de.error(c)) : false, Err(self.de.peek_error(c)) : true *)
  | AErrInvalidType                                     (* Err(de::Error::invalid_type(..)) *)
  | AVar (x : string)
  | ABlock (ss : list astmt) (e : ax)
  | ARet (e : ax)
  | AIf (c : acond) (a b : ax)
  | AIfTri (e : ax) (a b : ax)                          (* if tri!(e) { a } else { b } *)
  | AMatchByte (x : string) (arms : list (ScanAst.bpat * ax))
  | AMatchRes (x : string) (arms : list (rpat * ax))
  | AMatchWs (arms : list (ScanAst.pat * ax))
with astmt :=
  | SEat
  | STryIdent (lit : bytes)
  | STryColon
  | SLetWs (x : string) (none : ax)
  | SLetPeek (x : string) (none : ax)
  | SMatchPeek (arms : list (ScanAst.pat * list astmt))
  | SLet (x : string) (e : ax)
  | SLetTri (x : string) (e : ax)
  | SLetStr (x : string)
  | SSetFirst (b : bool)
  | SIfToken (body : list astmt)
  | SIfRoundtrip (a b : list astmt)
  | SRet (e : ax).

Record afn := mkA { abody : list astmt }.
Definition atable := list (string * afn).

Section I.
Context {A : Type}.

(* ---- values -------------------------------------------------------------------------------------------- *)
Inductive arv := AvOk (a : A) | AvSome (a : A) | AvNone | AvBool (b : bool) | AvUnit | AvPair (a : A) | AvErr (e : everr).
Inductive alv := ALByte (b : byte) | ALRes (r : arv) | ALVal (a : A) | ALErr (e : everr) | ALStr (s : bytes).
Definition alocals := list (string * alv).

Fixpoint alookup (x : string) (l : alocals) : option alv :=
  match l with [] => None | (y, v) :: r => if String.eqb x y then Some v else alookup x r end.
Definition abind (x : option string) (v : alv) : alocals := match x with Some n => [(n, v)] | None => [] end.

(* the access: where the reader stands (None = unknown) and the flag `first` (meaningful for SeqAccess / MapAccess only) *)
Record amach := mkAM { ast : option st; afirst : bool }.
Definition aset (m : amach) (s : st) : amach := mkAM (Some s) (afirst m).
Definition alose (m : amach) : amach := mkAM None (afirst m).

Inductive aout :=
  | AOV (r : arv) (m : amach)              (* an expression's value *)
  | AOR (r : arv) (m : amach)              (* the function returned *)
  | AOF (l : alocals) (m : amach).         (* a statement completed *)

Definition aknown {X} (m : amach) (k : st -> res X) : res X := match ast m with Some s => k s | None => Panic end.

(* tri!(callee) on a reader primitive: a positioned error leaves the function; where the reader stands then is unknown *)
Definition atri {X} (m : amach) (r : res X) (k : X -> res aout) : res aout :=
  match r with
  | Ok x => k x
  | Err c i => Ok (AOR (AvErr (EPos c i)) (alose m))
  | OutOfFuel => OutOfFuel
  | Panic => Panic
  end.

(* a Result<value> produced outside this table (visitor, seed, entry point of the Deserializer) *)
Definition ext_call (t : tres (A * st)) (m : amach) : res aout :=
  match t with
  | TOk (a, s') => Ok (AOV (AvOk a) (aset m s'))
  | TErr c i => Ok (AOV (AvErr (EPos c i)) (alose m))
  | TUnpos k s' => Ok (AOV (AvErr (EUnpos k)) (aset m s'))
  | TFuel => OutOfFuel
  | TPanic => Panic
  end.
Definition ext_unit (t : tres (unit * st)) (m : amach) : res aout :=
  match t with
  | TOk (_, s') => Ok (AOV AvUnit (aset m s'))
  | TErr c i => Ok (AOV (AvErr (EPos c i)) (alose m))
  | TUnpos k s' => Ok (AOV (AvErr (EUnpos k)) (aset m s'))
  | TFuel => OutOfFuel
  | TPanic => Panic
  end.

(* ---- patterns ------------------------------------------------------------------------------------------ *)
Inductive am3 := AM3Yes (fr : alocals) | AM3No | AM3Stuck.
Definition arpat_match (p : rpat) (r : arv) : am3 :=
  match p, r with
  | RpAny, _ => AM3Yes []
  | RpOk x, AvOk a => AM3Yes (abind x (ALVal a))
  | RpOk _, AvErr _ => AM3No
  | RpErr x, AvErr e => AM3Yes (abind x (ALErr e))
  | RpErr _, AvOk _ => AM3No
  | _, _ => AM3Stuck
  end.
Fixpoint asel_b {B} (arms : list (ScanAst.bpat * B)) (b : byte) : option B :=
  match arms with [] => None | (p, e) :: r => if ScanAst.bpat_match p b then Some e else asel_b r b end.
Fixpoint asel_r {B} (arms : list (rpat * B)) (v : arv) : option (alocals * B) :=
  match arms with
  | [] => None
  | (p, e) :: r => match arpat_match p v with AM3Yes fr => Some (fr, e) | AM3No => asel_r r v | AM3Stuck => None end
  end.
Fixpoint aconv_frame (fr : ScanAst.frame) : option alocals :=
  match fr with
  | [] => Some []
  | (x, ScanAst.VByte b) :: r => match aconv_frame r with Some l => Some ((x, ALByte b) :: l) | None => None end
  | _ :: _ => None
  end.
Fixpoint asel_o {B} (arms : list (ScanAst.pat * B)) (o : option byte) : option (alocals * B) :=
  match arms with
  | [] => None
  | (p, e) :: r =>
    match ScanAst.pat_match p (ScanAst.SvOpt o) with
    | Some fr => match aconv_frame fr with Some l => Some (l, e) | None => None end
    | None => asel_o r o
    end
  end.

Definition acond_val (c : acond) (l : alocals) (m : amach) : option bool :=
  match c with
  | CEqLit x b => match alookup x l with Some (ALByte v) => Some (v =? b) | _ => None end
  | CFirst => Some (afirst m)
  end.

Definition avcall_of (f : vform) : option vcall :=
  match f with
  | FBool b => Some (VcBool b) | FSome => Some VcSome | FNewtype => Some VcNewtype
  | FUnit => Some VcUnit | FNone => Some VcNone
  | _ => None
  end.

(* ---- parameters ---------------------------------------------------------------------------------------- *)
Variable E : env.
Variables CT ST : ScanAst.table.
Variable DT : dtable.                      (* the Deserializer's entry points: Gen/DeTables.v *)
Variable V : visitor A.
Variable tok : bool.                       (* `name == crate::raw::TOKEN` *)
Variables Seed KSeed : st -> tres (A * st).
Variable USeed : st -> tres (unit * st).

Definition afixpos (e : everr) (m : amach) : res everr :=
  match e with
  | EPos _ _ => Ok e
  | EUnpos k => aknown m (fun s => Ok (EPos (Message k) (err_idx E s)))
  end.

(* ---- execution ------------------------------------------------------------------------------------------ *)
Definition aexec_t := astmt -> alocals -> amach -> res aout.

Fixpoint ablock (ex : aexec_t) (ss : list astmt) (l : alocals) (m : amach) : res aout :=
  match ss with
  | [] => Ok (AOF l m)
  | x :: r => let* o := ex x l m in
              match o with AOF l' m' => ablock ex r l' m' | _ => Ok o end
  end.
Definition ascope (ex : aexec_t) (ss : list astmt) (l : alocals) (m : amach) : res aout :=
  let* o := ablock ex ss l m in
  match o with AOF _ m' => Ok (AOF l m') | _ => Ok o end.

Fixpoint afind (fn : string) (T : atable) : option afn :=
  match T with [] => None | (n, d) :: r => if String.eqb fn n then Some d else afind fn r end.

Definition acall_fn (ex : aexec_t) (T : atable) (fn : string) (m : amach) : res (arv * amach) :=
  match afind fn T with
  | None => Panic
  | Some d => let* o := ablock ex (abody d) [] m in
              match o with AOR r m' => Ok (r, m') | _ => Panic end
  end.

Definition aret_of (o : aout) : res aout := match o with AOV r m => Ok (AOR r m) | AOR _ _ => Ok o | AOF _ _ => Panic end.

Variable AT : atable.

Fixpoint aeval (fuel : nat) (e : ax) (l : alocals) (m : amach) {struct fuel} : res aout :=
  match fuel with
  | O => OutOfFuel
  | S f =>
    match e with
    | AVisit fm => match avcall_of fm with Some c => aknown m (fun s => ext_call (V c s) m) | None => Panic end
    | AStrVisit mb mc =>
      aknown m (fun s =>
        atri m (parse_str E s) (fun '(str, borrowed, s') => ext_call (V (meth_call (if borrowed then mb else mc) str) s') m))
    | ASeed k =>
      aknown m (fun s =>
        match k with SdValue => ext_call (Seed s) m | SdKey => ext_call (KSeed s) m | SdUnit => ext_unit (USeed s) m end)
    | ACall TgDe fn => aknown m (fun s => ext_call (as_tres (interp E CT ST V tok DT f fn s)) m)
    | ACall TgSelf fn => let* (r, m') := acall_fn (aexec f) AT fn m in Ok (AOV r m')
    | AOk x => match alookup x l with Some (ALVal a) => Ok (AOV (AvOk a) m) | _ => Panic end
    | AOkSomeTri e' =>
      let* o := aeval f e' l m in
      match o with
      | AOV (AvOk a) m' => Ok (AOV (AvSome a) m')
      | AOV (AvErr e2) m' => Ok (AOR (AvErr e2) m')
      | AOV _ _ => Panic
      | AOR _ _ => Ok o
      | AOF _ _ => Panic
      end
    | AOkNone => Ok (AOV AvNone m)
    | AOkBool b => Ok (AOV (AvBool b) m)
    | AOkUnit => Ok (AOV AvUnit m)
    | AOkPairSelf x => match alookup x l with Some (ALVal a) => Ok (AOV (AvPair a) m) | _ => Panic end
    | AErr x => match alookup x l with Some (ALErr e') => Ok (AOV (AvErr e') m) | _ => Panic end
    | AErrFix x =>
      match alookup x l with
      | Some (ALErr e') => let* e2 := afixpos e' m in Ok (AOV (AvErr e2) m)
      | _ => Panic
      end
    | AErrCode peeked c =>
      aknown m (fun s => Ok (AOV (AvErr (EPos c (if peeked then peek_err_idx E s else err_idx E s))) m))
    | AErrInvalidType => Ok (AOV (AvErr (EUnpos MInvalidType)) m)
    | AVar x => match alookup x l with Some (ALRes r) => Ok (AOV r m) | _ => Panic end
    | ABlock ss e' =>
      let* o := ablock (aexec f) ss l m in
      match o with AOF l' m' => aeval f e' l' m' | _ => Ok o end
    | ARet e' => let* o := aeval f e' l m in aret_of o
    | AIf c a b =>
      match acond_val c l m with
      | Some true => aeval f a l m
      | Some false => aeval f b l m
      | None => Panic
      end
    | AIfTri e' a b =>
      let* o := aeval f e' l m in
      match o with
      | AOV (AvBool true) m' => aeval f a l m'
      | AOV (AvBool false) m' => aeval f b l m'
      | AOV (AvErr e2) m' => Ok (AOR (AvErr e2) m')
      | AOV _ _ => Panic
      | AOR _ _ => Ok o
      | AOF _ _ => Panic
      end
    | AMatchByte x arms =>
      match alookup x l with
      | Some (ALByte b) => match asel_b arms b with Some e' => aeval f e' l m | None => Panic end
      | _ => Panic
      end
    | AMatchRes x arms =>
      match alookup x l with
      | Some (ALRes r) => match asel_r arms r with Some (fr, e') => aeval f e' (fr ++ l) m | None => Panic end
      | _ => Panic
      end
    | AMatchWs arms =>
      aknown m (fun s =>
        atri m (cur_ws E CT s) (fun '(o, s') =>
          match asel_o arms o with Some (fr, e') => aeval f e' (fr ++ l) (aset m s') | None => Panic end))
    end
  end

with aexec (fuel : nat) (x : astmt) (l : alocals) (m : amach) {struct fuel} : res aout :=
  match fuel with
  | O => OutOfFuel
  | S f =>
    match x with
    | SEat => aknown m (fun s => Ok (AOF l (aset m (discard s))))
    | STryIdent lit =>
      aknown m (fun s => atri m (cur_unit E CT "parse_ident" (Some (ScanAst.VBytes lit)) s) (fun s' => Ok (AOF l (aset m s'))))
    | STryColon => aknown m (fun s => atri m (cur_unit E CT "parse_object_colon" None s) (fun s' => Ok (AOF l (aset m s'))))
    | SLetWs v none =>
      aknown m (fun s =>
        atri m (cur_ws E CT s) (fun '(o, s') =>
          match o with
          | Some b => Ok (AOF ((v, ALByte b) :: l) (aset m s'))
          | None => let* o' := aeval f none l (aset m s') in aret_of o'
          end))
    | SLetPeek v none =>
      aknown m (fun s =>
        atri m (peek E s) (fun '(o, s') =>
          match o with
          | Some b => Ok (AOF ((v, ALByte b) :: l) (aset m s'))
          | None => let* o' := aeval f none l (aset m s') in aret_of o'
          end))
    | SMatchPeek arms =>
      aknown m (fun s =>
        atri m (peek E s) (fun '(o, s') =>
          match asel_o arms o with
          | Some (fr, body) =>
            let* o' := ablock (aexec f) body (fr ++ l) (aset m s') in
            match o' with AOF _ m' => Ok (AOF l m') | _ => Ok o' end
          | None => Panic
          end))
    | SLet v e =>
      let* o := aeval f e l m in
      match o with AOV r m' => Ok (AOF ((v, ALRes r) :: l) m') | AOR _ _ => Ok o | AOF _ _ => Panic end
    | SLetTri v e =>
      let* o := aeval f e l m in
      match o with
      | AOV (AvOk a) m' => Ok (AOF ((v, ALVal a) :: l) m')
      | AOV (AvErr e') m' => Ok (AOR (AvErr e') m')
      | AOV _ _ => Panic
      | AOR _ _ => Ok o
      | AOF _ _ => Panic
      end
    | SLetStr v =>
      aknown m (fun s => atri m (parse_str E s) (fun '(str, _, s') => Ok (AOF ((v, ALStr str) :: l) (aset m s'))))
    | SSetFirst b => Ok (AOF l (mkAM (ast m) b))
    | SIfToken body => if tok then ascope (aexec f) body l m else Ok (AOF l m)
    | SIfRoundtrip a b => ascope (aexec f) (if float_roundtrip (cf E) then a else b) l m
    | SRet e => let* o := aeval f e l m in aret_of o
    end
  end.

(* calling function [fn] of the table on an access whose reader stands at [s] and whose flag is [first] *)
Definition arun (fuel : nat) (fn : string) (first : bool) (s : st) : res (arv * amach) :=
  acall_fn (aexec fuel) AT fn (mkAM (Some s) first).

(* ---- what the caller sees --------------------------------------------------------------------------------- *)
(* a Result whose Ok payload is selected by [sel]; with the reader state and the flag afterwards *)
Definition as_sel {X} (sel : arv -> option X) (r : res (arv * amach)) : tres (X * st * bool) :=
  match r with
  | Ok (AvErr (EPos c i), _) => TErr c i
  | Ok (AvErr (EUnpos k), m) => match ast m with Some s => TUnpos k s | None => TPanic end
  | Ok (v, m) =>
    match sel v, ast m with
    | Some x, Some s => TOk (x, s, afirst m)
    | _, _ => TPanic
    end
  | Err _ _ => TPanic
  | OutOfFuel => TFuel
  | Panic => TPanic
  end.
Definition drop_flag {X} (t : tres (X * st * bool)) : tres (X * st) :=
  match t with
  | TOk (x, s, _) => TOk (x, s)
  | TErr c i => TErr c i
  | TUnpos k s => TUnpos k s
  | TFuel => TFuel
  | TPanic => TPanic
  end.
(* Result<V::Value> *)
Definition as_val (r : res (arv * amach)) : tres (A * st) :=
  drop_flag (as_sel (fun v => match v with AvOk a => Some a | _ => None end) r).
(* Result<Option<T::Value>> of next_element_seed / next_key_seed, with the flag afterwards *)
Definition as_opt (r : res (arv * amach)) : tres (option A * st * bool) :=
  as_sel (fun v => match v with AvSome a => Some (Some a) | AvNone => Some None | _ => None end) r.
(* Result<bool> of has_next_element / has_next_key, with the flag afterwards *)
Definition as_bool (r : res (arv * amach)) : tres (bool * st * bool) :=
  as_sel (fun v => match v with AvBool b => Some b | _ => None end) r.
(* Result<(V::Value, Self)> of variant_seed *)
Definition as_pair (r : res (arv * amach)) : tres (A * st) :=
  drop_flag (as_sel (fun v => match v with AvPair a => Some a | _ => None end) r).
(* Result<()> of unit_variant *)
Definition as_unit_a (r : res (arv * amach)) : tres (unit * st) :=
  drop_flag (as_sel (fun v => match v with AvUnit => Some tt | _ => None end) r).
End I.

Arguments arv : clear implicits.
Arguments alv : clear implicits.
Arguments aout : clear implicits.
