(* Model/Ty.v — the universe of target types ("type programs") and of typed data.
   A [ty] is interpreted by ONE universal serde DeserializeSeed (same definition in Coq and in the Rust
   harness): it issues the deserialize_* request named below and its visitor accepts what serde's own
   impls / serde_derive accept (DESIGN.md A.7).  A [dval] is the resulting data tree. *)
From SJ Require Import Base.Bytes Base.FloatB.
Open Scope N_scope.

Inductive intty := I8 | I16 | I32 | I64 | I128 | U8 | U16 | U32 | U64 | U128.

Definition int_min (t : intty) : Z :=
  match t with
  | I8 => -128 | I16 => -32768 | I32 => -2147483648 | I64 => -9223372036854775808
  | I128 => -170141183460469231731687303715884105728
  | _ => 0
  end%Z.
Definition int_max (t : intty) : Z :=
  match t with
  | I8 => 127 | I16 => 32767 | I32 => 2147483647 | I64 => 9223372036854775807
  | I128 => 170141183460469231731687303715884105727
  | U8 => 255 | U16 => 65535 | U32 => 4294967295 | U64 => 18446744073709551615
  | U128 => 340282366920938463463374607431768211455
  end%Z.
Definition in_range (t : intty) (z : Z) : bool := ((int_min t <=? z) && (z <=? int_max t))%Z.

(* map key types *)
Inductive kty :=
  | KStr                       (* String *)
  | KInt (t : intty)
  | KBool
  | KChar
  | KF32 | KF64
  | KOption (k : kty)
  | KNewtype (k : kty)
  | KUnitEnum (variants : list bytes).

Inductive ty :=
  | TValue                     (* serde_json::Value *)
  | TIgnored                   (* serde::de::IgnoredAny *)
  | TRaw                       (* Box<RawValue> *)
  | TBool
  | TInt (t : intty)
  | TF32 | TF64
  | TChar
  | TStr                       (* String: deserialize_string *)
  | TBorrowedStr               (* &str: deserialize_str, accepts only visit_borrowed_str *)
  | TBytes                     (* serde_bytes::ByteBuf: deserialize_byte_buf *)
  | TUnit
  | TUnitStruct
  | TOption (t : ty)
  | TNewtype (t : ty)
  | TSeq (t : ty)              (* Vec<T> *)
  | TTuple (ts : list ty)
  | TTupleStruct (ts : list ty)
  | TMap (k : kty) (v : ty)    (* entries in arrival order, duplicates kept *)
  | TStruct (fields : list (bytes * ty))        (* unknown fields ignored, missing Option fields = None *)
  | TEnum (variants : list (bytes * variant))   (* externally tagged *)
with variant :=
  | VUnit
  | VNewtype (t : ty)
  | VTuple (ts : list ty)
  | VStruct (fields : list (bytes * ty)).

(* typed data *)
Inductive dval :=
  | DValue (v : list N)        (* canonical text of a serde_json::Value (model: show_value) — opaque here *)
  | DIgnored
  | DRaw (span : bytes)
  | DBool (b : bool)
  | DInt (z : Z)
  | DFloat (bits : N)          (* f64 bit pattern; f32 results are widened bit patterns of the f32 *)
  | DChar (scalar : N)
  | DStr (s : bytes) (borrowed : bool)
  | DBytes (b : bytes)
  | DUnit
  | DNone
  | DSome (d : dval)
  | DNewtype (d : dval)
  | DSeq (l : list dval)
  | DMap (l : list (dval * dval))
  | DStruct (l : list dval)                     (* one entry per declared field, in declaration order *)
  | DVariant (name : bytes) (payload : dval).   (* payload: DUnit | d | DSeq | DStruct *)
