(* Model/ReadAst.v — the Rust subset tools/translate_read.py translates the POSITION-PRODUCING reader primitives of src/iter.rs and
   src/read.rs into, and what the translation MEANS.

   Gen/ReadTables.v (GENERATED on every run) holds what the source says now:
     iter.rs   LineColIterator::{new, line, col, byte_offset},  <LineColIterator as Iterator>::next
     read.rs   IoRead::new,    <IoRead as Read>::{next, peek, discard (both cfg variants), position, peek_position, byte_offset}
               SliceRead::{new, position_of_index},  <SliceRead as Read>::{next, peek, discard, position, peek_position, byte_offset}
               StrRead::new,   <StrRead as Read>::{next, peek, discard, position, peek_position, byte_offset}   (delegations to self.delegate)
               impl Read for &mut R: the table  method |-> what it forwards to   (MUT_REF_FORWARD)
   Proofs/ReadSrc.v proves that the hand-written models of Model/Pos.v are the interpretation of these bodies, for every state.

   The language (one expression language; a function body is an expression):
     0, 1, b'\n'                                        ENum n                (usize and u8 are both N here, see "arithmetic" below)
     x  /  self  /  self.f  /  self.f.g                 EPlace [x; f; g]      a local or a field path; `&e` (shared borrow) is transparent
     None / Some(e) / Ok(e) / Err(e)                    ENone / ESome / EOk / EErr
     a + b,  a - b,  a < b                              EBin OAdd / OSub / OLt
     T { f: e, #[cfg(..)] g: e, h }                     EStruct "T" [(cfg, "f", e); ..]   (shorthand field h = EPlace ["h"])
     PLACE.m(args)                                      ECall PLACE "m" args  method call; the receiver is a place and is WRITTEN BACK
                                                                              (mutation = returning the new state) when m takes &mut self
     T::f(args)                                         EStatic "T" "f" args  associated function of a translated type, or a pinned external
     e[i]   /   &e[..i]                                 EIndex / ESliceTo     both panic out of range, as in Rust
     if c { a } else { b }                              EIf
     match e { P => a, .. }                             EMatch                first matching arm; binders live in the arm only
     { s; ..; e }                                       EBlock [s; ..] e      (no tail expression: EUnit); `let`s end with the block
   statements
     let x = e;                                         SLet
     PLACE = e;   PLACE += e;                           SAssign / SAddAssign
     e;                                                 SExpr
     if let P = e { .. }                                SIfLet                (no else)
     if let Some(x) = &mut PLACE { .. }                 SIfLetSomeMut x PLACE  x is a unique borrow INTO the place: its final value is written
                                                                              back into the place's Some(..) when the block ends
     #[cfg(feature = "f")] { .. }                       SCfg (CfgFeature "f") ..   executed only in builds with the feature
   patterns    _ | x | b'c' | None | Some(P) | Ok(P) | Err(P)

   Values are dynamically typed ([val]); a struct value carries its type name, and `PLACE.m(..)` dispatches on it: a struct receiver runs
   the TRANSLATED method (type name, m) of the table — the first definition whose cfg guard holds in the build —, any other receiver one of
   the few primitives below.  An ill-typed or stuck program (unknown variable / field / method, no arm matches, wrong argument count) is
   [Panic]; so is a genuine Rust panic (index / slice out of range).  The theorems of Proofs/ReadSrc.v equate the interpretation with the
   models, which leaves Panic only where Model/Pos.v has it too (position_of_index past the end of the slice).

   Primitives (pinned by text by the translator; they belong to std / the memchr crate and are not verified here):
     <Option>.take()                         the option, and None is left behind
     <io::Bytes<R>>.next()                   [src_next] of Model/Pos.v: next byte | None at the end (for ever) | Some(Err(kind)) (again at every call)
     <io::Read>.bytes()                      the reader IS its byte stream here
     <Vec<u8>>.push(b)   <&[u8]>.len()   <&str>.as_bytes()
     memchr::memrchr(c, hay)                 [memrchr] of Model/Pos.v: index of the LAST occurrence (the "obvious meaning")
     memchr::memchr_iter(c, hay).count()     [memchr_count] of Model/Pos.v: number of occurrences
     cmp::min(a, b)                          N.min
     Error::io(e)                            the serde_json::Error with code Io(e), line 0, column 0 (pinned body in src/error.rs)

   Arithmetic.  `usize` arithmetic is arithmetic in N, exactly as Model/Pos.v does: `+` never overflows (a counter is bounded by the number of
   bytes delivered, an index by isize::MAX + 1) and `-` is the TRUNCATED subtraction of N (Rust would panic in debug / wrap in release on a
   negative result; Proofs/PosRefine.v shows `iter.byte_offset() - 1` is only evaluated when byte_offset() >= 1, and `i - start_of_line` has
   start_of_line <= i by construction).  Slice indices are nat in Model/Pos.v; they enter and leave the interpreter through N.of_nat / N.to_nat.

   Style.  The interpreter is written in continuation-passing style ([eval f e en k]: run e in environment en, hand value and new environment to k).
   This is only a device for the proofs: a case distinction on symbolic input data (is this byte '\n'? is the index inside the slice? is the
   feature on?) then sits at the TOP of the normal form with fully evaluated branches below it, instead of blocking the evaluation of
   everything that follows it.  Recursion is on explicit fuel only (one unit per nesting level); [OutOfFuel] when exhausted.
   Definitions only. *)
From Coq Require Import String.
From SJ Require Import Base.Bytes Model.Read Model.Pos.
Open Scope N_scope.
Local Open Scope string_scope.

(* ------------------------------------------------------------------------------------------------ builds *)
(* which cargo features are on.  Only "raw_value" occurs in the translated functions; the theorems hold for every build. *)
Definition build := string -> bool.
Inductive cfgg :=
  | CfgAlways
  | CfgFeature (f : string)        (* #[cfg(feature = "f")] *)
  | CfgNotFeature (f : string).    (* #[cfg(not(feature = "f"))] *)
Definition cfg_on (B : build) (g : cfgg) : bool :=
  match g with CfgAlways => true | CfgFeature f => B f | CfgNotFeature f => negb (B f) end.

(* ------------------------------------------------------------------------------------------------ syntax *)
Inductive pat := PWild | PVar (x : string) | PLit (n : N) | PNone | PSome (p : pat) | POk (p : pat) | PErr (p : pat).
Inductive binop := OAdd | OSub | OLt.
Definition place := list string.      (* root variable (or "self") :: field path *)

Inductive expr :=
  | EUnit
  | ENum (n : N)
  | EPlace (p : place)
  | ENone | ESome (e : expr) | EOk (e : expr) | EErr (e : expr)
  | EBin (op : binop) (a b : expr)
  | EStruct (ty : string) (fields : list (cfgg * string * expr))
  | ECall (recv : place) (m : string) (args : list expr)
  | EStatic (ty f : string) (args : list expr)
  | EIndex (e i : expr)
  | ESliceTo (e i : expr)
  | EIf (c a b : expr)
  | EMatch (e : expr) (arms : list (pat * expr))
  | EBlock (ss : list stmt) (e : expr)
with stmt :=
  | SLet (x : string) (e : expr)
  | SAssign (p : place) (e : expr)
  | SAddAssign (p : place) (e : expr)
  | SExpr (e : expr)
  | SIfLet (p : pat) (e : expr) (body : expr)
  | SIfLetSomeMut (x : string) (p : place) (body : expr)
  | SCfg (g : cfgg) (body : expr).

Inductive selfk := NoSelf | RefSelf | MutSelf.     (* no receiver / &self / &mut self *)
Record fdef := mkFn { fn_ty : string; fn_name : string; fn_cfg : cfgg; fn_self : selfk; fn_params : list string; fn_body : expr }.
Definition table := list fdef.

(* impl Read for &mut R: one row per item of the impl *)
Inductive fwd_kind := FwFn | FwConst.
Record fwd := mkFwd {
  fw_name : string;            (* the method (or associated const) being defined *)
  fw_cfg : cfgg;
  fw_kind : fwd_kind;
  fw_params : list string;     (* its own parameters after self *)
  fw_target : string;          (* body `R::<target>(self, <args>)`  /  `= R::<target>` *)
  fw_args : list string        (* the arguments after self *)
}.

(* ------------------------------------------------------------------------------------------------ values *)
Inductive val :=
  | VUnit
  | VNum (n : N)                       (* usize / u8 *)
  | VBool (b : bool)
  | VNone | VSome (v : val)            (* Option<_> *)
  | VOk (v : val) | VErr (v : val)     (* Result<_, _> / io::Result<_> *)
  | VIoErr (kind : N)                  (* a std::io::Error *)
  | VErrorIo (kind : N)                (* serde_json::Error { code: Io(e), line: 0, column: 0 } *)
  | VBytes (l : bytes)                 (* &[u8] / &str / Vec<u8> *)
  | VSrc (t : term) (l : bytes)        (* an io::Read / its io::Bytes<R>: the bytes still to come and what happens after them *)
  | VStruct (ty : string) (fields : list (string * val)).

Definition env := list (string * val).

(* association lists keyed by strings (own copies, so that the proofs can keep the list functions of the DATA opaque) *)
Fixpoint assoc {A} (x : string) (l : list (string * A)) : option A :=
  match l with
  | [] => None
  | (y, a) :: r => if String.eqb y x then Some a else assoc x r
  end.
Fixpoint update {A} (x : string) (a : A) (l : list (string * A)) : option (list (string * A)) :=
  match l with
  | [] => None
  | (y, b) :: r => if String.eqb y x then Some ((y, a) :: r) else match update x a r with Some r' => Some ((y, b) :: r') | None => None end
  end.
Fixpoint env_app (a b : env) : env := match a with [] => b | x :: r => x :: env_app r b end.
Fixpoint env_len (a : env) : nat := match a with [] => O | _ :: r => S (env_len r) end.
Fixpoint nsub (a b : nat) : nat := match a, b with S a', S b' => nsub a' b' | _, _ => a end.
Fixpoint env_drop (n : nat) (a : env) : env := match n, a with S n', _ :: r => env_drop n' r | _, _ => a end.
(* leave a scope: forget the bindings made since the environment had n entries (assignments replace in place, so the length only grows by binders) *)
Definition restore (n : nat) (en : env) : env := env_drop (nsub (env_len en) n) en.

Fixpoint get_path (v : val) (p : list string) : option val :=
  match p with
  | [] => Some v
  | f :: r => match v with VStruct _ fs => match assoc f fs with Some v' => get_path v' r | None => None end | _ => None end
  end.
Fixpoint set_path (v : val) (p : list string) (nv : val) : option val :=
  match p with
  | [] => Some nv
  | f :: r =>
      match v with
      | VStruct ty fs =>
          match assoc f fs with
          | Some v' => match set_path v' r nv with
                       | Some v'' => match update f v'' fs with Some fs' => Some (VStruct ty fs') | None => None end
                       | None => None
                       end
          | None => None
          end
      | _ => None
      end
  end.
Definition place_get (en : env) (p : place) : option val :=
  match p with [] => None | x :: path => match assoc x en with Some v => get_path v path | None => None end end.
Definition place_set (en : env) (p : place) (nv : val) : option env :=
  match p with
  | [] => None
  | x :: path => match assoc x en with
                 | Some v => match set_path v path nv with Some v' => update x v' en | None => None end
                 | None => None
                 end
  end.

(* what `Option<io::Result<u8>>` looks like as a value *)
Definition item_val (i : src_item) : val :=
  match i with ItEnd => VNone | ItByte b => VSome (VOk (VNum b)) | ItFail k => VSome (VErr (VIoErr k)) end.

(* ------------------------------------------------------------------------------------------------ the interpreter *)
Section Interp.
Variable B : build.
Variable T : table.
Variable A : Type.

Fixpoint find_fn (t : table) (ty m : string) (ks : fdef -> res A) (kf : res A) : res A :=
  match t with
  | [] => kf
  | d :: r => if String.eqb (fn_ty d) ty && String.eqb (fn_name d) m
              then (if cfg_on B (fn_cfg d) then ks d else find_fn r ty m ks kf)
              else find_fn r ty m ks kf
  end.

Fixpoint pmatch (p : pat) (v : val) (ks : env -> res A) (kf : res A) : res A :=
  match p, v with
  | PWild, _ => ks []
  | PVar x, _ => ks [(x, v)]
  | PLit n, VNum m => if N.eqb m n then ks [] else kf
  | PNone, VNone => ks []
  | PSome p', VSome v' => pmatch p' v' ks kf
  | POk p', VOk v' => pmatch p' v' ks kf
  | PErr p', VErr v' => pmatch p' v' ks kf
  | _, _ => kf
  end.

(* methods of values that are not translated structs: (result, receiver afterwards) *)
Definition builtin (m : string) (recv : val) (args : list val) (k : val -> val -> res A) : res A :=
  match recv, args with
  | VNone, [] => if String.eqb m "take" then k VNone VNone else Panic
  | VSome v, [] => if String.eqb m "take" then k (VSome v) VNone else Panic
  | VSrc t l, [] =>
      if String.eqb m "next" then
        match l with                                     (* = src_next t l of Model/Pos.v, case by case *)
        | b :: r => k (item_val (ItByte b)) (VSrc t r)
        | [] => match t with TEof => k (item_val ItEnd) (VSrc t []) | TFail kind => k (item_val (ItFail kind)) (VSrc t []) end
        end
      else if String.eqb m "bytes" then k recv recv
      else Panic
  | VBytes l, [] =>
      if String.eqb m "len" then k (VNum (N.of_nat (length l))) recv
      else if String.eqb m "as_bytes" then k recv recv
      else Panic
  | VBytes l, [VNum b] => if String.eqb m "push" then k VUnit (VBytes (l ++ [b])) else Panic
  | _, _ => Panic
  end.

(* associated functions of types that are not translated: the pinned externals *)
Definition extern (ty f : string) (args : list val) (k : val -> res A) : res A :=
  match args with
  | [VNum c; VBytes hay] =>
      if String.eqb ty "memchr" && String.eqb f "memrchr" then
        match memrchr c hay with Some p => k (VSome (VNum (N.of_nat p))) | None => k VNone end
      else if String.eqb ty "memchr" && String.eqb f "memchr_iter.count" then k (VNum (N.of_nat (memchr_count c hay)))
      else Panic
  | [VNum a; VNum b] => if String.eqb ty "cmp" && String.eqb f "min" then k (VNum (N.min a b)) else Panic
  | [VIoErr kind] => if String.eqb ty "Error" && String.eqb f "io" then k (VErrorIo kind) else Panic
  | _ => Panic
  end.

Fixpoint bind_params (ps : list string) (vs : list val) : option env :=
  match ps, vs with
  | [], [] => Some []
  | p :: ps', v :: vs' => match bind_params ps' vs' with Some e => Some ((p, v) :: e) | None => None end
  | _, _ => None
  end.

(* run the body of d: fresh environment (self, parameters); k gets the result and the receiver afterwards *)
Definition call_with (ev : expr -> env -> (val -> env -> res A) -> res A)
                     (d : fdef) (self : option val) (args : list val) (k : val -> option val -> res A) : res A :=
  match bind_params (fn_params d) args with
  | None => Panic
  | Some ps =>
      match fn_self d, self with
      | NoSelf, None => ev (fn_body d) ps (fun r _ => k r None)
      | RefSelf, Some s => ev (fn_body d) (("self", s) :: ps) (fun r _ => k r (Some s))             (* &self: cannot change it *)
      | MutSelf, Some s => ev (fn_body d) (("self", s) :: ps) (fun r en' => k r (assoc "self" en'))
      | _, _ => Panic
      end
  end.

Fixpoint eval (fuel : nat) (e : expr) (en : env) (k : val -> env -> res A) {struct fuel} : res A :=
  match fuel with
  | O => OutOfFuel
  | S f =>
    let evals :=
      fix evals (es : list expr) (en : env) (k : list val -> env -> res A) : res A :=
        match es with
        | [] => k [] en
        | e1 :: r => eval f e1 en (fun v en1 => evals r en1 (fun vs en2 => k (v :: vs) en2))
        end in
    match e with
    | EUnit => k VUnit en
    | ENum n => k (VNum n) en
    | EPlace p => match place_get en p with Some v => k v en | None => Panic end
    | ENone => k VNone en
    | ESome e1 => eval f e1 en (fun v en1 => k (VSome v) en1)
    | EOk e1 => eval f e1 en (fun v en1 => k (VOk v) en1)
    | EErr e1 => eval f e1 en (fun v en1 => k (VErr v) en1)
    | EBin op a b =>
        eval f a en (fun va en1 => eval f b en1 (fun vb en2 =>
          match va, vb with
          | VNum x, VNum y => match op with
                              | OAdd => k (VNum (x + y)) en2
                              | OSub => k (VNum (x - y)) en2
                              | OLt => k (VBool (N.ltb x y)) en2
                              end
          | _, _ => Panic
          end))
    | EStruct ty fields =>
        (fix flds (fs : list (cfgg * string * expr)) (en : env) (k : list (string * val) -> env -> res A) : res A :=
           match fs with
           | [] => k [] en
           | (g, name, e1) :: r =>
               if cfg_on B g
               then eval f e1 en (fun v en1 => flds r en1 (fun vs en2 => k ((name, v) :: vs) en2))
               else flds r en k
           end) fields en (fun vs en1 => k (VStruct ty vs) en1)
    | ECall recv m args =>
        evals args en (fun vs en1 =>
          match place_get en1 recv with
          | None => Panic
          | Some (VStruct ty fs) =>
              find_fn T ty m
                (fun d => call_with (eval f) d (Some (VStruct ty fs)) vs (fun r self' =>
                   match self' with
                   | Some s' => match place_set en1 recv s' with Some en2 => k r en2 | None => Panic end
                   | None => Panic
                   end))
                Panic
          | Some rv =>
              builtin m rv vs (fun r rv' => match place_set en1 recv rv' with Some en2 => k r en2 | None => Panic end)
          end)
    | EStatic ty fn args =>
        evals args en (fun vs en1 =>
          find_fn T ty fn (fun d => call_with (eval f) d None vs (fun r _ => k r en1)) (extern ty fn vs (fun r => k r en1)))
    | EIndex e1 i =>
        eval f e1 en (fun v en1 => eval f i en1 (fun vi en2 =>
          match v, vi with
          | VBytes l, VNum n => match nth_error l (N.to_nat n) with Some b => k (VNum b) en2 | None => Panic end
          | _, _ => Panic
          end))
    | ESliceTo e1 i =>
        eval f e1 en (fun v en1 => eval f i en1 (fun vi en2 =>
          match v, vi with
          | VBytes l, VNum n => if N.leb n (N.of_nat (length l)) then k (VBytes (firstn (N.to_nat n) l)) en2 else Panic
          | _, _ => Panic
          end))
    | EIf c a b =>
        eval f c en (fun vc en1 =>
          match vc with
          | VBool c' => if c' then eval f a en1 k else eval f b en1 k
          | _ => Panic
          end)
    | EMatch e1 arms =>
        eval f e1 en (fun v en1 =>
          (fix go (arms : list (pat * expr)) : res A :=
             match arms with
             | [] => Panic
             | (p, body) :: r =>
                 pmatch p v (fun bs => eval f body (env_app bs en1) (fun rv en2 => k rv (restore (env_len en1) en2))) (go r)
             end) arms)
    | EBlock ss e1 =>
        (fix go (ss : list stmt) (en' : env) : res A :=
           match ss with
           | [] => eval f e1 en' (fun v en2 => k v (restore (env_len en) en2))
           | s :: r => exec f s en' (fun en2 => go r en2)
           end) ss en
    end
  end
with exec (fuel : nat) (s : stmt) (en : env) (k : env -> res A) {struct fuel} : res A :=
  match fuel with
  | O => OutOfFuel
  | S f =>
    match s with
    | SLet x e => eval f e en (fun v en1 => k ((x, v) :: en1))
    | SAssign p e => eval f e en (fun v en1 => match place_set en1 p v with Some en2 => k en2 | None => Panic end)
    | SAddAssign p e =>
        eval f e en (fun v en1 =>
          match place_get en1 p, v with
          | Some (VNum x), VNum y => match place_set en1 p (VNum (x + y)) with Some en2 => k en2 | None => Panic end
          | _, _ => Panic
          end)
    | SExpr e => eval f e en (fun _ en1 => k en1)
    | SIfLet p e body =>
        eval f e en (fun v en1 =>
          pmatch p v (fun bs => eval f body (env_app bs en1) (fun _ en2 => k (restore (env_len en1) en2))) (k en1))
    | SIfLetSomeMut x p body =>
        match place_get en p with
        | Some VNone => k en
        | Some (VSome v) =>
            eval f body ((x, v) :: en) (fun _ en1 =>
              match assoc x en1 with                               (* the borrow ends: what x points to now is what the place holds *)
              | Some v' => match place_set (restore (env_len en) en1) p (VSome v') with Some en2 => k en2 | None => Panic end
              | None => Panic
              end)
        | _ => Panic
        end
    | SCfg g body => if cfg_on B g then eval f body en (fun _ en1 => k en1) else k en
    end
  end.

End Interp.

Definition FUEL : nat := 64.

(* `recv.m(args)` from outside: the result and the receiver afterwards *)
Definition run_method (B : build) (T : table) (ty m : string) (self : val) (args : list val) : res (val * val) :=
  find_fn B _ T ty m
    (fun d => call_with _ (eval B T _ FUEL) d (Some self) args
       (fun r self' => match self' with Some s' => Ok (r, s') | None => Panic end))
    Panic.
(* `T::f(args)` from outside *)
Definition run_static (B : build) (T : table) (ty f : string) (args : list val) : res val :=
  find_fn B _ T ty f (fun d => call_with _ (eval B T _ FUEL) d None args (fun r _ => Ok r)) Panic.

(* ------------------------------------------------------------------------------------------------ the states of Model/Pos.v as values *)
Definition obyte_val (o : option byte) : val := match o with Some b => VSome (VNum b) | None => VNone end.
Definition obytes_val (o : option bytes) : val := match o with Some l => VSome (VBytes l) | None => VNone end.
(* Result<Option<u8>>: Ok(Some(b)) | Ok(None) | Err(Error::io(kind)); every other [res] has no counterpart (the models never produce one) *)
Definition ores_val (r : res (option byte)) : val :=
  match r with
  | Ok o => VOk (obyte_val o)
  | Err (Io kind) _ => VErr (VErrorIo kind)
  | _ => VUnit
  end.
Definition pos_val (p : N * N) : val := VStruct "Position" [("line", VNum (fst p)); ("column", VNum (snd p))].

(* struct LineColIterator { iter, line, col, start_of_line }; the wrapped io::Bytes<R> ends as [t] says *)
Definition lci_val (t : term) (s : lci) : val :=
  VStruct "LineColIterator"
    [("iter", VSrc t (lc_src s)); ("line", VNum (lc_line s)); ("col", VNum (lc_col s)); ("start_of_line", VNum (lc_sol s))].

(* struct IoRead { iter, ch, #[cfg(feature = "raw_value")] raw_buffer }.  Model/Pos.v leaves raw_buffer out; [rb] is its content in the
   builds that have the field (None = not buffering) *)
Definition rv_fields (B : build) (fs : list (string * val)) : list (string * val) := if B "raw_value" then fs else [].
Definition io_val (B : build) (t : term) (rb : option bytes) (r : ioread) : val :=
  VStruct "IoRead" (("iter", lci_val t (io_iter r)) :: ("ch", obyte_val (io_ch r)) :: rv_fields B [("raw_buffer", obytes_val rb)]).

(* struct SliceRead { slice, index, #[cfg(feature = "raw_value")] raw_buffering_start_index } *)
Definition sl_val (B : build) (rbs : N) (r : sread) : val :=
  VStruct "SliceRead" (("slice", VBytes (sl_slice r)) :: ("index", VNum (N.of_nat (sl_index r)))
                       :: rv_fields B [("raw_buffering_start_index", VNum rbs)]).

(* struct StrRead { delegate, #[cfg(feature = "raw_value")] data } *)
Definition str_val (B : build) (rbs : N) (data : bytes) (r : sread) : val :=
  VStruct "StrRead" (("delegate", sl_val B rbs r) :: rv_fields B [("data", VBytes data)]).
