(* Model/VserAst.v — the statement / expression language tools/translate_vser.py translates `to_value` into
   (src/value/ser.rs: the 31 methods of `impl serde::Serializer for Serializer`, the 15 methods of the seven
   `impl serde::ser::Serialize{Seq,Tuple,TupleStruct,TupleVariant,Map,Struct,StructVariant} for SerializeVec / SerializeTupleVariant /
   SerializeMap / SerializeStructVariant`), its interpreter, and the runner that composes the translated methods according to the SAME
   serde call protocol as the text serializer (`SerAst.protocol`, imported, not redefined).

   Gen/VserTables.v (GENERATED on every run) holds what the source says now; Proofs/VserSrc.v proves that the hand-written
   `ValueSer.to_value` is the interpretation of the translated methods composed according to the protocol, so a changed body breaks a proof.

   Values the bodies compute with ([dval]): the parameters as the protocol passes them (`SerAst.aval`), String, Number, Value, Vec<Value>,
   Map<String, Value>, Option<String>, Option<Value>, a builder (SerializeVec / SerializeTupleVariant / SerializeMap / SerializeStructVariant).

   Expressions                                                                   (R = a parameter, a `let`-bound local, `self.f`, or a field
                                                                                  name bound by the enclosing `SerializeMap::V { f, .. }` pattern)
     Value::Bool(e) / Value::Null / Value::Number(e) / Value::String(e) / Value::Array(e) / Value::Object(e)
     e.into()            (only as the argument of Value::Number)       EInto         From<i8..i64, u8..u64 [, i128, u128]> for Number = [number_of_int]
     Value::from(float)                                                 EValueFromFloat   From<f32>/From<f64> for Value = [tv_f32] / [tv_f64]
     e as i64 / e as u64                                                ECast         only widening casts have a meaning here
     e.to_owned() / String::from(e) / e.to_string() / String::new()     EToOwned / EStringFrom / EToString / EStringNew
     Map::new() / Map::with_capacity(e) / Vec::with_capacity(e) / e.unwrap_or(0) / Some(e) / None / ()
     value.iter().map(|&b| Value::Number(b.into())).collect()           EBytesAsNumbers (exact text)
     e.expect("..")                                                     EExpect       [Panic] on None
     tri!(to_value(value))                                              EToValue      the child's own conversion: [rec]
     tri!(key.serialize(MapKeySerializer))                              EKeySer       [keyser] (translated by translate_keys.py, Proofs/SerKeys.v)
     tri!(value.serialize(NumberValueEmitter / RawValueEmitter))        EEmitNumber / EEmitRaw
     SerializeVec { vec: e, } / SerializeTupleVariant { name: e, vec: e, } / SerializeMap::Map { map: e, next_key: e, } /
     SerializeMap::Number { out_value: e } / SerializeMap::RawValue { out_value: e } / SerializeStructVariant { name: e, map: e, }
   Statements
     let [mut] x = e;                       SLet            let x = f.take();                     SLetTake
     x.push(e); / self.f.push(e);           SPushLocal / SPushField
     x.insert(k, v); / f.insert(k, v);      SInsertLocal / SInsertField      Map::insert = [minsert] (the Option it returns is dropped)
     *f = e;                                SSetField
     Ok(e) / Err(f()) / Err(Error::syntax(ErrorCode::C, 0, 0)) / unreachable!()                  SOk / SErr / SUnreachable
     self.serialize_m(ARGS) / serde::ser::SerializeT::m(self, ARGS)       SCallM (tail)   tri!(..); SDoCallM (only in serde's serialize_entry)
     value.serialize(self)                                                SChildSelf
     match self { SerializeMap::Map { .. } => .., #[cfg(..)] SerializeMap::Number { .. } => .., #[cfg(..)] SerializeMap::RawValue { .. } => .. }
     match name { #[cfg(..)] crate::number::TOKEN => .., #[cfg(..)] crate::raw::TOKEN => .., _ => .. }
     if key == crate::number::TOKEN { .. } else { .. }
     #[cfg(feature = "arbitrary_precision")] { .. } #[cfg(not(feature = "arbitrary_precision"))] { .. }         SCfgAP
     if let Ok(value) = u64::try_from(value) { .. } else ..                                                     SIfTryFrom (rebinds the parameter)

   `tri!(e)` is `match e { Ok(v) => v, Err(err) => return Err(err) }`: [bind] of the [res] monad (nothing else is observable: no writer).
   Stuck programs (wrongly typed operand, unbound name, method called on the wrong builder, no arm matches) yield [Panic]; calls take fuel.
   A parameter is identified by its POSITION in the serde trait signature (the translator maps the source's own name for it to the
   slot the protocol fills: value / key / variant / name / len).

   Trusted besides the interpreter: `SerAst.protocol`; `impl Serialize for str`; serde's PROVIDED `SerializeMap::serialize_entry`
   ([vdefault_entry]), `Serializer::collect_str` (= serialize_str(&value.to_string())) and `serialize_i128/u128` (= Err(custom(..))) where an
   emitter does not override them; the meaning of the std / crate primitives named above (their crate-side bodies — From impls,
   Number::from_f32/f64, FromStr for Number, Map::new/with_capacity/insert, to_value — are pinned by exact text in the translator). *)
From SJ Require Import Base.Bytes Base.Utf8 Model.Read Model.Num Model.Value Model.Sval Model.Ser Model.ValueSer Model.KeyAst Model.SerAst.
Open Scope N_scope.

(* ---- builders ---------------------------------------------------------------------------------- *)
Inductive fname := Fvec | Fname | Fmap | Fnext_key | Fout_value.
Inductive btype := TySerializeVec | TySerializeTupleVariant | TySerializeMap | TySerializeStructVariant.
Inductive builder :=
  | BVec (vec : list value)                                         (* SerializeVec { vec } *)
  | BTupleVariant (name : bytes) (vec : list value)                 (* SerializeTupleVariant { name, vec } *)
  | BMap (map : list (bytes * value)) (next_key : option bytes)     (* SerializeMap::Map { map, next_key } *)
  | BNumber (out_value : option value)                              (* SerializeMap::Number { out_value } *)
  | BRawValue (out_value : option value)                            (* SerializeMap::RawValue { out_value } *)
  | BStructVariant (name : bytes) (map : list (bytes * value)).     (* SerializeStructVariant { name, map } *)

Definition btype_of (b : builder) : btype :=
  match b with
  | BVec _ => TySerializeVec | BTupleVariant _ _ => TySerializeTupleVariant
  | BMap _ _ | BNumber _ | BRawValue _ => TySerializeMap | BStructVariant _ _ => TySerializeStructVariant
  end.
Definition btype_eqb (a b : btype) : bool :=
  match a, b with
  | TySerializeVec, TySerializeVec | TySerializeTupleVariant, TySerializeTupleVariant | TySerializeMap, TySerializeMap
  | TySerializeStructVariant, TySerializeStructVariant => true
  | _, _ => false
  end.

Inductive dval :=
  | DUnit
  | DArg (a : aval)                        (* a parameter: bool / integer / float bits / char / &str / &[u8] / &T / usize / Option<usize> *)
  | DString (s : bytes)
  | DNumber (n : num)
  | DValue (v : value)
  | DVec (l : list value)
  | DMap (m : list (bytes * value))
  | DOptString (o : option bytes)
  | DOptValue (o : option value)
  | DBuilder (b : builder).

(* ---- syntax ------------------------------------------------------------------------------------ *)
Inductive vexp :=
  | EParam (p : pname)
  | ELocal (x : nat)
  | EField (f : fname)
  | EUnit
  | ECast (ty : intty) (e : vexp)
  | EInto (e : vexp)
  | EValueBool (e : vexp) | EValueNull | EValueNumber (e : vexp) | EValueString (e : vexp) | EValueArray (e : vexp) | EValueObject (e : vexp)
  | EValueFromFloat (e : vexp)
  | EToOwned (e : vexp) | EStringFrom (e : vexp) | EToString (e : vexp) | EStringNew
  | EMapNew | EMapWithCapacity (e : vexp) | EVecWithCapacity (e : vexp)
  | EUnwrapOr0 (e : vexp) | ESome (e : vexp) | ENoneString | ENoneValue
  | EBytesAsNumbers (e : vexp)
  | EExpect (e : vexp)
  | EToValue (e : vexp)
  | EKeySer (e : vexp)
  | EEmitNumber (e : vexp) | EEmitRaw (e : vexp)
  | EBuildVec (vec : vexp) | EBuildTupleVariant (name vec : vexp) | EBuildMap (map next_key : vexp)
  | EBuildNumber (out_value : vexp) | EBuildRawValue (out_value : vexp) | EBuildStructVariant (name map : vexp).

Inductive vstmt :=
  | SLet (x : nat) (e : vexp)
  | SLetTake (x : nat) (f : fname)
  | SPushLocal (x : nat) (e : vexp)
  | SPushField (f : fname) (e : vexp)
  | SInsertLocal (x : nat) (k v : vexp)
  | SInsertField (f : fname) (k v : vexp)
  | SSetField (f : fname) (e : vexp)
  | SOk (e : vexp)
  | SErr (c : ecode)
  | SUnreachable
  | SCallM (m : smeth) (args : list (pname * vexp))
  | SDoCallM (m : smeth) (args : list (pname * vexp))
  | SChildSelf (p : pname)
  | SMatchSelf (arms : list (cfgtag * cpat * list vstmt))
  | SMatchName (arms : list (cfgtag * tokpat * list vstmt))
  | SIfKeyIs (t : tokpat) (a b : list vstmt)
  | SCfgAP (a b : list vstmt)
  | SIfTryFrom (ty : intty) (p : pname) (a b : list vstmt).

(* what the methods of NumberValueEmitter / RawValueEmitter do *)
Inductive veclass :=
  | VEReject (c : ecode)                   (* Err(invalid_number()) / Err(invalid_raw_value()) *)
  | VERejectCustom                         (* method not overridden: serde's serialize_i128 / u128 = Err(Error::custom("i128 is not supported")) *)
  | VEParseNumber                          (* let n = tri!(value.to_owned().parse()); Ok(Value::Number(n)) *)
  | VEFromStr                              (* crate::from_str(value) *)
  | VEToStringThenStr.                     (* self.serialize_str(&value.to_string())   (written out, or serde's default collect_str) *)

Record vser_source := mkVSrc {
  vs_methods : list (smeth * list vstmt);
  vs_impl_types : list (ctrait * btype);             (* `impl serde::ser::SerializeSeq for SerializeVec` .. (= the Serializer's associated types) *)
  vs_number_token : bytes;                           (* crate::number::TOKEN *)
  vs_raw_token : bytes;                              (* crate::raw::TOKEN *)
  vs_number_emitter : list (kmethod * veclass);
  vs_raw_emitter : list (kmethod * veclass)
}.

Fixpoint vlookup_meth (t : list (smeth * list vstmt)) (m : smeth) : option (list vstmt) :=
  match t with
  | [] => None
  | (m', b) :: r => if smeth_eqb m' m then Some b else vlookup_meth r m
  end.
Fixpoint velookup (t : list (kmethod * veclass)) (m : kmethod) : option veclass :=
  match t with
  | [] => None
  | (m', c) :: r => if kmethod_eqb m' m then Some c else velookup r m
  end.
Fixpoint impl_type (t : list (ctrait * btype)) (c : ctrait) : option btype :=
  match t with
  | [] => None
  | (c', b) :: r => if ctrait_eqb c' c then Some b else impl_type r c
  end.

(* the protocol of SerAst needs a [ser_source] only for the number token (`impl Serialize for Number`) *)
Definition token_source (s : vser_source) : ser_source := mkSrc [] (vs_number_token s) (vs_raw_token s) [] [].

(* ---- machine ----------------------------------------------------------------------------------- *)
Record frame := mkFrame { fr_self : option builder; fr_args : margs; fr_locals : list (nat * dval) }.
Definition set_self (b : option builder) (fr : frame) : frame := mkFrame b (fr_args fr) (fr_locals fr).
Definition set_local (x : nat) (d : dval) (fr : frame) : frame := mkFrame (fr_self fr) (fr_args fr) ((x, d) :: fr_locals fr).
Fixpoint lookup_local (x : nat) (l : list (nat * dval)) : option dval :=
  match l with
  | [] => None
  | (y, d) :: r => if Nat.eqb y x then Some d else lookup_local x r
  end.

Definition get_field (f : fname) (b : builder) : option dval :=
  match f, b with
  | Fvec, BVec vec | Fvec, BTupleVariant _ vec => Some (DVec vec)
  | Fname, BTupleVariant name _ | Fname, BStructVariant name _ => Some (DString name)
  | Fmap, BMap map _ | Fmap, BStructVariant _ map => Some (DMap map)
  | Fnext_key, BMap _ nk => Some (DOptString nk)
  | Fout_value, BNumber o | Fout_value, BRawValue o => Some (DOptValue o)
  | _, _ => None
  end.
Definition put_field (f : fname) (d : dval) (b : builder) : option builder :=
  match f, b, d with
  | Fvec, BVec _, DVec vec => Some (BVec vec)
  | Fvec, BTupleVariant name _, DVec vec => Some (BTupleVariant name vec)
  | Fname, BTupleVariant _ vec, DString name => Some (BTupleVariant name vec)
  | Fname, BStructVariant _ map, DString name => Some (BStructVariant name map)
  | Fmap, BMap _ nk, DMap map => Some (BMap map nk)
  | Fmap, BStructVariant name _, DMap map => Some (BStructVariant name map)
  | Fnext_key, BMap map _, DOptString nk => Some (BMap map nk)
  | Fout_value, BNumber _, DOptValue o => Some (BNumber o)
  | Fout_value, BRawValue _, DOptValue o => Some (BRawValue o)
  | _, _, _ => None
  end.

(* `e as ty`: the value is kept when every value of the operand's type fits (i8/i16/i32 -> i64, u8/u16/u32 -> u64, ..) *)
Definition widens (from to : intty) : bool := (int_lo to <=? int_lo from)%Z && (int_hi from <=? int_hi to)%Z.

Definition bpat_matches (p : cpat) (b : builder) : bool :=
  match p, b with CPMap, BMap _ _ | CPNumber, BNumber _ | CPRawValue, BRawValue _ => true | _, _ => false end.

(* serde's provided SerializeMap::serialize_entry: { tri!(self.serialize_key(key)); self.serialize_value(value) } *)
Definition vdefault_entry : list vstmt :=
  [SDoCallM (MComp TMap Ckey) [(PKey, EParam PKey)]; SCallM (MComp TMap Cvalue) [(PValue, EParam PValue)]].

Section VInterp.
  Variable src : vser_source.
  Variable cf : cfg.                           (* features arbitrary_precision, preserve_order *)
  Variable rv : bool.                          (* feature raw_value *)
  Variable fmt32 fmt64 : N -> bytes.           (* ryu *)
  Variable rec : sval -> res value.            (* to_value(value) / value.serialize(Serializer): the child's own conversion *)
  Variable keyser : sval -> res bytes.         (* key.serialize(MapKeySerializer) *)
  Variable raw_parse : bytes -> res value.     (* crate::from_str::<Value> (RawValueEmitter::serialize_str) *)

  Definition vcfg_on (c : cfgtag) : bool := match c with CfgAlways => true | CfgAP => arbitrary_precision cf | CfgRV => rv end.
  Definition vtok_matches (p : tokpat) (s : bytes) : bool :=
    match p with
    | TokNumber => beq_bytes s (vs_number_token src)
    | TokRaw => beq_bytes s (vs_raw_token src)
    | TokAny => true
    end.

  (* From<$ty> for Number exists for i128 / u128 only under arbitrary_precision *)
  Definition into_number_ok (ty : intty) : bool := match ty with I128 | U128 => arbitrary_precision cf | _ => true end.

  (* ---- the emitters ---- *)
  Definition vemit_str (c : option veclass) (s : bytes) : res value :=
    match c with
    | Some (VEReject e) => Err e O
    | Some VERejectCustom => Err (Message MCustom) O
    | Some VEParseNumber => let* n := number_from_str cf s in Ok (VNum n)
    | Some VEFromStr => raw_parse s
    | _ => Panic
    end.
  Definition vemit_meaning (t : list (kmethod * veclass)) (v : sval) : res value :=
    match velookup t (method_of v) with
    | Some (VEReject e) => Err e O
    | Some VERejectCustom => Err (Message MCustom) O
    | Some VEToStringThenStr => match v with SCollectStr chunks => vemit_str (velookup t m_str) (concat chunks) | _ => Panic end
    | c => match v with SStr s => vemit_str c s | _ => Panic end
    end.

  (* ---- expressions ---- *)
  Definition node_arg (d : dval) : option sval := match d with DArg a => node_of a | _ => None end.

  Fixpoint eval (e : vexp) (fr : frame) {struct e} : res dval :=
    match e with
    | EParam p => match get_arg p (fr_args fr) with ANone => Panic | a => Ok (DArg a) end
    | ELocal x => match lookup_local x (fr_locals fr) with Some d => Ok d | None => Panic end
    | EField f => match fr_self fr with Some b => match get_field f b with Some d => Ok d | None => Panic end | None => Panic end
    | EUnit => Ok DUnit
    | ECast ty e1 =>
      let* d := eval e1 fr in
      match d with DArg (AInt ty0 z) => if widens ty0 ty then Ok (DArg (AInt ty z)) else Panic | _ => Panic end
    | EInto e1 =>
      let* d := eval e1 fr in
      match d with DArg (AInt ty z) => if into_number_ok ty then Ok (DNumber (number_of_int cf z)) else Panic | _ => Panic end
    | EValueBool e1 => let* d := eval e1 fr in match d with DArg (ABool b) => Ok (DValue (VBool b)) | _ => Panic end
    | EValueNull => Ok (DValue VNull)
    | EValueNumber e1 => let* d := eval e1 fr in match d with DNumber n => Ok (DValue (VNum n)) | _ => Panic end
    | EValueString e1 => let* d := eval e1 fr in match d with DString s => Ok (DValue (VStr s)) | _ => Panic end
    | EValueArray e1 => let* d := eval e1 fr in match d with DVec l => Ok (DValue (VArr l)) | _ => Panic end
    | EValueObject e1 => let* d := eval e1 fr in match d with DMap m => Ok (DValue (VObj m)) | _ => Panic end
    | EValueFromFloat e1 =>
      let* d := eval e1 fr in
      match d with
      | DArg (AF32 bits) => Ok (DValue (tv_f32 cf fmt32 bits))
      | DArg (AF64 bits) => Ok (DValue (tv_f64 cf fmt64 bits))
      | _ => Panic
      end
    | EToOwned e1 | EStringFrom e1 => let* d := eval e1 fr in match d with DArg (AStr s) => Ok (DString s) | _ => Panic end
    | EToString e1 => let* d := eval e1 fr in match d with DArg (AChunks l) => Ok (DString (concat l)) | _ => Panic end
    | EStringNew => Ok (DString [])
    | EMapNew => Ok (DMap [])
    | EMapWithCapacity e1 => let* d := eval e1 fr in match d with DArg (AUsize _) => Ok (DMap []) | _ => Panic end
    | EVecWithCapacity e1 => let* d := eval e1 fr in match d with DArg (AUsize _) => Ok (DVec []) | _ => Panic end
    | EUnwrapOr0 e1 =>
      let* d := eval e1 fr in
      match d with DArg (AOptUsize o) => Ok (DArg (AUsize (match o with Some n => n | None => O end))) | _ => Panic end
    | ESome e1 =>
      let* d := eval e1 fr in
      match d with
      | DArg (AUsize n) => Ok (DArg (AOptUsize (Some n)))
      | DString s => Ok (DOptString (Some s))
      | DValue v => Ok (DOptValue (Some v))
      | _ => Panic
      end
    | ENoneString => Ok (DOptString None)
    | ENoneValue => Ok (DOptValue None)
    | EBytesAsNumbers e1 =>
      let* d := eval e1 fr in
      match d with
      | DArg (ABytes s) => if into_number_ok U8 then Ok (DVec (map (fun b => VNum (number_of_int cf (Z.of_N b))) s)) else Panic
      | _ => Panic
      end
    | EExpect e1 =>
      let* d := eval e1 fr in
      match d with DOptString (Some s) => Ok (DString s) | DOptValue (Some v) => Ok (DValue v) | _ => Panic end
    | EToValue e1 => let* d := eval e1 fr in match node_arg d with Some n => let* v := rec n in Ok (DValue v) | None => Panic end
    | EKeySer e1 => let* d := eval e1 fr in match node_arg d with Some n => let* s := keyser n in Ok (DString s) | None => Panic end
    | EEmitNumber e1 =>
      let* d := eval e1 fr in
      match node_arg d with Some n => let* v := vemit_meaning (vs_number_emitter src) n in Ok (DValue v) | None => Panic end
    | EEmitRaw e1 =>
      let* d := eval e1 fr in
      match node_arg d with Some n => let* v := vemit_meaning (vs_raw_emitter src) n in Ok (DValue v) | None => Panic end
    | EBuildVec e1 => let* d := eval e1 fr in match d with DVec l => Ok (DBuilder (BVec l)) | _ => Panic end
    | EBuildTupleVariant e1 e2 =>
      let* d1 := eval e1 fr in let* d2 := eval e2 fr in
      match d1, d2 with DString s, DVec l => Ok (DBuilder (BTupleVariant s l)) | _, _ => Panic end
    | EBuildMap e1 e2 =>
      let* d1 := eval e1 fr in let* d2 := eval e2 fr in
      match d1, d2 with DMap m, DOptString o => Ok (DBuilder (BMap m o)) | _, _ => Panic end
    | EBuildNumber e1 => let* d := eval e1 fr in match d with DOptValue o => Ok (DBuilder (BNumber o)) | _ => Panic end
    | EBuildRawValue e1 => let* d := eval e1 fr in match d with DOptValue o => Ok (DBuilder (BRawValue o)) | _ => Panic end
    | EBuildStructVariant e1 e2 =>
      let* d1 := eval e1 fr in let* d2 := eval e2 fr in
      match d1, d2 with DString s, DMap m => Ok (DBuilder (BStructVariant s m)) | _, _ => Panic end
    end.

  Fixpoint bind_vargs (l : list (pname * vexp)) (fr : frame) (acc : margs) : res margs :=
    match l with
    | [] => Ok acc
    | (p, e) :: r => let* d := eval e fr in match d with DArg a => bind_vargs r fr (set_arg p a acc) | _ => Panic end
    end.

  (* x.push(e): String::push(char) / Vec<Value>::push(Value) *)
  Definition push_onto (target elem : dval) : option dval :=
    match target, elem with
    | DString s, DArg (AChar c) => Some (DString (s ++ utf8_encode c))
    | DVec l, DValue v => Some (DVec (l ++ [v]))
    | _, _ => None
    end.
  (* m.insert(k, v): Map<String, Value>::insert *)
  Definition insert_into (target k v : dval) : option dval :=
    match target, k, v with
    | DMap m, DString s, DValue x => Some (DMap (minsert cf s x m))
    | _, _, _ => None
    end.
  Definition write_field (f : fname) (d : dval) (fr : frame) : option frame :=
    match fr_self fr with
    | Some b => match put_field f d b with Some b' => Some (set_self (Some b') fr) | None => None end
    | None => None
    end.

  (* ---- statements ---- *)
  Section Exec.
    Variable call : smeth -> margs -> option builder -> res (option builder * dval).     (* a nested call (one unit of fuel less) *)

    (* a statement yields the frame after it and, when it is the value of its block, that value (the payload of the `Ok`) *)
    Fixpoint exec_stmt (s : vstmt) (fr : frame) {struct s} : res (frame * option dval) :=
      let exec_list := fix go (l : list vstmt) (fr : frame) {struct l} : res (frame * option dval) :=
        match l with
        | [] => Ok (fr, None)
        | s :: r =>
          let* (fr1, o) := exec_stmt s fr in
          match o, r with
          | None, _ => go r fr1
          | Some d, [] => Ok (fr1, Some d)
          | Some _, _ :: _ => Panic
          end
        end in
      match s with
      | SLet x e => let* d := eval e fr in Ok (set_local x d fr, None)
      | SLetTake x f =>
        let* d := eval (EField f) fr in
        match d with
        | DOptString o => match write_field f (DOptString None) fr with Some fr1 => Ok (set_local x (DOptString o) fr1, None) | None => Panic end
        | DOptValue o => match write_field f (DOptValue None) fr with Some fr1 => Ok (set_local x (DOptValue o) fr1, None) | None => Panic end
        | _ => Panic
        end
      | SPushLocal x e =>
        let* t := eval (ELocal x) fr in let* d := eval e fr in
        match push_onto t d with Some t' => Ok (set_local x t' fr, None) | None => Panic end
      | SPushField f e =>
        let* t := eval (EField f) fr in let* d := eval e fr in
        match push_onto t d with
        | Some t' => match write_field f t' fr with Some fr1 => Ok (fr1, None) | None => Panic end
        | None => Panic
        end
      | SInsertLocal x k v =>
        let* t := eval (ELocal x) fr in let* dk := eval k fr in let* dv := eval v fr in
        match insert_into t dk dv with Some t' => Ok (set_local x t' fr, None) | None => Panic end
      | SInsertField f k v =>
        let* t := eval (EField f) fr in let* dk := eval k fr in let* dv := eval v fr in
        match insert_into t dk dv with
        | Some t' => match write_field f t' fr with Some fr1 => Ok (fr1, None) | None => Panic end
        | None => Panic
        end
      | SSetField f e =>
        let* d := eval e fr in
        match write_field f d fr with Some fr1 => Ok (fr1, None) | None => Panic end
      | SOk e => let* d := eval e fr in Ok (fr, Some d)
      | SErr c => Err c O
      | SUnreachable => Panic
      | SCallM m args =>
        let* a' := bind_vargs args fr no_args in
        let* (b', d) := call m a' (fr_self fr) in Ok (set_self b' fr, Some d)
      | SDoCallM m args =>
        let* a' := bind_vargs args fr no_args in
        let* (b', d) := call m a' (fr_self fr) in
        match d with DUnit => Ok (set_self b' fr, None) | _ => Panic end
      | SChildSelf p =>
        match fr_self fr, node_of (get_arg p (fr_args fr)) with
        | None, Some n => let* v := rec n in Ok (fr, Some (DValue v))
        | _, _ => Panic
        end
      | SMatchSelf arms =>
        match fr_self fr with
        | Some b =>
          (fix pick (l : list (cfgtag * cpat * list vstmt)) : res (frame * option dval) :=
             match l with
             | [] => Panic
             | (g, p, body) :: r => if vcfg_on g && bpat_matches p b then exec_list body fr else pick r
             end) arms
        | None => Panic
        end
      | SMatchName arms =>
        match a_name (fr_args fr) with
        | AStr n =>
          (fix pick (l : list (cfgtag * tokpat * list vstmt)) : res (frame * option dval) :=
             match l with
             | [] => Panic
             | (g, p, body) :: r => if vcfg_on g && vtok_matches p n then exec_list body fr else pick r
             end) arms
        | _ => Panic
        end
      | SIfKeyIs t x y =>
        match a_key (fr_args fr) with AStr k => if vtok_matches t k then exec_list x fr else exec_list y fr | _ => Panic end
      | SCfgAP x y => if arbitrary_precision cf then exec_list x fr else exec_list y fr
      | SIfTryFrom ty p x y =>
        match get_arg p (fr_args fr) with
        | AInt _ z =>
          if int_in_range ty z
          then exec_list x (mkFrame (fr_self fr) (set_arg p (AInt ty z) (fr_args fr)) (fr_locals fr))
          else exec_list y fr
        | _ => Panic
        end
      end.

    Fixpoint exec_list (l : list vstmt) (fr : frame) : res (frame * option dval) :=
      match l with
      | [] => Ok (fr, None)
      | s :: r =>
        let* (fr1, o) := exec_stmt s fr in
        match o, r with
        | None, _ => exec_list r fr1
        | Some d, [] => Ok (fr1, Some d)
        | Some _, _ :: _ => Panic
        end
      end.
  End Exec.

  (* a method runs on the receiver its impl is written for: the unit struct `Serializer` (no builder), or the builder type of
     `impl serde::ser::Serialize<t> for <type>` *)
  Definition receiver_ok (m : smeth) (self : option builder) : bool :=
    match m, self with
    | MSer _, None => true
    | MComp t _, Some b => match impl_type (vs_impl_types src) t with Some ty => btype_eqb ty (btype_of b) | None => false end
    | _, _ => false
    end.

  Fixpoint vrun (fuel : nat) (m : smeth) (a : margs) (self : option builder) {struct fuel} : res (option builder * dval) :=
    match fuel with
    | O => OutOfFuel
    | S f =>
      if receiver_ok m self then
        match (match m with MComp TMap Centry => Some vdefault_entry | _ => vlookup_meth (vs_methods src) m end) with
        | Some body =>
          let* (fr, o) := exec_list (vrun f) body (mkFrame self a []) in
          match o with Some d => Ok (fr_self fr, d) | None => Panic end
        | None => Panic
        end
      else Panic
    end.

  (* ---- the protocol runner: the calls `SerAst.protocol` lists for a node, in order ------------- *)
  Inductive pstate :=
    | PStart                               (* nothing called yet: the next call is a Serializer method *)
    | POpen (b : builder)                  (* a container is open: the next call is a method of its builder *)
    | PDone (v : value).                   (* the Value is there *)

  Definition VSER_FUEL : nat := 6.

  Definition vstep (c : pcall) (ps : pstate) : res pstate :=
    match c, ps with
    | PCall (MSer m) a, PStart =>
      let* (_, d) := vrun VSER_FUEL (MSer m) a None in
      match d with DValue v => Ok (PDone v) | DBuilder b => Ok (POpen b) | _ => Panic end
    | PCall (MComp t f) a, POpen b =>
      let* (ob, d) := vrun VSER_FUEL (MComp t f) a (Some b) in
      match d, ob with
      | DUnit, Some b' => Ok (POpen b')
      | DValue v, _ => Ok (PDone v)
      | _, _ => Panic
      end
    | _, _ => Panic
    end.

  Fixpoint vrun_calls (l : list pcall) (ps : pstate) : res pstate :=
    match l with
    | [] => Ok ps
    | c :: r => let* ps1 := vstep c ps in vrun_calls r ps1
    end.

  Definition vis_private_token (n : bytes) : bool := beq_bytes n (vs_number_token src) || beq_bytes n (vs_raw_token src).

  Definition vrun_protocol (sname : bytes) (v : sval) : res value :=
    let* ps := vrun_calls (protocol (token_source src) sname v) PStart in
    match ps with PDone x => Ok x | _ => Panic end.
End VInterp.
