(* Model/Str.v — JSON string literals: src/read.rs
     is_escape, decode_hex_val_slow/build_hex_table/decode_four_hex_digits, push_wtf8_codepoint,
     parse_escape, parse_unicode_escape, ignore_escape (generic over the reader),
     SliceRead::{skip_to_escape, parse_str_bytes, ignore_str, decode_hex_escape},
     IoRead::{parse_str_bytes, ignore_str, decode_hex_escape}, StrRead (no UTF-8 re-validation).
   The opening quote has been consumed by the caller. *)
From SJ Require Import Base.Bytes Base.Utf8 Gen.Tables Model.Read.
Open Scope N_scope.

Definition is_escape (b : byte) (ctrl : bool) : bool :=
  (b =? ESC_QUOTE) || (b =? ESC_BSLASH) || (ctrl && (b <? CTRL_LIMIT)).

(* decode_hex_val_slow *)
Fixpoint hex_lookup (rs : list (N * N * N)) (b : byte) : option N :=
  match rs with
  | [] => None
  | (lo, hi, add) :: rs' => if (lo <=? b) && (b <=? hi) then Some (b - lo + add) else hex_lookup rs' b
  end.
Definition hex_val (b : byte) : option N := hex_lookup HEX_RANGES b.

(* HEX0 / HEX1: i16 tables, -1 for non-hex bytes *)
Definition hex_tab (shift : N) (b : byte) : Z :=
  match hex_val b with
  | Some v => Z.shiftl (Z.of_N v) (Z.of_N shift)
  | None => (-1)%Z
  end.

(* decode_four_hex_digits: ((a | b) << 8) | c | d on i32, one sign check *)
Definition decode_four_hex (a b c d : byte) : option N :=
  let cp := Z.lor (Z.lor (Z.shiftl (Z.lor (hex_tab 4 a) (hex_tab 0 b)) 8) (hex_tab 4 c)) (hex_tab 0 d) in
  if (0 <=? cp)%Z then Some (Z.to_N cp) else None.

(* push_wtf8_codepoint: the bytes appended; the two unreachable!() arms are Panic *)
Definition push_wtf8 (n : N) : res bytes :=
  if n <? 128 then Ok [n]
  else if n <=? 2047 then
    Ok [N.lor (N.land (N.shiftr n 6) 31) 192; N.lor (N.land n 63) 128]
  else if n <=? 65535 then
    Ok [N.lor (N.land (N.shiftr n 12) 15) 224; N.lor (N.land (N.shiftr n 6) 63) 128; N.lor (N.land n 63) 128]
  else if n <=? 1114111 then
    Ok [N.lor (N.land (N.shiftr n 18) 7) 240; N.lor (N.land (N.shiftr n 12) 63) 128;
        N.lor (N.land (N.shiftr n 6) 63) 128; N.lor (N.land n 63) 128]
  else Panic.

Definition next_or_eof (E : env) (s : st) : res (byte * st) :=
  let* (o, s') := next E s in
  match o with Some b => Ok (b, s') | None => error E s' EofWhileParsingString end.

Definition peek_or_eof (E : env) (s : st) : res (byte * st) :=
  let* (o, s') := peek E s in
  match o with Some b => Ok (b, s') | None => error E s' EofWhileParsingString end.

(* Read::decode_hex_escape — implemented separately by SliceRead and IoRead *)
Definition decode_hex_escape (E : env) (s : st) : res (N * st) :=
  if is_io E then
    let* (a, s1) := next_or_eof E s in
    let* (b, s2) := next_or_eof E s1 in
    let* (c, s3) := next_or_eof E s2 in
    let* (d, s4) := next_or_eof E s3 in
    match decode_four_hex a b c d with
    | Some v => Ok (v, s4)
    | None => error E s4 InvalidEscape
    end
  else
    match rest s with
    | a :: b :: c :: d :: _ =>
      let s4 := advance 4 s in
      match decode_four_hex a b c d with
      | Some v => Ok (v, s4)
      | None => error E s4 InvalidEscape
      end
    | _ => error E (advance (length (rest s)) s) EofWhileParsingString
    end.

Fixpoint assoc_N (l : list (N * N)) (k : N) : option N :=
  match l with
  | [] => None
  | (a, b) :: l' => if k =? a then Some b else assoc_N l' k
  end.
Definition escape_simple (ch : byte) : option byte := assoc_N ESCAPE_DECODE ch.

(* parse_escape restricted to the non-`u` arms (what the recursive call inside
   parse_unicode_escape can reach, since its next byte is known not to be `u`) *)
Definition parse_escape_nonu (E : env) (s : st) : res (bytes * st) :=
  let* (ch, s1) := next_or_eof E s in
  match escape_simple ch with
  | Some b => Ok ([b], s1)
  | None => error E s1 InvalidEscape
  end.

(* the `loop` of parse_unicode_escape; returns the bytes pushed to scratch *)
Fixpoint unicode_loop (fuel : nat) (E : env) (validate : bool) (n : N) (s : st) : res (bytes * st) :=
  match fuel with
  | O => OutOfFuel
  | S f =>
    if (n <? 55296) || (56319 <? n) then
      let* w := push_wtf8 n in Ok (w, s)
    else
      let n1 := n in
      let* (b, s1) := peek_or_eof E s in
      if b =? 92 then
        let s2 := discard s1 in
        let* (b2, s3) := peek_or_eof E s2 in
        if b2 =? 117 then
          let s4 := discard s3 in
          let* (n2, s5) := decode_hex_escape E s4 in
          if (n2 <? 56320) || (57343 <? n2) then
            if validate then error E s5 LoneLeadingSurrogateInHexEscape
            else
              let* w := push_wtf8 n1 in
              let* (w', s6) := unicode_loop f E validate n2 s5 in
              Ok (w ++ w', s6)
          else
            let cp := N.lor (N.shiftl (n1 - 55296) 10) (n2 - 56320) + 65536 in
            let* w := push_wtf8 cp in Ok (w, s5)
        else
          if validate then error E (discard s3) UnexpectedEndOfHexEscape
          else
            let* w := push_wtf8 n1 in
            let* (w', s4) := parse_escape_nonu E s3 in
            Ok (w ++ w', s4)
      else
        if validate then error E (discard s1) UnexpectedEndOfHexEscape
        else let* w := push_wtf8 n1 in Ok (w, s1)
  end.

Definition parse_unicode_escape (fuel : nat) (E : env) (validate : bool) (s : st) : res (bytes * st) :=
  let* (n, s1) := decode_hex_escape E s in
  if validate && (56320 <=? n) && (n <=? 57343) then error E s1 LoneLeadingSurrogateInHexEscape
  else unicode_loop fuel E validate n s1.

(* parse_escape: the backslash has been consumed *)
Definition parse_escape (fuel : nat) (E : env) (validate : bool) (s : st) : res (bytes * st) :=
  let* (ch, s1) := next_or_eof E s in
  if ch =? 117 then parse_unicode_escape fuel E validate s1
  else match escape_simple ch with
       | Some b => Ok ([b], s1)
       | None => error E s1 InvalidEscape
       end.

(* ignore_escape *)
Definition ignore_escape (E : env) (s : st) : res st :=
  let* (ch, s1) := next_or_eof E s in
  if ch =? 117 then let* (_, s2) := decode_hex_escape E s1 in Ok s2
  else match escape_simple ch with
       | Some _ => Ok s1
       | None => error E s1 InvalidEscape
       end.

(* ---- IoRead::parse_str_bytes: one byte at a time -------------------------------- *)
Fixpoint io_str_loop (fuel : nat) (E : env) (validate : bool) (s : st) : res (bytes * st) :=
  match fuel with
  | O => OutOfFuel
  | S f =>
    let* (ch, s1) := next_or_eof E s in
    if negb (is_escape ch true) then
      let* (out, s2) := io_str_loop f E validate s1 in Ok (ch :: out, s2)
    else if ch =? 34 then Ok ([], s1)
    else if ch =? 92 then
      let* (w, s2) := parse_escape f E validate s1 in
      let* (out, s3) := io_str_loop f E validate s2 in Ok (w ++ out, s3)
    else if validate then error E s1 ControlCharacterWhileParsingString
    else let* (out, s2) := io_str_loop f E validate s1 in Ok (ch :: out, s2)
  end.

Fixpoint io_ignore_loop (fuel : nat) (E : env) (s : st) : res st :=
  match fuel with
  | O => OutOfFuel
  | S f =>
    let* (ch, s1) := next_or_eof E s in
    if negb (is_escape ch true) then io_ignore_loop f E s1
    else if ch =? 34 then Ok s1
    else if ch =? 92 then let* s2 := ignore_escape E s1 in io_ignore_loop f E s2
    else error E s1 ControlCharacterWhileParsingString
  end.

(* ---- SliceRead::parse_str_bytes: jump to the next special byte, copy chunks ------- *)
(* skip_to_escape as specified: advance to the first byte with is_escape, or to the end.
   (The 8-byte SWAR implementation is modelled in Model/Swar.v and proved equal to this.) *)
Definition esc_span (ctrl : bool) (l : bytes) : nat := span_len (fun b => negb (is_escape b ctrl)) l.

(* result: decoded bytes, whether scratch was used (Copied) or not (Borrowed), final state *)
Fixpoint slice_str_loop (fuel : nat) (E : env) (validate : bool) (s : st) : res (bytes * bool * st) :=
  match fuel with
  | O => OutOfFuel
  | S f =>
    let n := esc_span validate (rest s) in
    let chunk := firstn n (rest s) in
    let s1 := advance n s in
    match rest s1 with
    | [] => error E s1 EofWhileParsingString
    | b :: _ =>
      if b =? 34 then Ok (chunk, false, advance 1 s1)
      else if b =? 92 then
        let* (w, s2) := parse_escape f E validate (advance 1 s1) in
        let* (out, _, s3) := slice_str_loop f E validate s2 in
        Ok (chunk ++ w ++ out, true, s3)
      else error E (advance 1 s1) ControlCharacterWhileParsingString
    end
  end.

Fixpoint slice_ignore_loop (fuel : nat) (E : env) (s : st) : res st :=
  match fuel with
  | O => OutOfFuel
  | S f =>
    let s1 := advance (esc_span true (rest s)) s in
    match rest s1 with
    | [] => error E s1 EofWhileParsingString
    | b :: _ =>
      if b =? 34 then Ok (advance 1 s1)
      else if b =? 92 then let* s2 := ignore_escape E (advance 1 s1) in slice_ignore_loop f E s2
      else error E (advance 1 s1) ControlCharacterWhileParsingString
    end
  end.

(* ---- the Read trait methods, dispatched on the reader ------------------------------- *)
Definition str_fuel (s : st) : nat := S (S (length (rest s))).

(* Read::parse_str: (contents, borrowed?, state).  SliceRead and IoRead validate UTF-8 (as_str),
   StrRead does not (from_utf8_unchecked). *)
Definition parse_str (E : env) (s : st) : res (bytes * bool * st) :=
  match rk E with
  | RIo =>
    let* (out, s1) := io_str_loop (str_fuel s) E true s in
    if utf8_valid out then Ok (out, false, s1) else error E s1 InvalidUnicodeCodePoint
  | RSlice =>
    let* (out, copied, s1) := slice_str_loop (str_fuel s) E true s in
    if utf8_valid out then Ok (out, negb copied, s1) else error E s1 InvalidUnicodeCodePoint
  | RStr =>
    let* (out, copied, s1) := slice_str_loop (str_fuel s) E true s in
    Ok (out, negb copied, s1)
  end.

(* Read::parse_str_raw *)
Definition parse_str_raw (E : env) (s : st) : res (bytes * bool * st) :=
  match rk E with
  | RIo => let* (out, s1) := io_str_loop (str_fuel s) E false s in Ok (out, false, s1)
  | _ => let* (out, copied, s1) := slice_str_loop (str_fuel s) E false s in Ok (out, negb copied, s1)
  end.

(* Read::ignore_str *)
Definition ignore_str (E : env) (s : st) : res st :=
  match rk E with
  | RIo => io_ignore_loop (str_fuel s) E s
  | _ => slice_ignore_loop (str_fuel s) E s
  end.
